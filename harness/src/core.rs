//! Harness core: RNG, panic-capturing call wrapper, report (counters, samples, violations).

use serde_json::{json, Map, Value};
use std::cell::RefCell;
use std::collections::{BTreeMap, HashSet};
use std::panic::{catch_unwind, AssertUnwindSafe};
use temporal_rs::error::ErrorKind;
use temporal_rs::TemporalResult;

// ---------------------------------------------------------------------------------------
// RNG: xoshiro256** seeded through SplitMix64. Deterministic in (seed, property, shard, stream).

#[derive(Clone)]
pub struct Rng {
    s: [u64; 4],
}

pub fn splitmix(x: &mut u64) -> u64 {
    *x = x.wrapping_add(0x9E37_79B9_7F4A_7C15);
    let mut z = *x;
    z = (z ^ (z >> 30)).wrapping_mul(0xBF58_476D_1CE4_E5B9);
    z = (z ^ (z >> 27)).wrapping_mul(0x94D0_49BB_1331_11EB);
    z ^ (z >> 31)
}

pub fn hash_str(s: &str) -> u64 {
    // FNV-1a 64
    let mut h: u64 = 0xcbf2_9ce4_8422_2325;
    for b in s.as_bytes() {
        h ^= *b as u64;
        h = h.wrapping_mul(0x0000_0100_0000_01B3);
    }
    h
}

pub fn mix64(mut h: u64, v: u64) -> u64 {
    h ^= v.wrapping_add(0x9E37_79B9_7F4A_7C15).wrapping_add(h << 6).wrapping_add(h >> 2);
    let mut x = h;
    splitmix(&mut x)
}

impl Rng {
    pub fn new(seed: u64, tag: &str, shard: u64) -> Self {
        let mut x = seed ^ hash_str(tag).rotate_left(17) ^ shard.wrapping_mul(0xD6E8_FEB8_6659_FD93);
        let s = [splitmix(&mut x), splitmix(&mut x), splitmix(&mut x), splitmix(&mut x)];
        Rng { s }
    }
    #[inline]
    pub fn u64(&mut self) -> u64 {
        let r = self.s[1].wrapping_mul(5).rotate_left(7).wrapping_mul(9);
        let t = self.s[1] << 17;
        self.s[2] ^= self.s[0];
        self.s[3] ^= self.s[1];
        self.s[1] ^= self.s[2];
        self.s[0] ^= self.s[3];
        self.s[2] ^= t;
        self.s[3] = self.s[3].rotate_left(45);
        r
    }
    /// uniform in [0, n)
    #[inline]
    pub fn below(&mut self, n: u64) -> u64 {
        if n == 0 {
            return 0;
        }
        ((self.u64() as u128 * n as u128) >> 64) as u64
    }
    /// uniform in [lo, hi] inclusive
    #[inline]
    pub fn range(&mut self, lo: i64, hi: i64) -> i64 {
        debug_assert!(lo <= hi);
        let span = (hi as i128 - lo as i128 + 1) as u128;
        let r = ((self.u64() as u128 * span) >> 64) as i128;
        (lo as i128 + r) as i64
    }
    #[inline]
    pub fn range128(&mut self, lo: i128, hi: i128) -> i128 {
        debug_assert!(lo <= hi);
        let span = (hi - lo) as u128 + 1;
        let r = (((self.u64() as u128) << 64) | self.u64() as u128) % span;
        lo + r as i128
    }
    #[inline]
    pub fn chance(&mut self, num: u64, den: u64) -> bool {
        self.below(den) < num
    }
    #[inline]
    pub fn pick<'a, T>(&mut self, xs: &'a [T]) -> &'a T {
        &xs[self.below(xs.len() as u64) as usize]
    }
    pub fn bool(&mut self) -> bool {
        self.u64() & 1 == 1
    }
}

// ---------------------------------------------------------------------------------------
// Call wrapper: every call into /repo goes through `call`/`call_inf`.

#[derive(Debug, Clone, PartialEq)]
pub enum Out<T> {
    Ok(T),
    Err(ErrorKind, String),
    /// (file:line, message)
    Panic(String, String),
}

impl<T> Out<T> {
    pub fn is_ok(&self) -> bool {
        matches!(self, Out::Ok(_))
    }
    pub fn ok(self) -> Option<T> {
        match self {
            Out::Ok(v) => Some(v),
            _ => None,
        }
    }
    pub fn as_ok(&self) -> Option<&T> {
        match self {
            Out::Ok(v) => Some(v),
            _ => None,
        }
    }
    pub fn is_range_err(&self) -> bool {
        matches!(self, Out::Err(ErrorKind::Range, _))
    }
    pub fn is_type_err(&self) -> bool {
        matches!(self, Out::Err(ErrorKind::Type, _))
    }
    /// The operation did not yield a verdict-able result (panic or internal assertion):
    /// the owning property is C03; other monitors count it as inconclusive.
    pub fn is_broken(&self) -> bool {
        matches!(self, Out::Panic(..) | Out::Err(ErrorKind::Assert, _))
    }
    pub fn map<U>(self, f: impl FnOnce(T) -> U) -> Out<U> {
        match self {
            Out::Ok(v) => Out::Ok(f(v)),
            Out::Err(k, m) => Out::Err(k, m),
            Out::Panic(l, m) => Out::Panic(l, m),
        }
    }
    /// Render without consuming, formatting the Ok value with `f`.
    pub fn show_with(&self, f: impl FnOnce(&T) -> String) -> String {
        match self {
            Out::Ok(v) => format!("Ok({})", f(v)),
            Out::Err(k, m) => format!("Err({k}: {m})"),
            Out::Panic(l, m) => format!("Panic({l}: {m})"),
        }
    }
    pub fn kind_str(&self) -> String {
        match self {
            Out::Ok(_) => "Ok".into(),
            Out::Err(k, _) => format!("Err({k})"),
            Out::Panic(l, _) => format!("Panic({l})"),
        }
    }
}

impl<T: std::fmt::Debug> Out<T> {
    pub fn show(&self) -> String {
        match self {
            Out::Ok(v) => format!("Ok({v:?})"),
            Out::Err(k, m) => format!("Err({k}: {m})"),
            Out::Panic(l, m) => format!("Panic({l}: {m})"),
        }
    }
}

thread_local! {
    static LAST_PANIC: RefCell<Option<(String, String)>> = const { RefCell::new(None) };
}

pub fn install_panic_hook() {
    std::panic::set_hook(Box::new(|info| {
        let loc = info
            .location()
            .map(|l| {
                let f = l.file();
                // keep the path relative to the repository (or the crate name for deps)
                let f = f.strip_prefix("/repo/").unwrap_or(f);
                let f = match f.find("/registry/src/") {
                    Some(i) => {
                        let rest = &f[i + "/registry/src/".len()..];
                        match rest.find('/') {
                            Some(j) => &rest[j + 1..],
                            None => rest,
                        }
                    }
                    None => f,
                };
                format!("{}:{}", f, l.line())
            })
            .unwrap_or_else(|| "?".into());
        let msg = if let Some(s) = info.payload().downcast_ref::<&str>() {
            (*s).to_string()
        } else if let Some(s) = info.payload().downcast_ref::<String>() {
            s.clone()
        } else {
            "<non-string panic payload>".into()
        };
        if std::env::var_os("TVH_BACKTRACE").is_some() {
            eprintln!("panic at {loc}: {msg}\n{}", std::backtrace::Backtrace::force_capture());
        }
        LAST_PANIC.with(|p| *p.borrow_mut() = Some((loc, msg)));
    }));
}

pub fn last_panic() -> (String, String) {
    take_panic()
}

fn take_panic() -> (String, String) {
    LAST_PANIC
        .with(|p| p.borrow_mut().take())
        .unwrap_or_else(|| ("?".into(), "?".into()))
}

thread_local! {
    /// Calls that returned a value (not an error) on this thread: lets a storm tell cases that got past argument
    /// validation from cases that were refused at the door.
    static OK_CALLS: std::cell::Cell<u64> = const { std::cell::Cell::new(0) };
}

pub fn ok_calls() -> u64 {
    OK_CALLS.with(|c| c.get())
}

thread_local! {
    /// Every panic / internal-assertion error met by `call`/`call_inf` during this run, keyed by location (C03's subject):
    /// location -> (count, first message, case index of the first occurrence)
    static BROKEN: RefCell<BTreeMap<String, (u64, String, u64)>> = const { RefCell::new(BTreeMap::new()) };
    static CURRENT_CASE: std::cell::Cell<u64> = const { std::cell::Cell::new(0) };
}

fn note_broken(key: String, msg: &str) {
    let case = CURRENT_CASE.with(|c| c.get());
    BROKEN.with(|b| {
        let mut b = b.borrow_mut();
        if b.len() < 2000 || b.contains_key(&key) {
            let e = b.entry(key).or_insert_with(|| (0, msg.chars().take(300).collect(), case));
            e.0 += 1;
        }
    });
}

pub fn broken_registry() -> Vec<(String, u64, String, u64)> {
    BROKEN.with(|b| b.borrow().iter().map(|(k, v)| (k.clone(), v.0, v.1.clone(), v.2)).collect())
}

/// Numbers inside a message make one defect look like many: replace digit runs.
fn strip_numbers(s: &str) -> String {
    let mut out = String::new();
    let mut in_num = false;
    for c in s.chars() {
        if c.is_ascii_digit() {
            if !in_num {
                out.push('#');
            }
            in_num = true;
        } else {
            in_num = false;
            out.push(c);
        }
    }
    out
}

/// Call a fallible public operation.
#[inline]
pub fn call<T>(f: impl FnOnce() -> TemporalResult<T>) -> Out<T> {
    match catch_unwind(AssertUnwindSafe(f)) {
        Ok(Ok(v)) => {
            OK_CALLS.with(|c| c.set(c.get() + 1));
            Out::Ok(v)
        }
        Ok(Err(e)) => {
            if e.kind() == ErrorKind::Assert {
                note_broken(format!("assert-error: {}", strip_numbers(e.message())), e.message());
            }
            Out::Err(e.kind(), e.message().to_string())
        }
        Err(_) => {
            let (l, m) = take_panic();
            note_broken(broken_key(&l, &m), &m);
            Out::Panic(l, m)
        }
    }
}

/// Key of a panic: file:line + message (digits masked) for the repository's own code; for a dependency only the
/// file, because its debug assertions fire at many neighbouring lines for the same far-away inputs.
fn broken_key(loc: &str, msg: &str) -> String {
    if loc.starts_with("src/") || loc.starts_with("temporal_capi/") || loc.starts_with("provider/") {
        format!("panic at {loc}: {}", strip_numbers(msg).chars().take(80).collect::<String>())
    } else {
        let file = loc.rsplit_once(':').map(|x| x.0).unwrap_or(loc);
        format!("panic in dependency {file}")
    }
}

/// Call an infallible public operation.
#[inline]
pub fn call_inf<T>(f: impl FnOnce() -> T) -> Out<T> {
    match catch_unwind(AssertUnwindSafe(f)) {
        Ok(v) => {
            OK_CALLS.with(|c| c.set(c.get() + 1));
            Out::Ok(v)
        }
        Err(_) => {
            let (l, m) = take_panic();
            note_broken(broken_key(&l, &m), &m);
            Out::Panic(l, m)
        }
    }
}

// ---------------------------------------------------------------------------------------
// Report

#[derive(Clone, Debug)]
pub struct Violation {
    pub clause: String,
    pub op: String,
    pub shape: String,
    pub case: Value,
    pub got: String,
    pub expected: String,
    pub case_idx: u64,
}

pub struct Config {
    pub property: String,
    pub tier: String,
    pub seed: u64,
    pub shard: u64,
    pub nshards: u64,
    pub only: Option<u64>,
    pub build: String,
    pub scale: f64,
    pub verbose: bool,
}

impl Config {
    pub fn thorough(&self) -> bool {
        self.tier == "thorough"
    }
    pub fn rng(&self, stream: &str) -> Rng {
        Rng::new(self.seed, &format!("{}/{}", self.property, stream), self.shard)
    }
    /// Number of random cases for this shard: `quick` or `thorough` total divided by shards.
    pub fn budget(&self, quick_total: u64, thorough_total: u64) -> u64 {
        let t = if self.thorough() { thorough_total } else { quick_total };
        let t = (t as f64 * self.scale) as u64;
        (t / self.nshards.max(1)).max(1)
    }
    /// Does this shard own item `i` of a directed enumeration?
    #[inline]
    pub fn mine(&self, i: u64) -> bool {
        i % self.nshards == self.shard
    }
}

const MAX_WITNESS_PER_SIG: usize = 3;
const MAX_SIGS: usize = 400;
const DISTINCT_CAP: usize = 3_000_000;

pub struct Report {
    pub cfg: Config,
    pub evaluations: u64,
    pub case_idx: u64,
    pub counters: BTreeMap<String, u64>,
    pub distinct: HashSet<u64>,
    pub distinct_overflow: u64,
    pub distinct_direct: u64,
    pub samples: Vec<Value>,
    pub sample_keys: HashSet<String>,
    pub violations: BTreeMap<String, (u64, Vec<Violation>)>,
    pub notes: Vec<String>,
    pub extra: Map<String, Value>,
    pub exhaustive: Option<bool>,
    pub harness_errors: Vec<String>,
    /// progress marker `<out>.cur`: the index of the case being worked on, so that the driver can replay the
    /// case a shard died in (driver/triage.py)
    marker: Option<std::fs::File>,
    case_started: Option<std::time::Instant>,
    pub max_case_us: u64,
    pub max_case_idx: u64,
}

impl Report {
    pub fn new(cfg: Config) -> Self {
        Report {
            cfg,
            evaluations: 0,
            case_idx: 0,
            counters: BTreeMap::new(),
            distinct: HashSet::new(),
            distinct_overflow: 0,
            distinct_direct: 0,
            samples: Vec::new(),
            sample_keys: HashSet::new(),
            violations: BTreeMap::new(),
            notes: Vec::new(),
            extra: Map::new(),
            exhaustive: None,
            harness_errors: Vec::new(),
            marker: None,
            case_started: None,
            max_case_us: 0,
            max_case_idx: 0,
        }
    }

    pub fn open_marker(&mut self, out: Option<&str>) {
        if let Some(out) = out {
            self.marker = std::fs::File::create(format!("{out}.cur")).ok();
        }
    }

    pub fn finish_cases(&mut self) {
        self.close_case();
    }

    fn close_case(&mut self) {
        if let Some(t) = self.case_started.take() {
            let us = t.elapsed().as_micros() as u64;
            if us > self.max_case_us {
                self.max_case_us = us;
                self.max_case_idx = self.case_idx;
            }
        }
    }

    /// Start the next case. Returns false when a replay filter deselects it.
    #[inline]
    pub fn begin(&mut self) -> bool {
        self.close_case();
        self.case_idx += 1;
        CURRENT_CASE.with(|c| c.set(self.case_idx));
        let selected = match self.cfg.only {
            None => true,
            Some(i) => i == self.case_idx,
        };
        if selected {
            if let Some(f) = &self.marker {
                use std::os::unix::fs::FileExt;
                let _ = f.write_at(&self.case_idx.to_le_bytes(), 0);
            }
            self.case_started = Some(std::time::Instant::now());
        }
        selected
    }

    #[inline]
    pub fn add(&mut self, name: &str, n: u64) {
        if n == 0 {
            // make sure the key exists so a zero is visible
            self.counters.entry(name.to_string()).or_insert(0);
            return;
        }
        *self.counters.entry(name.to_string()).or_insert(0) += n;
    }

    #[inline]
    pub fn hit(&mut self, name: &str) {
        *self.counters.entry(name.to_string()).or_insert(0) += 1;
    }

    pub fn get(&self, name: &str) -> u64 {
        self.counters.get(name).copied().unwrap_or(0)
    }

    /// Record a distinct non-trivial case by fingerprint.
    #[inline]
    pub fn nontrivial(&mut self, fp: u64) {
        if self.distinct.len() < DISTINCT_CAP {
            self.distinct.insert(fp);
        } else {
            self.distinct_overflow += 1;
        }
    }

    /// Record `n` cases that are distinct by construction (enumerations).
    pub fn nontrivial_direct(&mut self, n: u64) {
        self.distinct_direct += n;
    }

    /// Keep a sample per `key` (first one wins), at most 40 in total.
    pub fn sample(&mut self, key: &str, v: impl FnOnce() -> Value) {
        if self.samples.len() >= 40 || self.sample_keys.contains(key) {
            return;
        }
        self.sample_keys.insert(key.to_string());
        self.samples.push(v());
    }

    pub fn inconclusive(&mut self, clause: &str, why: &str) {
        self.hit(&format!("inconclusive/{clause}/{why}"));
    }

    #[allow(clippy::too_many_arguments)]
    pub fn violation(
        &mut self,
        clause: &str,
        op: &str,
        shape: &str,
        case: Value,
        got: String,
        expected: String,
    ) {
        let sig = format!("{}/{}/{}/{}", self.cfg.property, clause, op, shape);
        if self.cfg.verbose {
            eprintln!("violation {sig}\n  case={case}\n  got={got}\n  expected={expected}");
        }
        let n = self.violations.len();
        let e = self.violations.entry(sig).or_insert_with(|| (0, Vec::new()));
        e.0 += 1;
        if e.1.len() < MAX_WITNESS_PER_SIG && n < MAX_SIGS {
            e.1.push(Violation {
                clause: clause.into(),
                op: op.into(),
                shape: shape.into(),
                case,
                got,
                expected,
                case_idx: self.case_idx,
            });
        }
    }

    pub fn harness_error(&mut self, msg: String) {
        if self.harness_errors.len() < 20 {
            self.harness_errors.push(msg);
        }
    }

    /// A clause the directed generator must reach: evaluated == 0 is a harness bug.
    pub fn require(&mut self, counter: &str) {
        if self.cfg.only.is_none() && self.get(counter) == 0 {
            self.harness_error(format!("required counter `{counter}` is 0 (clause never exercised)"));
        }
    }

    pub fn to_json(&self) -> Value {
        let mut viol = Vec::new();
        for (sig, (count, ws)) in &self.violations {
            viol.push(json!({
                "sig": sig,
                "count": count,
                "witnesses": ws.iter().map(|w| json!({
                    "clause": w.clause, "op": w.op, "shape": w.shape, "case": w.case,
                    "got": w.got, "expected": w.expected, "case_idx": w.case_idx,
                })).collect::<Vec<_>>(),
            }));
        }
        json!({
            "property": self.cfg.property,
            "tier": self.cfg.tier,
            "seed": self.cfg.seed,
            "shard": self.cfg.shard,
            "nshards": self.cfg.nshards,
            "build": self.cfg.build,
            "evaluations": self.evaluations,
            "cases": self.case_idx,
            "max_case_ms": self.max_case_us as f64 / 1000.0,
            "max_case_idx": self.max_case_idx,
            "distinct_nontrivial": self.distinct.len() as u64 + self.distinct_direct,
            "distinct_uncounted_after_cap": self.distinct_overflow,
            "counters": self.counters,
            "samples": self.samples,
            "violations": viol,
            "notes": self.notes,
            "extra": self.extra,
            "exhaustive": self.exhaustive,
            "harness_errors": self.harness_errors,
            "broken": broken_registry().into_iter().map(|(k, n, m, c)| json!({"key": k, "count": n, "message": m, "case_idx": c})).collect::<Vec<_>>(),
        })
    }
}

/// Fingerprint helper.
#[macro_export]
macro_rules! fp {
    ($($x:expr),+ $(,)?) => {{
        let mut h: u64 = 0x1234_5678_9abc_def0;
        $( h = $crate::core::mix64(h, ($x) as u64); )+
        h
    }};
}
