pub mod civil;
pub mod round;
pub mod dur;
pub mod date;
pub mod grammar;
pub mod relround;
