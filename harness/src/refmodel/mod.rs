pub mod civil;
