//! Rounding, totalling and comparing durations relative to a plain date: "add it to the date and re-measure",
//! in exact integer / rational arithmetic. Clean-room statement of the specification's
//! DifferencePlainDateTimeWithRounding / TotalRelativeDuration (Nudge* + Bubble) over refmodel::date.

use super::civil::*;
use super::date::{add_date, diff_date};
use super::dur;
use super::round::{round_int, round_rat, Mode};
use std::cmp::Ordering;
use temporal_rs::options::Unit;

#[derive(Debug, Clone, PartialEq)]
pub enum RelErr {
    /// the specification throws a RangeError
    Range,
    /// a bracket end or intermediate date leaves the representable range, or an internal assertion of the
    /// specification does not hold: not judged
    Undecided(&'static str),
}

pub const DAY: i128 = NS_PER_DAY;
const DT_LIMIT: i128 = MAX_INSTANT + NS_PER_DAY;

fn unit_index(u: Unit) -> usize {
    match u {
        Unit::Year => 0,
        Unit::Month => 1,
        Unit::Week => 2,
        Unit::Day => 3,
        Unit::Hour => 4,
        Unit::Minute => 5,
        Unit::Second => 6,
        Unit::Millisecond => 7,
        Unit::Microsecond => 8,
        _ => 9,
    }
}
const TABLE: [Unit; 10] = [Unit::Year, Unit::Month, Unit::Week, Unit::Day, Unit::Hour, Unit::Minute, Unit::Second, Unit::Millisecond, Unit::Microsecond, Unit::Nanosecond];

pub fn unit_len(u: Unit) -> i128 {
    match u {
        Unit::Day => DAY,
        Unit::Hour => 3_600_000_000_000,
        Unit::Minute => 60_000_000_000,
        Unit::Second => 1_000_000_000,
        Unit::Millisecond => 1_000_000,
        Unit::Microsecond => 1_000,
        _ => 1,
    }
}

fn is_date_unit(u: Unit) -> bool {
    unit_index(u) <= 3
}

type DateDur = (i64, i64, i64, i64);

fn add_days(day0: i64, d: DateDur) -> Option<i64> {
    let (y, m, dd) = add_date(civil_from_days(day0), d.0 as i128, d.1 as i128, d.2 as i128, d.3 as i128, 0, false).ok()?;
    Some(days_from_civil(y, m, dd))
}

/// DifferenceISODateTime from midnight of `day0` to (`day1`, `tod1`).
pub fn diff_dt(day0: i64, day1: i64, tod1: i128, largest: Unit) -> (DateDur, i128) {
    let mut time = tod1; // minus midnight
    let time_sign = time.signum();
    let date_sign = (day1 - day0).signum() as i128;
    let mut adj = day1;
    if time_sign != 0 && time_sign == -date_sign {
        adj += time_sign as i64;
        time -= time_sign * DAY;
    }
    let date_largest = if is_date_unit(largest) { largest } else { Unit::Day };
    let (y, mo, w, d) = diff_date(civil_from_days(day0), civil_from_days(adj), date_largest);
    if !is_date_unit(largest) {
        ((0, 0, 0, 0), time + d as i128 * DAY)
    } else {
        ((y, mo, w, d), time)
    }
}

/// The destination of `relative date + duration`: (day, time of day) following Duration.prototype.round/total.
pub fn target(day0: i64, v: &[f64; 10]) -> Result<(i64, i128), RelErr> {
    let mut tf = *v;
    tf[0] = 0.0;
    tf[1] = 0.0;
    tf[2] = 0.0;
    // 24-hour days folded into the time
    let total = dur::time_total(&tf);
    let carry = total.div_euclid(DAY);
    let tod = total.rem_euclid(DAY);
    if (carry * DAY).abs() >= dur::MAX_TIME_NS_EXCL {
        return Err(RelErr::Range);
    }
    // A destination (or an anchor midnight) outside the representable range: whether the operation must fail or may
    // answer from the duration alone is not part of "add it and re-measure"
    if (day0 as i128 * DAY) <= -DT_LIMIT {
        return Err(RelErr::Undecided("anchor midnight outside the date-time range"));
    }
    let Ok((y, m, d)) = add_date(civil_from_days(day0), dur::exact(v[0]), dur::exact(v[1]), dur::exact(v[2]), carry, 0, false) else { return Err(RelErr::Undecided("destination outside the date range")) };
    let day1 = days_from_civil(y, m, d);
    let local = day1 as i128 * DAY + tod;
    if local <= -DT_LIMIT || local >= DT_LIMIT {
        return Err(RelErr::Undecided("destination outside the date range"));
    }
    Ok((day1, tod))
}

pub struct Nudge {
    pub dur: DateDur,
    pub time: i128,
    /// exact total in the unit: num / den
    pub total: (i128, i128),
    pub nudged: i128,
    pub expanded: bool,
}

pub fn nudge_calendar(sign: i128, d: DateDur, dest: i128, day0: i64, inc: i128, unit: Unit, mode: Mode) -> Result<Nudge, RelErr> {
    let (y, mo, w, dd) = d;
    let trunc = |x: i64| round_int(x as i128, inc, Mode::Trunc).0 as i64;
    let s = sign as i64;
    let inc64 = inc as i64;
    let (r1, start_d, end_d): (i64, DateDur, DateDur) = match unit {
        Unit::Year => {
            let r1 = trunc(y);
            (r1, (r1, 0, 0, 0), (r1 + inc64 * s, 0, 0, 0))
        }
        Unit::Month => {
            let r1 = trunc(mo);
            (r1, (y, r1, 0, 0), (y, r1 + inc64 * s, 0, 0))
        }
        Unit::Week => {
            let ws = add_days(day0, (y, mo, 0, 0)).ok_or(RelErr::Undecided("week anchor beyond range"))?;
            let we = ws + dd;
            if !(MIN_DAY..=MAX_DAY).contains(&we) {
                return Err(RelErr::Undecided("week anchor beyond range"));
            }
            let (_, _, uw, _) = diff_date(civil_from_days(ws), civil_from_days(we), Unit::Week);
            let r1 = trunc(w + uw);
            (r1, (y, mo, r1, 0), (y, mo, r1 + inc64 * s, 0))
        }
        _ => {
            let r1 = trunc(dd);
            (r1, (y, mo, w, r1), (y, mo, w, r1 + inc64 * s))
        }
    };
    let r2 = r1 + inc64 * s;
    let start = add_days(day0, start_d).ok_or(RelErr::Undecided("bracket start beyond range"))? as i128 * DAY;
    let end = add_days(day0, end_d).ok_or(RelErr::Undecided("bracket end beyond range"))? as i128 * DAY;
    let a = (dest - start) * sign;
    let b = (end - start) * sign;
    if b <= 0 || a < 0 || a > b {
        return Err(RelErr::Undecided("destination outside the bracket (specification assertion)"));
    }
    let num = r1 as i128 * b + sign * inc * a;
    let rounded = round_rat(num, b, inc, mode).0;
    let expanded = rounded == r2 as i128 && r2 != r1;
    Ok(Nudge { dur: if expanded { end_d } else { start_d }, time: 0, total: (num, b), nudged: if expanded { end } else { start }, expanded })
}

pub fn nudge_day_time(d: DateDur, time: i128, dest: i128, largest: Unit, inc: i128, smallest: Unit, mode: Mode) -> Nudge {
    let td = time + d.3 as i128 * DAY;
    let rounded = round_int(td, unit_len(smallest) * inc, mode).0;
    let diff = rounded - td;
    let whole = td / DAY;
    let rwhole = rounded / DAY;
    let delta = rwhole - whole;
    let expanded = delta.signum() == td.signum();
    let (days, rem) = if is_date_unit(largest) { (rwhole as i64, rounded - rwhole * DAY) } else { (0, rounded) };
    Nudge { dur: (d.0, d.1, d.2, days), time: rem, total: (td, unit_len(smallest)), nudged: dest + diff, expanded }
}

pub fn bubble(sign: i128, mut d: DateDur, mut time: i128, nudged: i128, day0: i64, largest: Unit, start_unit: Unit) -> Result<(DateDur, i128), RelErr> {
    if start_unit == largest {
        return Ok((d, time));
    }
    let li = unit_index(largest) as isize;
    let mut ui = unit_index(start_unit) as isize - 1;
    let s = sign as i64;
    while ui >= li {
        let unit = TABLE[ui as usize];
        if unit != Unit::Week || largest == Unit::Week {
            let end_d: DateDur = match unit {
                Unit::Year => (d.0 + s, 0, 0, 0),
                Unit::Month => (d.0, d.1 + s, 0, 0),
                Unit::Week => (d.0, d.1, d.2 + s, 0),
                _ => (d.0, d.1, d.2, d.3 + s),
            };
            let end = add_days(day0, end_d).ok_or(RelErr::Undecided("bubble end beyond range"))? as i128 * DAY;
            let beyond = (nudged - end).signum();
            if beyond != -sign {
                d = end_d;
                time = 0;
            } else {
                break;
            }
        }
        ui -= 1;
    }
    Ok((d, time))
}

/// Duration.prototype.round with a plain relativeTo: the ten expected fields.
pub fn round_relative(day0: i64, v: &[f64; 10], largest: Unit, smallest: Unit, inc: i128, mode: Mode) -> Result<[f64; 10], RelErr> {
    let (day1, tod1) = target(day0, v)?;
    if day1 == day0 && tod1 == 0 {
        return Ok([0.0; 10]);
    }
    let (d, time) = diff_dt(day0, day1, tod1, largest);
    let (d, time) = if smallest == Unit::Nanosecond && inc == 1 {
        (d, time)
    } else {
        let dest = day1 as i128 * DAY + tod1;
        let sign: i128 = if dest < day0 as i128 * DAY { -1 } else { 1 };
        let calendar_unit = unit_index(smallest) <= 2;
        let n = if calendar_unit { nudge_calendar(sign, d, dest, day0, inc, smallest, mode)? } else { nudge_day_time(d, time, dest, largest, inc, smallest, mode) };
        if n.expanded && smallest != Unit::Week {
            let start_unit = if unit_index(smallest) <= 3 { smallest } else { Unit::Day };
            bubble(sign, n.dur, n.time, n.nudged, day0, largest, start_unit)?
        } else {
            (n.dur, n.time)
        }
    };
    let bal = dur::balance(time, largest);
    let mut f = dur::fields_f64(d.0 as i128, d.1 as i128, d.2 as i128, bal);
    f[3] = (d.3 as i128 + bal[0]) as f64;
    if !dur::is_valid(&f) {
        return Err(RelErr::Range);
    }
    Ok(f)
}

/// Duration.prototype.total with a plain relativeTo: the exact rational total (num, den), den > 0.
pub fn total_relative(day0: i64, v: &[f64; 10], unit: Unit) -> Result<(i128, i128), RelErr> {
    let (day1, tod1) = target(day0, v)?;
    if day1 == day0 && tod1 == 0 {
        return Ok((0, 1));
    }
    let (d, time) = diff_dt(day0, day1, tod1, unit);
    if unit == Unit::Nanosecond {
        return Ok((time, 1));
    }
    let dest = day1 as i128 * DAY + tod1;
    if unit_index(unit) <= 2 {
        let sign: i128 = if dest < day0 as i128 * DAY { -1 } else { 1 };
        let n = nudge_calendar(sign, d, dest, day0, 1, unit, Mode::Trunc)?;
        Ok(n.total)
    } else {
        Ok((time + d.3 as i128 * DAY, unit_len(unit)))
    }
}

/// Duration.compare with a plain relativeTo.
pub fn compare_relative(day0: i64, a: &[f64; 10], b: &[f64; 10]) -> Result<Ordering, RelErr> {
    // identical field by field: equal before anything is added to the reference date
    if a == b {
        return Ok(Ordering::Equal);
    }
    let cal = |v: &[f64; 10]| v[0] != 0.0 || v[1] != 0.0 || v[2] != 0.0;
    let total = |v: &[f64; 10]| -> Result<i128, RelErr> {
        let mut tf = *v;
        tf[0] = 0.0;
        tf[1] = 0.0;
        tf[2] = 0.0;
        tf[3] = 0.0;
        let t = dur::time_total(&tf);
        let days = if (cal(a) || cal(b)) && cal(v) {
            // DateDurationDays: years, months and weeks measured in days from the reference date, plus the days
            let Ok((y, m, d)) = add_date(civil_from_days(day0), dur::exact(v[0]), dur::exact(v[1]), dur::exact(v[2]), 0, 0, false) else { return Err(RelErr::Range) };
            (days_from_civil(y, m, d) - day0) as i128 + dur::exact(v[3])
        } else {
            dur::exact(v[3])
        };
        let tot = t + days * DAY;
        if tot.abs() >= dur::MAX_TIME_NS_EXCL {
            return Err(RelErr::Range);
        }
        Ok(tot)
    };
    Ok(total(a)?.cmp(&total(b)?))
}

#[cfg(test)]
mod tests {
    use super::*;
    fn day(y: i64, m: u8, d: u8) -> i64 {
        days_from_civil(y, m, d)
    }
    #[test]
    fn bubbling() {
        // 11 months 20 days rounded to months from 2020-01-01 with largest year -> 1 year
        let v = [0.0, 11.0, 0.0, 20.0, 0.0, 0.0, 0.0, 0.0, 0.0, 0.0];
        let r = round_relative(day(2020, 1, 1), &v, Unit::Year, Unit::Month, 1, Mode::HalfExpand).unwrap();
        assert_eq!(r[0], 1.0);
        assert_eq!(r[1], 0.0);
        // P1M15D total months from 2021-01-31? target = 2021-02-28 + 15 d = 2021-03-15
        let v = [0.0, 1.0, 0.0, 15.0, 0.0, 0.0, 0.0, 0.0, 0.0, 0.0];
        let (n, d) = total_relative(day(2021, 1, 31), &v, Unit::Month).unwrap();
        // from Jan 31: +1M = Feb 28, +2M = Mar 31; dest Mar 15 -> 1 + 15/31
        assert_eq!((n, d), ((31 + 15) * DAY, 31 * DAY));
        // PT36H relative, largest day
        let v = [0.0, 0.0, 0.0, 0.0, 36.0, 0.0, 0.0, 0.0, 0.0, 0.0];
        let r = round_relative(day(2020, 1, 1), &v, Unit::Day, Unit::Nanosecond, 1, Mode::Trunc).unwrap();
        assert_eq!((r[3], r[4]), (1.0, 12.0));
    }
}

