//! A hand-written recogniser / evaluator for the Temporal ISO 8601 / RFC 9557 string grammar,
//! written from the specification's productions (no code shared with `ixdtf` or /repo).
//!
//! `parse_annotated(s)` recognises the three syntactic families
//!   DateTime family:  Date [ sep Time [ UTCOffset | Z ] ] [TimeZoneAnnotation] Annotation*
//!   Time family:      [T] Time [ UTCOffset | Z ] [TimeZoneAnnotation] Annotation*
//!   YearMonth / MonthDay short forms followed by [TimeZoneAnnotation] Annotation*
//! and returns every reading that matches (a string can match several). The per-goal rules
//! (`goal_*`) then decide accept(value) / reject / undecided.

use super::civil::{days_from_civil, dim};

#[derive(Clone, Debug, PartialEq)]
pub enum Off {
    Z,
    /// signed nanoseconds, and whether the text had a seconds / fraction part
    Ns(i64, bool),
}

#[derive(Clone, Debug, PartialEq)]
pub enum Tz {
    Name(String),
    OffsetMinutes(i32),
}

#[derive(Clone, Debug, PartialEq, Default)]
pub struct Ann {
    pub tz: Option<(Tz, bool)>,
    /// calendar annotations in order: (value, critical)
    pub cals: Vec<(String, bool)>,
    pub unknown_critical: bool,
}

#[derive(Clone, Debug, PartialEq)]
pub struct Time {
    pub ns_of_day: i64,
    pub second_was_60: bool,
}

#[derive(Clone, Debug, PartialEq)]
pub enum Form {
    /// full date, optional time, optional offset
    DateTime { y: i64, m: u8, d: u8, time: Option<Time>, off: Option<Off> },
    /// time-only form
    Time { time: Time, off: Option<Off>, had_designator: bool },
    YearMonth { y: i64, m: u8 },
    MonthDay { m: u8, d: u8 },
}

#[derive(Clone, Debug, PartialEq)]
pub struct Reading {
    pub form: Form,
    pub ann: Ann,
}

struct Cur<'a> {
    b: &'a [u8],
    i: usize,
}

impl<'a> Cur<'a> {
    fn peek(&self) -> Option<u8> {
        self.b.get(self.i).copied()
    }
    fn eat(&mut self, c: u8) -> bool {
        if self.peek() == Some(c) {
            self.i += 1;
            true
        } else {
            false
        }
    }
    fn digits(&mut self, n: usize) -> Option<i64> {
        if self.i + n > self.b.len() {
            return None;
        }
        let mut v = 0i64;
        for k in 0..n {
            let c = self.b[self.i + k];
            if !c.is_ascii_digit() {
                return None;
            }
            v = v * 10 + (c - b'0') as i64;
        }
        self.i += n;
        Some(v)
    }
    fn rest(&self) -> &'a [u8] {
        &self.b[self.i..]
    }
}

/// DateYear: four digits, or sign + six digits (not -000000).
fn year(c: &mut Cur) -> Option<i64> {
    match c.peek() {
        Some(b'+') | Some(b'-') => {
            let neg = c.peek() == Some(b'-');
            c.i += 1;
            let v = c.digits(6)?;
            if neg && v == 0 {
                return None;
            }
            Some(if neg { -v } else { v })
        }
        _ => c.digits(4),
    }
}

/// Date: extended (YYYY-MM-DD) or basic (YYYYMMDD). Day validity against the month is a
/// *post-parse* rule (the grammar allows 01..31).
fn date(c: &mut Cur) -> Option<(i64, u8, u8)> {
    let y = year(c)?;
    let ext = c.eat(b'-');
    let m = c.digits(2)?;
    if ext && !c.eat(b'-') {
        return None;
    }
    if !ext && c.peek() == Some(b'-') {
        return None;
    }
    let d = c.digits(2)?;
    if !(1..=12).contains(&m) || !(1..=31).contains(&d) {
        return None;
    }
    Some((y, m as u8, d as u8))
}

/// fraction: [.,] 1..9 digits -> nanoseconds. More than nine digits is not in the grammar.
fn fraction(c: &mut Cur) -> Option<Option<i64>> {
    if c.peek() == Some(b'.') || c.peek() == Some(b',') {
        c.i += 1;
        let mut n = 0;
        let mut v = 0i64;
        while let Some(ch) = c.peek() {
            if !ch.is_ascii_digit() {
                break;
            }
            if n == 9 {
                return None;
            }
            v = v * 10 + (ch - b'0') as i64;
            n += 1;
            c.i += 1;
        }
        if n == 0 {
            return None;
        }
        for _ in n..9 {
            v *= 10;
        }
        Some(Some(v))
    } else {
        Some(None)
    }
}

/// Time: HH | HH:MM | HHMM | HH:MM:SS[frac] | HHMMSS[frac]
fn time(c: &mut Cur) -> Option<Time> {
    let h = c.digits(2)?;
    if h > 23 {
        return None;
    }
    let mut ns = h * 3_600_000_000_000;
    let mut was60 = false;
    let ext = c.peek() == Some(b':');
    if ext {
        c.i += 1;
    }
    let save = c.i;
    match c.digits(2) {
        None => {
            if ext {
                return None;
            }
            c.i = save;
            return Some(Time { ns_of_day: ns, second_was_60: false });
        }
        Some(mi) => {
            if mi > 59 {
                return None;
            }
            ns += mi * 60_000_000_000;
        }
    }
    // seconds
    let has_sec = if ext {
        if c.peek() == Some(b':') {
            c.i += 1;
            true
        } else {
            false
        }
    } else {
        // basic format: two more digits directly
        let s2 = c.i;
        let ok = c.digits(2).is_some();
        c.i = s2;
        ok
    };
    if has_sec {
        let s = c.digits(2)?;
        if s > 60 {
            return None;
        }
        was60 = s == 60;
        ns += s.min(59) * 1_000_000_000;
        if let Some(f) = fraction(c)? {
            ns += f;
        }
    }
    Some(Time { ns_of_day: ns, second_was_60: was60 })
}

/// UTC offset with optional sub-minute part (date-time offsets).
fn utc_offset(c: &mut Cur, allow_subminute: bool) -> Option<(i64, bool)> {
    let sign: i64 = match c.peek() {
        Some(b'+') => 1,
        Some(b'-') => -1,
        _ => return None,
    };
    c.i += 1;
    let h = c.digits(2)?;
    if h > 23 {
        return None;
    }
    let mut ns = h * 3_600_000_000_000;
    let ext = c.peek() == Some(b':');
    let save = c.i;
    if ext {
        c.i += 1;
    }
    match c.digits(2) {
        None => {
            if ext {
                return None;
            }
            c.i = save;
            return Some((sign * ns, false));
        }
        Some(mi) => {
            if mi > 59 {
                return None;
            }
            ns += mi * 60_000_000_000;
        }
    }
    let mut sub = false;
    if allow_subminute {
        let has_sec = if ext {
            if c.peek() == Some(b':') {
                c.i += 1;
                true
            } else {
                false
            }
        } else {
            let s2 = c.i;
            let ok = c.digits(2).is_some();
            c.i = s2;
            ok
        };
        if has_sec {
            let s = c.digits(2)?;
            if s > 59 {
                return None;
            }
            ns += s * 1_000_000_000;
            if let Some(f) = fraction(c)? {
                ns += f;
            }
            sub = true;
        }
    }
    Some((sign * ns, sub))
}

fn is_tz_leading(ch: u8) -> bool {
    ch.is_ascii_alphabetic() || ch == b'.' || ch == b'_'
}

fn is_tz_char(ch: u8) -> bool {
    is_tz_leading(ch) || ch.is_ascii_digit() || ch == b'-' || ch == b'+'
}

/// TimeZoneIANAName: components separated by '/', each TZLeadingChar TZChar*.
pub fn is_iana_name(s: &[u8]) -> bool {
    if s.is_empty() {
        return false;
    }
    for comp in s.split(|c| *c == b'/') {
        if comp.is_empty() || !is_tz_leading(comp[0]) || !comp.iter().all(|c| is_tz_char(*c)) {
            return false;
        }
    }
    true
}

fn is_akey(s: &[u8]) -> bool {
    // AKeyLeadingChar: a-z or _ ; AKeyChar: a-z 0-9 - _
    !s.is_empty() && (s[0].is_ascii_lowercase() || s[0] == b'_') && s.iter().all(|c| c.is_ascii_lowercase() || c.is_ascii_digit() || *c == b'-' || *c == b'_')
}

fn is_avalue(s: &[u8]) -> bool {
    // AnnotationValue: components of alphanumerics separated by '-'
    !s.is_empty() && s.split(|c| *c == b'-').all(|comp| !comp.is_empty() && comp.iter().all(|c| c.is_ascii_alphanumeric()))
}

/// `[...]`* : an optional time zone annotation first, then key=value annotations.
fn annotations(c: &mut Cur) -> Option<Ann> {
    let mut ann = Ann::default();
    let mut first = true;
    while c.peek() == Some(b'[') {
        c.i += 1;
        let critical = c.eat(b'!');
        let start = c.i;
        while let Some(ch) = c.peek() {
            if ch == b']' {
                break;
            }
            c.i += 1;
        }
        if c.peek() != Some(b']') {
            return None;
        }
        let body = &c.b[start..c.i];
        c.i += 1;
        if let Some(eq) = body.iter().position(|x| *x == b'=') {
            let (k, v) = (&body[..eq], &body[eq + 1..]);
            if !is_akey(k) || !is_avalue(v) {
                return None;
            }
            if k == b"u-ca" {
                ann.cals.push((String::from_utf8_lossy(v).to_string(), critical));
            } else if critical {
                ann.unknown_critical = true;
            }
        } else {
            // a time zone annotation: only allowed as the first bracket
            if !first {
                return None;
            }
            let mut cc = Cur { b: body, i: 0 };
            if let Some((ns, _)) = utc_offset(&mut cc, false) {
                if cc.i != body.len() {
                    return None;
                }
                ann.tz = Some((Tz::OffsetMinutes((ns / 60_000_000_000) as i32), critical));
            } else if is_iana_name(body) {
                ann.tz = Some((Tz::Name(String::from_utf8_lossy(body).to_string()), critical));
            } else {
                return None;
            }
        }
        first = false;
    }
    Some(ann)
}

fn offset_or_z(c: &mut Cur) -> Option<Option<Off>> {
    match c.peek() {
        Some(b'Z') | Some(b'z') => {
            c.i += 1;
            Some(Some(Off::Z))
        }
        Some(b'+') | Some(b'-') => {
            let (ns, sub) = utc_offset(c, true)?;
            Some(Some(Off::Ns(ns, sub)))
        }
        _ => Some(None),
    }
}

fn finish(c: &mut Cur, form: Form) -> Option<Reading> {
    let ann = annotations(c)?;
    if c.i != c.b.len() {
        return None;
    }
    Some(Reading { form, ann })
}

/// All readings of `s` (at most one per syntactic family).
pub fn readings(s: &str) -> Vec<Reading> {
    let b = s.as_bytes();
    let mut out = Vec::new();
    // --- DateTime family
    {
        let mut c = Cur { b, i: 0 };
        if let Some((y, m, d)) = date(&mut c) {
            let save = c.i;
            let mut form = None;
            if matches!(c.peek(), Some(b'T') | Some(b't') | Some(b' ')) {
                c.i += 1;
                if let Some(t) = time(&mut c) {
                    if let Some(off) = offset_or_z(&mut c) {
                        form = Some(Form::DateTime { y, m, d, time: Some(t), off });
                    }
                }
            } else {
                c.i = save;
                form = Some(Form::DateTime { y, m, d, time: None, off: None });
            }
            if let Some(f) = form {
                if let Some(r) = finish(&mut c, f) {
                    out.push(r);
                }
            }
        }
    }
    // --- Time family
    {
        let mut c = Cur { b, i: 0 };
        let des = matches!(c.peek(), Some(b'T') | Some(b't'));
        if des {
            c.i += 1;
        }
        if let Some(t) = time(&mut c) {
            if let Some(off) = offset_or_z(&mut c) {
                if let Some(r) = finish(&mut c, Form::Time { time: t, off, had_designator: des }) {
                    out.push(r);
                }
            }
        }
    }
    // --- YearMonth short form
    {
        let mut c = Cur { b, i: 0 };
        if let Some(y) = year(&mut c) {
            c.eat(b'-');
            if let Some(m) = c.digits(2) {
                if (1..=12).contains(&m) {
                    if let Some(r) = finish(&mut c, Form::YearMonth { y, m: m as u8 }) {
                        out.push(r);
                    }
                }
            }
        }
    }
    // --- MonthDay short form
    {
        let mut c = Cur { b, i: 0 };
        if c.rest().starts_with(b"--") {
            c.i += 2;
        }
        if let Some(m) = c.digits(2) {
            c.eat(b'-');
            if let Some(d) = c.digits(2) {
                if (1..=12).contains(&m) && (1..=31).contains(&d) {
                    if let Some(r) = finish(&mut c, Form::MonthDay { m: m as u8, d: d as u8 }) {
                        out.push(r);
                    }
                }
            }
        }
    }
    out
}

#[derive(Clone, Debug, PartialEq)]
pub enum Verdict<T> {
    Accept(T),
    Reject,
    Undecided(&'static str),
}

#[derive(Clone, Debug, PartialEq)]
pub enum Goal {
    Date,
    DateTime,
    Time,
    YearMonth,
    MonthDay,
    Instant,
    Zoned,
}

/// The value the grammar assigns, in goal-specific form.
#[derive(Clone, Debug, PartialEq)]
pub enum Val {
    /// (epoch day, calendar id lower-case)
    Date(i64, String),
    /// (local ns, calendar)
    DateTime(i128, String),
    Time(i64),
    YearMonth(i64, u8),
    MonthDay(u8, u8),
    Instant(i128),
    /// local ns, offset, tz, calendar: the instant depends on the zone rules, resolved by the caller
    Zoned { local: i128, has_time: bool, off: Option<Off>, tz: Tz, cal: String },
}

pub const KNOWN_CALENDARS: [&str; 19] = [
    "iso8601", "buddhist", "chinese", "coptic", "dangi", "ethioaa", "ethiopic", "gregory", "hebrew", "indian", "islamic", "islamic-civil", "islamic-tbla", "islamic-umalqura", "japanese", "japanext", "persian", "roc", "islamicc",
];

/// The annotation rules that hold for every goal: no unknown critical annotation, no critical
/// flag among several calendar annotations.
fn annotations_ok(ann: &Ann) -> bool {
    !ann.unknown_critical && !(ann.cals.len() > 1 && ann.cals.iter().any(|c| c.1))
}

fn calendar_of(ann: &Ann) -> Result<String, ()> {
    if !annotations_ok(ann) {
        return Err(());
    }
    match ann.cals.first() {
        None => Ok("iso8601".into()),
        Some((v, _)) => {
            let l = v.to_ascii_lowercase();
            if KNOWN_CALENDARS.contains(&l.as_str()) {
                Ok(if l == "islamicc" { "islamic-civil".into() } else { l })
            } else {
                Err(())
            }
        }
    }
}

const DAY: i128 = 86_400_000_000_000;
const DT_LIMIT: i128 = 100_000_001 * DAY;
const MAX_INSTANT: i128 = 100_000_000 * DAY;

fn valid_date(y: i64, m: u8, d: u8) -> bool {
    d <= dim(y, m)
}

pub fn judge(s: &str, goal: &Goal) -> Verdict<Val> {
    if s.contains('\u{2212}') {
        return Verdict::Undecided("U+2212 minus sign (part of the Temporal grammar until 2023)");
    }
    let rs = readings(s);
    let dt = rs.iter().find(|r| matches!(r.form, Form::DateTime { .. }));
    let tm = rs.iter().find(|r| matches!(r.form, Form::Time { .. }));
    let ym = rs.iter().find(|r| matches!(r.form, Form::YearMonth { .. }));
    let md = rs.iter().find(|r| matches!(r.form, Form::MonthDay { .. }));
    // common date-time extraction
    let cal_matters = !matches!(goal, Goal::Time | Goal::Instant);
    let dt_parts = |r: &Reading| -> Result<(i64, u8, u8, Option<Time>, Option<Off>, String), ()> {
        let Form::DateTime { y, m, d, time, off } = &r.form else { return Err(()) };
        if !valid_date(*y, *m, *d) {
            return Err(());
        }
        let cal = if cal_matters {
            calendar_of(&r.ann)?
        } else {
            if !annotations_ok(&r.ann) {
                return Err(());
            }
            String::new()
        };
        Ok((*y, *m, *d, time.clone(), off.clone(), cal))
    };
    match goal {
        Goal::Date | Goal::DateTime => {
            let Some(r) = dt else { return Verdict::Reject };
            let Ok((y, m, d, time, off, cal)) = dt_parts(r) else { return Verdict::Reject };
            if off == Some(Off::Z) {
                return Verdict::Reject;
            }
            let k = days_from_civil(y, m, d);
            if *goal == Goal::Date {
                if !(-100_000_001..=100_000_000).contains(&k) {
                    return Verdict::Reject;
                }
                Verdict::Accept(Val::Date(k, cal))
            } else {
                let l = k as i128 * DAY + time.map(|t| t.ns_of_day as i128).unwrap_or(0);
                if l <= -DT_LIMIT || l >= DT_LIMIT {
                    return Verdict::Reject;
                }
                Verdict::Accept(Val::DateTime(l, cal))
            }
        }
        Goal::Time => {
            // TemporalTimeString: a time-only form (with T, or unambiguous without) or a date-time with a time
            if let Some(r) = tm {
                let Form::Time { time, off, had_designator } = &r.form else { unreachable!() };
                // the calendar annotation's *value* is not interpreted for a time
                if !annotations_ok(&r.ann) || *off == Some(Off::Z) {
                    return Verdict::Reject;
                }
                if !had_designator && (ym.is_some() || md.is_some()) {
                    // the ambiguity rule: a bare time that also reads as year-month / month-day is refused
                    // unless that other reading is not a *valid* one; keep it simple: not judged
                    return Verdict::Undecided("time/year-month/month-day ambiguity");
                }
                return Verdict::Accept(Val::Time(time.ns_of_day));
            }
            let Some(r) = dt else { return Verdict::Reject };
            let Ok((_, _, _, time, off, _)) = dt_parts(r) else { return Verdict::Reject };
            if off == Some(Off::Z) {
                return Verdict::Reject;
            }
            match time {
                Some(t) => Verdict::Accept(Val::Time(t.ns_of_day)),
                None => Verdict::Reject,
            }
        }
        Goal::YearMonth => {
            if let Some(r) = ym {
                let Form::YearMonth { y, m } = &r.form else { unreachable!() };
                let Ok(cal) = calendar_of(&r.ann) else { return Verdict::Reject };
                if cal != "iso8601" {
                    return Verdict::Reject;
                }
                if !ym_in_limits(*y, *m) {
                    return Verdict::Reject;
                }
                return Verdict::Accept(Val::YearMonth(*y, *m));
            }
            let Some(r) = dt else { return Verdict::Reject };
            let Ok((y, m, _d, _t, off, cal)) = dt_parts(r) else { return Verdict::Reject };
            if off == Some(Off::Z) {
                return Verdict::Reject;
            }
            if cal != "iso8601" {
                return Verdict::Undecided("full date with a non-ISO calendar for a year-month");
            }
            if !ym_in_limits(y, m) {
                return Verdict::Reject;
            }
            Verdict::Accept(Val::YearMonth(y, m))
        }
        Goal::MonthDay => {
            if let Some(r) = md {
                let Form::MonthDay { m, d } = &r.form else { unreachable!() };
                let Ok(cal) = calendar_of(&r.ann) else { return Verdict::Reject };
                if cal != "iso8601" {
                    return Verdict::Reject;
                }
                if *d > dim(1972, *m) {
                    return Verdict::Reject;
                }
                return Verdict::Accept(Val::MonthDay(*m, *d));
            }
            let Some(r) = dt else { return Verdict::Reject };
            let Ok((y, m, d, _t, off, cal)) = dt_parts(r) else { return Verdict::Reject };
            if off == Some(Off::Z) {
                return Verdict::Reject;
            }
            if cal != "iso8601" {
                return Verdict::Undecided("full date with a non-ISO calendar for a month-day");
            }
            let k = days_from_civil(y, m, d);
            if !(-100_000_001..=100_000_000).contains(&k) {
                return Verdict::Undecided("month-day from a date outside the date range");
            }
            Verdict::Accept(Val::MonthDay(m, d))
        }
        Goal::Instant => {
            let Some(r) = dt else { return Verdict::Reject };
            let Ok((y, m, d, time, off, _cal)) = dt_parts(r) else { return Verdict::Reject };
            let (Some(t), Some(off)) = (time, off) else { return Verdict::Reject };
            let k = days_from_civil(y, m, d);
            let local = k as i128 * DAY + t.ns_of_day as i128;
            let o = match off {
                Off::Z => 0,
                Off::Ns(ns, _) => ns as i128,
            };
            let inst = local - o;
            if inst.abs() > MAX_INSTANT {
                return Verdict::Reject;
            }
            Verdict::Accept(Val::Instant(inst))
        }
        Goal::Zoned => {
            let Some(r) = dt else { return Verdict::Reject };
            let Ok((y, m, d, time, off, cal)) = dt_parts(r) else { return Verdict::Reject };
            let Some((tz, _)) = r.ann.tz.clone() else { return Verdict::Reject };
            let k = days_from_civil(y, m, d);
            let has_time = time.is_some();
            let local = k as i128 * DAY + time.map(|t| t.ns_of_day as i128).unwrap_or(0);
            Verdict::Accept(Val::Zoned { local, has_time, off, tz, cal })
        }
    }
}

fn plain_offset_len(r: &[u8]) -> usize {
    // Z | z | +-HH | +-HHMM | +-HH:MM | +-HH:MM:SS[.f{1,9}] | +-HHMMSS[.f{1,9}]
    if r.is_empty() {
        return 0;
    }
    if r[0] == b'Z' || r[0] == b'z' {
        return 1;
    }
    let mut c = Cur { b: r, i: 0 };
    match utc_offset(&mut c, true) {
        Some(_) => c.i,
        None => 0,
    }
}

fn plain_bracket_len(r: &[u8]) -> usize {
    if r.first() != Some(&b'[') {
        return 0;
    }
    let Some(len) = r.iter().position(|c| *c == b']') else { return 0 };
    let mut body = &r[1..len];
    if body.first() == Some(&b'!') {
        body = &body[1..];
    }
    let ok = if let Some(eq) = body.iter().position(|c| *c == b'=') {
        let (k, v) = (&body[..eq], &body[eq + 1..]);
        k.len() >= 2 && k[0].is_ascii_lowercase() && k.iter().all(|c| c.is_ascii_lowercase() || c.is_ascii_digit() || *c == b'-')
            && !v.is_empty() && v.split(|c| *c == b'-').all(|comp| comp.len() >= 2 && comp.iter().all(|c| c.is_ascii_alphanumeric()))
    } else {
        let mut c = Cur { b: body, i: 0 };
        let is_off = utc_offset(&mut c, false).is_some() && c.i == body.len();
        is_off || (!body.is_empty() && body[0].is_ascii_uppercase() && is_iana_name(body))
    };
    if ok {
        len + 1
    } else {
        0
    }
}

fn classify_tail(r: &[u8]) -> &'static str {
    // best-effort sub-classification of a non-plain tail (the part after the date / time)
    let head_end = r.iter().position(|c| *c == b'[').unwrap_or(r.len());
    let head = &r[..head_end];
    if !head.is_empty() {
        let n = plain_offset_len(head);
        if n != head.len() {
            if head.len() >= 8 && (head[0] == b'+' || head[0] == b'-') && head[3] == b':' && head[1..3].iter().all(|c| c.is_ascii_digit()) && head[4..8].iter().all(|c| c.is_ascii_digit()) {
                return "offset-mixed-separators";
            }
            if head.last() == Some(&b':') {
                return "offset-trailing-colon";
            }
            if head.len() >= 9 && head[3] == b':' && head[6] == b':' && &head[7..9] == b"60" {
                return "offset-second-60";
            }
            return "offset-other";
        }
    }
    let mut i = head_end;
    let mut odd: Option<&'static str> = None;
    while i < r.len() && r[i] == b'[' {
        let Some(len) = r[i..].iter().position(|c| *c == b']') else { return "unclosed-bracket" };
        let mut body = &r[i + 1..i + len];
        if body.first() == Some(&b'!') {
            body = &body[1..];
        }
        if let Some(eq) = body.iter().position(|c| *c == b'=') {
            let (k, v) = (&body[..eq], &body[eq + 1..]);
            if !is_akey(k) {
                return "kv-bad-key";
            } else if !is_avalue(v) {
                return "kv-bad-value";
            } else if v.split(|c| *c == b'-').any(|comp| comp.len() == 1) {
                odd = odd.or(Some("kv-value-one-char-component"));
            } else if k.len() == 1 {
                odd = odd.or(Some("kv-one-char-key"));
            } else if !k[0].is_ascii_lowercase() || k.contains(&b'_') {
                odd = odd.or(Some("kv-key-with-underscore"));
            }
        } else {
            let mut c = Cur { b: body, i: 0 };
            let is_off = utc_offset(&mut c, false).is_some() && c.i == body.len();
            if !is_off {
                if is_iana_name(body) {
                    if !body[0].is_ascii_uppercase() {
                        odd = odd.or(Some("tz-name-not-uppercase-leading"));
                    }
                } else {
                    return "tz-bad-name";
                }
            }
        }
        i += len + 1;
    }
    if i < r.len() {
        return "text-after-annotations";
    }
    odd.unwrap_or("other")
}

/// Lexical peculiarity of the tail of a string (everything after the date / time part): the UTC
/// offset punctuation and the annotation brackets are lexed by the `ixdtf` dependency. None = the
/// tail consists of plain shapes only (or there is no recognisable date / time prefix). Used to key
/// disagreements that stem from that lexer, independent of the goal.
pub fn lexical_tag(s: &str) -> Option<&'static str> {
    let b = s.as_bytes();
    // every date / time prefix the grammar could read
    let mut ends: Vec<usize> = Vec::new();
    {
        let mut c = Cur { b, i: 0 };
        if date(&mut c).is_some() {
            ends.push(c.i);
            if matches!(c.peek(), Some(b'T') | Some(b't') | Some(b' ')) {
                c.i += 1;
                if time(&mut c).is_some() {
                    ends.push(c.i);
                }
            }
        }
    }
    {
        let mut c = Cur { b, i: 0 };
        if matches!(c.peek(), Some(b'T') | Some(b't')) {
            c.i += 1;
        }
        if time(&mut c).is_some() {
            ends.push(c.i);
        }
    }
    {
        let mut c = Cur { b, i: 0 };
        if year(&mut c).is_some() {
            c.eat(b'-');
            if c.digits(2).is_some() {
                ends.push(c.i);
            }
        }
    }
    {
        let mut c = Cur { b, i: 0 };
        if c.rest().starts_with(b"--") {
            c.i += 2;
        }
        if c.digits(2).is_some() {
            c.eat(b'-');
            if c.digits(2).is_some() {
                ends.push(c.i);
            }
        }
    }
    let mut tag = None;
    ends.sort_unstable_by(|a, b| b.cmp(a)); // classify against the longest prefix first
    for &e in &ends {
        if e >= b.len() {
            return None;
        }
        let r = &b[e..];
        // plain tail: (plain offset)? (plain bracket)*
        let mut i = plain_offset_len(r);
        loop {
            let n = plain_bracket_len(&r[i..]);
            if n == 0 {
                break;
            }
            i += n;
        }
        if i == r.len() {
            return None;
        }
        // a tail that does not even start like an offset or a bracket is a head problem, not a lexer one
        if tag.is_none() && matches!(r[0], b'+' | b'-' | b'Z' | b'z' | b'[') {
            tag = Some(classify_tail(r));
        }
    }
    tag
}

pub fn ym_in_limits(y: i64, m: u8) -> bool {
    (-271_821..=275_760).contains(&y) && (y > -271_821 || m >= 4) && (y < 275_760 || m <= 9)
}

// ---------------------------------------------------------------------------------------
// Durations

/// ISO 8601 duration: ten exact integer fields (as i128) or reject.
pub fn duration(s: &str) -> Verdict<[i128; 10]> {
    if s.contains('\u{2212}') {
        return Verdict::Undecided("U+2212 minus sign (part of the Temporal grammar until 2023)");
    }
    let b = s.as_bytes();
    let mut i = 0;
    let mut sign: i128 = 1;
    if i < b.len() && (b[i] == b'+' || b[i] == b'-') {
        if b[i] == b'-' {
            sign = -1;
        }
        i += 1;
    }
    if i >= b.len() || !(b[i] == b'P' || b[i] == b'p') {
        return Verdict::Reject;
    }
    i += 1;
    let mut f = [0i128; 10];
    let mut any = false;
    // number reader: digits, optional fraction
    let read = |i: &mut usize| -> Option<(i128, Option<(i128, u32)>, bool)> {
        let st = *i;
        let mut v: i128 = 0;
        let mut overflow = false;
        while *i < b.len() && b[*i].is_ascii_digit() {
            v = v.saturating_mul(10).saturating_add((b[*i] - b'0') as i128);
            if v > 10i128.pow(30) {
                overflow = true;
            }
            *i += 1;
        }
        if *i == st {
            return None;
        }
        let mut frac = None;
        if *i < b.len() && (b[*i] == b'.' || b[*i] == b',') {
            *i += 1;
            let fs = *i;
            let mut fv: i128 = 0;
            while *i < b.len() && b[*i].is_ascii_digit() {
                if *i - fs == 9 {
                    return None;
                }
                fv = fv * 10 + (b[*i] - b'0') as i128;
                *i += 1;
            }
            if *i == fs {
                return None;
            }
            frac = Some((fv, (*i - fs) as u32));
        }
        Some((v, frac, overflow))
    };
    let mut overflowed = false;
    // date part
    let mut order = 0;
    while i < b.len() && b[i] != b'T' && b[i] != b't' {
        let Some((v, frac, ov)) = read(&mut i) else { return Verdict::Reject };
        overflowed |= ov;
        if frac.is_some() || i >= b.len() {
            return Verdict::Reject;
        }
        let (idx, ord) = match b[i].to_ascii_uppercase() {
            b'Y' => (0, 1),
            b'M' => (1, 2),
            b'W' => (2, 3),
            b'D' => (3, 4),
            _ => return Verdict::Reject,
        };
        if ord <= order {
            return Verdict::Reject;
        }
        order = ord;
        f[idx] = v;
        any = true;
        i += 1;
    }
    if i < b.len() {
        // T
        i += 1;
        let mut torder = 0;
        let mut tany = false;
        let mut had_frac = false;
        while i < b.len() {
            if had_frac {
                return Verdict::Reject; // a fraction must be on the last component
            }
            let Some((v, frac, ov)) = read(&mut i) else { return Verdict::Reject };
            overflowed |= ov;
            if i >= b.len() {
                return Verdict::Reject;
            }
            let (idx, ord, unit_ns): (usize, i32, i128) = match b[i].to_ascii_uppercase() {
                b'H' => (4, 1, 3_600_000_000_000),
                b'M' => (5, 2, 60_000_000_000),
                b'S' => (6, 3, 1_000_000_000),
                _ => return Verdict::Reject,
            };
            if ord <= torder {
                return Verdict::Reject;
            }
            torder = ord;
            f[idx] = v;
            if let Some((fv, nd)) = frac {
                had_frac = true;
                // fraction of the unit in ns: fv / 10^nd * unit_ns (exact rational, truncated per component)
                let total = fv * unit_ns; // scaled by 10^nd
                let scale = 10i128.pow(nd);
                let ns = total / scale;
                if total % scale != 0 && idx != 6 {
                    // hours/minutes fractions that do not land on whole nanoseconds: floor (as the spec's digit arithmetic)
                }
                // distribute into the smaller fields
                let mut rem = ns;
                if idx == 4 {
                    f[5] = rem / 60_000_000_000;
                    rem %= 60_000_000_000;
                }
                if idx <= 5 {
                    f[6] = rem / 1_000_000_000;
                    rem %= 1_000_000_000;
                }
                f[7] = rem / 1_000_000;
                rem %= 1_000_000;
                f[8] = rem / 1_000;
                f[9] = rem % 1_000;
            }
            tany = true;
            i += 1;
        }
        if !tany {
            return Verdict::Reject;
        }
        any = true;
    }
    if !any {
        return Verdict::Reject;
    }
    if overflowed {
        return Verdict::Reject; // far beyond every limit
    }
    for x in f.iter_mut() {
        *x *= sign;
    }
    Verdict::Accept(f)
}

#[cfg(test)]
mod tests {
    use super::*;
    #[test]
    fn basics() {
        assert!(matches!(judge("2020-01-01", &Goal::Date), Verdict::Accept(Val::Date(18262, _))));
        assert!(matches!(judge("20200101", &Goal::Date), Verdict::Accept(Val::Date(18262, _))));
        assert!(matches!(judge("2020-0101", &Goal::Date), Verdict::Reject));
        assert!(matches!(judge("2020-02-30", &Goal::Date), Verdict::Reject));
        assert!(matches!(judge("-000000-01-01", &Goal::Date), Verdict::Reject));
        assert!(matches!(judge("2020-01-01T00:00Z", &Goal::Date), Verdict::Reject));
        assert!(matches!(judge("2020-01-01T00:00Z", &Goal::Instant), Verdict::Accept(Val::Instant(_))));
        assert!(matches!(judge("2020-01-01T00:00", &Goal::Instant), Verdict::Reject));
        assert!(matches!(judge("2020-01-01T00:00+01:00[Europe/Paris][u-ca=gregory]", &Goal::Zoned), Verdict::Accept(_)));
        assert!(matches!(judge("2020-01-01T00:00+01:00", &Goal::Zoned), Verdict::Reject));
        assert!(matches!(judge("2020-01-01[!foo=bar]", &Goal::Date), Verdict::Reject));
        assert!(matches!(judge("2020-01-01[foo=bar]", &Goal::Date), Verdict::Accept(_)));
        assert!(matches!(judge("2020-01-01[u-ca=iso8601][!u-ca=gregory]", &Goal::Date), Verdict::Reject));
        assert!(matches!(judge("2020-01-01T12:00:00.1234567890", &Goal::DateTime), Verdict::Reject));
        assert!(matches!(judge("2020-01-01T23:59:60", &Goal::DateTime), Verdict::Accept(_)));
        assert!(matches!(judge("2020-01-01T24:00", &Goal::DateTime), Verdict::Reject));
        assert!(matches!(judge("12:30", &Goal::Time), Verdict::Accept(Val::Time(_))));
        assert!(matches!(judge("T12:30", &Goal::Time), Verdict::Accept(Val::Time(_))));
        assert!(matches!(judge("2020-05", &Goal::YearMonth), Verdict::Accept(Val::YearMonth(2020, 5))));
        assert!(matches!(judge("2020-05[u-ca=gregory]", &Goal::YearMonth), Verdict::Reject));
        assert!(matches!(judge("05-17", &Goal::MonthDay), Verdict::Accept(Val::MonthDay(5, 17))));
        assert!(matches!(judge("--0229", &Goal::MonthDay), Verdict::Accept(Val::MonthDay(2, 29))));
        assert!(matches!(judge("02-30", &Goal::MonthDay), Verdict::Reject));
        assert!(matches!(judge("2020-05-17", &Goal::MonthDay), Verdict::Accept(Val::MonthDay(5, 17))));
        assert!(matches!(judge("05-17[u-ca=iso8601]junk", &Goal::MonthDay), Verdict::Reject));
        assert_eq!(duration("P1Y2M3W4DT5H6M7.5S"), Verdict::Accept([1, 2, 3, 4, 5, 6, 7, 500, 0, 0]));
        assert_eq!(duration("-PT1.5H"), Verdict::Accept([0, 0, 0, 0, -1, -30, 0, 0, 0, 0]));
        assert_eq!(duration("PT"), Verdict::Reject);
        assert_eq!(duration("P"), Verdict::Reject);
        assert_eq!(duration("P1M1Y"), Verdict::Reject);
        assert_eq!(duration("PT1.5H1M"), Verdict::Reject);
        assert_eq!(duration("P1.5D"), Verdict::Reject);
    }
}
