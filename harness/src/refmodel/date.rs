//! ISO date arithmetic reference, transcribed from the Temporal specification prose
//! (RegulateISODate, BalanceISOYearMonth, AddISODate / CalendarDateAdd for iso8601,
//! DifferenceISODate / CalendarDateUntil for iso8601) over the civil model. i64/i128 only.

use super::civil::*;
use temporal_rs::options::Unit;

pub type Ymd = (i64, u8, u8);

#[derive(Debug, Clone, Copy, PartialEq, Eq)]
pub enum DateErr {
    Range,
}

pub fn in_limits(k: i64) -> bool {
    (MIN_DAY..=MAX_DAY).contains(&k)
}

pub fn balance_ym(y: i128, m: i128) -> (i128, u8) {
    let y2 = y + (m - 1).div_euclid(12);
    let m2 = (m - 1).rem_euclid(12) + 1;
    (y2, m2 as u8)
}

/// AddISODate with the final limit check. `time_total_ns` is the exact total of the time fields;
/// it contributes whole days only (truncated toward zero).
pub fn add_date(start: Ymd, years: i128, months: i128, weeks: i128, days: i128, time_total_ns: i128, reject: bool) -> Result<Ymd, DateErr> {
    let (y, m, d) = start;
    let (iy, im) = balance_ym(y as i128 + years, m as i128 + months);
    // years far outside the supported range can never come back: the day offset is bounded by the duration limits
    if iy.abs() > 400_000 {
        // still honour reject-mode day validity? the result is a RangeError either way
        return Err(DateErr::Range);
    }
    let iy = iy as i64;
    let dmax = dim(iy, im);
    let id = if d > dmax {
        if reject {
            return Err(DateErr::Range);
        }
        dmax
    } else {
        d
    };
    let extra = days + 7 * weeks + time_total_ns / NS_PER_DAY; // `/` truncates toward zero
    let k = days_from_civil(iy, im, id) as i128 + extra;
    if k < MIN_DAY as i128 || k > MAX_DAY as i128 {
        return Err(DateErr::Range);
    }
    Ok(civil_from_days(k as i64))
}

fn cmp3(a: (i128, i128, i128), b: (i128, i128, i128)) -> i32 {
    if a < b {
        -1
    } else if a > b {
        1
    } else {
        0
    }
}

/// ISODateSurpasses(sign, y1, m1, d1, date2): lexicographic, the day is *not* constrained.
fn surpasses(sign: i32, y: i128, m: i128, d: i128, two: Ymd) -> bool {
    cmp3((y, m, d), (two.0 as i128, two.1 as i128, two.2 as i128)) * sign == 1
}

/// DifferenceISODate: (years, months, weeks, days), balanced and sign-uniform.
pub fn diff_date(one: Ymd, two: Ymd, largest: Unit) -> (i64, i64, i64, i64) {
    let sign = -cmp3((one.0 as i128, one.1 as i128, one.2 as i128), (two.0 as i128, two.1 as i128, two.2 as i128));
    if sign == 0 {
        return (0, 0, 0, 0);
    }
    let s = sign as i128;
    let (y1, m1, d1) = (one.0 as i128, one.1 as i128, one.2 as i128);
    let mut years: i128 = 0;
    if largest == Unit::Year {
        // largest k >= 0 with !surpasses(y1 + k*sign): start from a safe under-estimate
        let mut k = ((two.0 as i128 - y1).abs() - 1).max(0);
        debug_assert!(!surpasses(sign, y1 + k * s, m1, d1, two));
        while !surpasses(sign, y1 + (k + 1) * s, m1, d1, two) {
            k += 1;
        }
        years = k * s;
    }
    let mut months: i128 = 0;
    if largest == Unit::Year || largest == Unit::Month {
        let total_m = ((two.0 as i128 - (y1 + years)) * 12 + (two.1 as i128 - m1)).abs();
        let mut k = (total_m - 1).max(0);
        let at = |k: i128| balance_ym(y1 + years, m1 + k * s);
        {
            let (iy, im) = at(k);
            debug_assert!(!surpasses(sign, iy, im as i128, d1, two));
        }
        loop {
            let (iy, im) = at(k + 1);
            if surpasses(sign, iy, im as i128, d1, two) {
                break;
            }
            k += 1;
        }
        months = k * s;
    }
    let (iy, im) = balance_ym(y1 + years, m1 + months);
    let cd = (d1 as u8).min(dim(iy as i64, im));
    let kc = days_from_civil(iy as i64, im, cd);
    let k2 = days_from_civil(two.0, two.1, two.2);
    let mut days = k2 - kc;
    let mut weeks = 0;
    if largest == Unit::Week {
        weeks = days / 7;
        days %= 7;
    }
    (years as i64, months as i64, weeks, days)
}

#[cfg(test)]
mod tests {
    use super::*;
    #[test]
    fn spec_examples() {
        assert_eq!(diff_date((2021, 7, 16), (2021, 8, 13), Unit::Year), (0, 0, 0, 28));
        assert_eq!(diff_date((1997, 6, 16), (2021, 6, 15), Unit::Year), (23, 11, 0, 30));
        assert_eq!(diff_date((2020, 2, 29), (2021, 2, 28), Unit::Year), (0, 11, 0, 30));
        assert_eq!(diff_date((2021, 1, 31), (2021, 2, 28), Unit::Month), (0, 0, 0, 28));
        assert_eq!(diff_date((2021, 3, 31), (2021, 2, 28), Unit::Month), (0, -1, 0, 0));
        assert_eq!(add_date((2021, 1, 31), 0, 1, 0, 0, 0, false), Ok((2021, 2, 28)));
        assert_eq!(add_date((2021, 1, 31), 0, 1, 0, 0, 0, true), Err(DateErr::Range));
        assert_eq!(add_date((2020, 2, 29), 1, 0, 0, 1, 0, false), Ok((2021, 3, 1)));
        assert_eq!(add_date((2020, 1, 1), 0, 0, 0, 0, -25 * 3_600_000_000_000, false), Ok((2019, 12, 31)));
    }
    #[test]
    fn inverse_law_on_the_model() {
        // the model itself must satisfy start + (start until end) == end
        let mut x = 12345u64;
        for _ in 0..200_000 {
            let ka = (crate::core::splitmix(&mut x) % 200_000_000) as i64 - 100_000_000;
            let kb = ka + (crate::core::splitmix(&mut x) % 4000) as i64 - 2000;
            if !in_limits(kb) {
                continue;
            }
            let (a, b) = (civil_from_days(ka), civil_from_days(kb));
            for u in [Unit::Year, Unit::Month, Unit::Week, Unit::Day] {
                let (y, m, w, d) = diff_date(a, b, u);
                assert_eq!(add_date(a, y as i128, m as i128, w as i128, d as i128, 0, false), Ok(b), "{a:?} {b:?} {u:?}");
            }
        }
    }
}
