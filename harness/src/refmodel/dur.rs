//! Duration arithmetic reference: exact totals, BalanceTimeDuration, IsValidDuration.
//! Written from the property text / specification prose; integers only.

use temporal_rs::options::Unit;

pub const NS_DAY: i128 = 86_400_000_000_000;
pub const NS_HOUR: i128 = 3_600_000_000_000;
pub const NS_MIN: i128 = 60_000_000_000;
pub const NS_SEC: i128 = 1_000_000_000;
/// 2^53 seconds in nanoseconds: the total time (incl. days) must be strictly below this.
pub const MAX_TIME_NS_EXCL: i128 = 9_007_199_254_740_992 * NS_SEC;
pub const TWO32: i128 = 4_294_967_296;

/// Index into the ten-field vector.
pub const Y: usize = 0;
pub const MO: usize = 1;
pub const W: usize = 2;
pub const D: usize = 3;
pub const H: usize = 4;
pub const MI: usize = 5;
pub const S: usize = 6;
pub const MS: usize = 7;
pub const US: usize = 8;
pub const NS: usize = 9;

/// Exact value of an integral f64 as i128 (caller guarantees finiteness and integrality).
pub fn exact(x: f64) -> i128 {
    debug_assert!(x.is_finite() && x.fract() == 0.0);
    x as i128
}

/// Total of the day + time fields in ns (a day counting 24 h).
pub fn time_total(v: &[f64; 10]) -> i128 {
    // saturating: a total beyond i128 is far beyond every limit anyway
    let mut t: i128 = 0;
    for (i, unit) in [(D, NS_DAY), (H, NS_HOUR), (MI, NS_MIN), (S, NS_SEC), (MS, 1_000_000), (US, 1_000), (NS, 1)] {
        t = t.saturating_add(exact(v[i]).saturating_mul(unit));
    }
    t
}

/// IsValidDuration on ten integral doubles.
pub fn is_valid(v: &[f64; 10]) -> bool {
    let mut sign = 0i8;
    for &x in v {
        if !x.is_finite() {
            return false;
        }
        let s = if x > 0.0 {
            1
        } else if x < 0.0 {
            -1
        } else {
            0
        };
        if s != 0 {
            if sign != 0 && s != sign {
                return false;
            }
            sign = s;
        }
    }
    // far beyond every limit (and beyond what the exact i128 total below can hold)
    if v.iter().any(|x| x.abs() > 1e26) {
        return false;
    }
    if v[Y].abs() >= 4_294_967_296.0 || v[MO].abs() >= 4_294_967_296.0 || v[W].abs() >= 4_294_967_296.0 {
        return false;
    }
    time_total(v).unsigned_abs() < MAX_TIME_NS_EXCL as u128
}

/// BalanceTimeDuration: split an exact total into (days, h, min, s, ms, us, ns) for a largest unit
/// of day or smaller. All parts carry the sign of the total.
pub fn balance(total: i128, largest: Unit) -> [i128; 7] {
    let sign = if total < 0 { -1 } else { 1 };
    let mut ns = total.abs();
    let (mut d, mut h, mut mi, mut s, mut ms, mut us) = (0, 0, 0, 0, 0, 0);
    match largest {
        Unit::Year | Unit::Month | Unit::Week | Unit::Day => {
            us = ns / 1000;
            ns %= 1000;
            ms = us / 1000;
            us %= 1000;
            s = ms / 1000;
            ms %= 1000;
            mi = s / 60;
            s %= 60;
            h = mi / 60;
            mi %= 60;
            d = h / 24;
            h %= 24;
        }
        Unit::Hour => {
            us = ns / 1000;
            ns %= 1000;
            ms = us / 1000;
            us %= 1000;
            s = ms / 1000;
            ms %= 1000;
            mi = s / 60;
            s %= 60;
            h = mi / 60;
            mi %= 60;
        }
        Unit::Minute => {
            us = ns / 1000;
            ns %= 1000;
            ms = us / 1000;
            us %= 1000;
            s = ms / 1000;
            ms %= 1000;
            mi = s / 60;
            s %= 60;
        }
        Unit::Second => {
            us = ns / 1000;
            ns %= 1000;
            ms = us / 1000;
            us %= 1000;
            s = ms / 1000;
            ms %= 1000;
        }
        Unit::Millisecond => {
            us = ns / 1000;
            ns %= 1000;
            ms = us / 1000;
            us %= 1000;
        }
        Unit::Microsecond => {
            us = ns / 1000;
            ns %= 1000;
        }
        Unit::Nanosecond | Unit::Auto => {}
    }
    [d * sign, h * sign, mi * sign, s * sign, ms * sign, us * sign, ns * sign]
}

/// The ten f64 fields a duration holding exactly `date` (y, mo, w) and the balanced time has:
/// every exact integer converted to the nearest double (as the specification's R -> F does).
pub fn fields_f64(y: i128, mo: i128, w: i128, bal: [i128; 7]) -> [f64; 10] {
    [y as f64, mo as f64, w as f64, bal[0] as f64, bal[1] as f64, bal[2] as f64, bal[3] as f64, bal[4] as f64, bal[5] as f64, bal[6] as f64]
}

/// DefaultTemporalLargestUnit of a ten-field vector.
pub fn default_largest(v: &[f64; 10]) -> Unit {
    const US_: [Unit; 10] = [Unit::Year, Unit::Month, Unit::Week, Unit::Day, Unit::Hour, Unit::Minute, Unit::Second, Unit::Millisecond, Unit::Microsecond, Unit::Nanosecond];
    for i in 0..10 {
        if v[i] != 0.0 {
            return US_[i];
        }
    }
    Unit::Nanosecond
}
