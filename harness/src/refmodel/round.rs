//! RoundNumberToIncrement on exact integers / rationals, written from the property text:
//! the result is one of the two multiples of the increment adjacent to the exact value (or
//! the value itself), chosen by the mode. Shares nothing with /repo's IncrementRounder.

#[derive(Clone, Copy, Debug, PartialEq, Eq)]
pub enum Mode {
    Ceil,
    Floor,
    Expand,
    Trunc,
    HalfCeil,
    HalfFloor,
    HalfExpand,
    HalfTrunc,
    HalfEven,
}

pub const ALL_MODES: [Mode; 9] = [
    Mode::Ceil,
    Mode::Floor,
    Mode::Expand,
    Mode::Trunc,
    Mode::HalfCeil,
    Mode::HalfFloor,
    Mode::HalfExpand,
    Mode::HalfTrunc,
    Mode::HalfEven,
];

impl Mode {
    pub fn name(self) -> &'static str {
        match self {
            Mode::Ceil => "ceil",
            Mode::Floor => "floor",
            Mode::Expand => "expand",
            Mode::Trunc => "trunc",
            Mode::HalfCeil => "halfCeil",
            Mode::HalfFloor => "halfFloor",
            Mode::HalfExpand => "halfExpand",
            Mode::HalfTrunc => "halfTrunc",
            Mode::HalfEven => "halfEven",
        }
    }
    /// The mode that, applied to -x, gives -(this mode applied to x).
    pub fn mirrored(self) -> Mode {
        match self {
            Mode::Ceil => Mode::Floor,
            Mode::Floor => Mode::Ceil,
            Mode::HalfCeil => Mode::HalfFloor,
            Mode::HalfFloor => Mode::HalfCeil,
            m => m,
        }
    }
    pub fn to_lib(self) -> temporal_rs::options::RoundingMode {
        use temporal_rs::options::RoundingMode as R;
        match self {
            Mode::Ceil => R::Ceil,
            Mode::Floor => R::Floor,
            Mode::Expand => R::Expand,
            Mode::Trunc => R::Trunc,
            Mode::HalfCeil => R::HalfCeil,
            Mode::HalfFloor => R::HalfFloor,
            Mode::HalfExpand => R::HalfExpand,
            Mode::HalfTrunc => R::HalfTrunc,
            Mode::HalfEven => R::HalfEven,
        }
    }
}

/// Position of the exact value between its neighbouring multiples.
#[derive(Clone, Copy, Debug, PartialEq, Eq)]
pub enum Pos {
    Exact,
    BelowHalf,
    Tie,
    AboveHalf,
}

impl Pos {
    pub fn name(self) -> &'static str {
        match self {
            Pos::Exact => "exact",
            Pos::BelowHalf => "below-half",
            Pos::Tie => "tie",
            Pos::AboveHalf => "above-half",
        }
    }
}

/// Round the rational num/den (den > 0) to a multiple of `inc` (> 0). Returns (result, position).
pub fn round_rat(num: i128, den: i128, inc: i128, mode: Mode) -> (i128, Pos) {
    assert!(den > 0 && inc > 0);
    // lower multiple: lo = floor(num / (den*inc)) * inc
    let q = num.div_euclid(den * inc);
    let lo = q * inc;
    let r = num - lo * den; // 0 <= r < den*inc, exact distance above lo, scaled by den
    if r == 0 {
        return (lo, Pos::Exact);
    }
    let hi = lo + inc;
    let positive = num > 0;
    let twice = 2 * r;
    let full = den * inc;
    let pos = if twice < full {
        Pos::BelowHalf
    } else if twice == full {
        Pos::Tie
    } else {
        Pos::AboveHalf
    };
    let away = if positive { hi } else { lo };
    let toward = if positive { lo } else { hi };
    let res = match mode {
        Mode::Ceil => hi,
        Mode::Floor => lo,
        Mode::Expand => away,
        Mode::Trunc => toward,
        _ => match pos {
            Pos::BelowHalf => lo,
            Pos::AboveHalf => hi,
            Pos::Tie => match mode {
                Mode::HalfCeil => hi,
                Mode::HalfFloor => lo,
                Mode::HalfExpand => away,
                Mode::HalfTrunc => toward,
                Mode::HalfEven => {
                    if q.rem_euclid(2) == 0 {
                        lo
                    } else {
                        hi
                    }
                }
                _ => unreachable!(),
            },
            Pos::Exact => unreachable!(),
        },
    };
    (res, pos)
}

pub fn round_int(x: i128, inc: i128, mode: Mode) -> (i128, Pos) {
    round_rat(x, 1, inc, mode)
}

#[cfg(test)]
mod tests {
    use super::*;
    #[test]
    fn basics() {
        assert_eq!(round_int(2, 5, Mode::HalfExpand).0, 0);
        assert_eq!(round_int(3, 5, Mode::HalfExpand).0, 5);
        assert_eq!(round_int(-14, 3, Mode::HalfExpand).0, -15);
        assert_eq!(round_int(-9, 2, Mode::Ceil).0, -8);
        assert_eq!(round_int(-9, 2, Mode::Floor).0, -10);
        assert_eq!(round_int(5, 10, Mode::HalfEven).0, 0);
        assert_eq!(round_int(15, 10, Mode::HalfEven).0, 20);
        assert_eq!(round_int(-5, 10, Mode::HalfEven).0, 0);
        assert_eq!(round_int(-15, 10, Mode::HalfEven).0, -20);
        assert_eq!(round_int(-5, 10, Mode::HalfCeil).0, 0);
        assert_eq!(round_int(-5, 10, Mode::HalfFloor).0, -10);
        assert_eq!(round_int(-5, 10, Mode::HalfExpand).0, -10);
        assert_eq!(round_int(-5, 10, Mode::HalfTrunc).0, 0);
        assert_eq!(round_rat(-17, 2, 1, Mode::Ceil).0, -8);
        assert_eq!(round_rat(-17, 2, 1, Mode::Floor).0, -9);
        // mirrored law
        for m in ALL_MODES {
            for x in -40..40 {
                for inc in 1..9 {
                    assert_eq!(round_int(-x, inc, m.mirrored()).0, -round_int(x, inc, m).0);
                }
            }
        }
    }
}
