//! Proleptic Gregorian reference: a day-at-a-time odometer, Hinnant's closed forms on i64,
//! ISO-8601 week numbering. Shares nothing with /repo (Neri-Schneider, icu_calendar).

pub const MIN_DAY: i64 = -100_000_001; // -271821-04-19 (the last representable *date*)
pub const MAX_DAY: i64 = 100_000_000; // +275760-09-13
pub const NS_PER_DAY: i128 = 86_400_000_000_000;
pub const MAX_INSTANT: i128 = 100_000_000 * NS_PER_DAY;

#[inline]
pub fn is_leap(y: i64) -> bool {
    (y % 4 == 0 && y % 100 != 0) || y % 400 == 0
}

#[inline]
pub fn dim(y: i64, m: u8) -> u8 {
    match m {
        1 | 3 | 5 | 7 | 8 | 10 | 12 => 31,
        4 | 6 | 9 | 11 => 30,
        2 => {
            if is_leap(y) {
                29
            } else {
                28
            }
        }
        _ => panic!("refmodel::dim: month {m}"),
    }
}

#[inline]
pub fn diy(y: i64) -> u16 {
    if is_leap(y) {
        366
    } else {
        365
    }
}

/// Hinnant: days since 1970-01-01.
pub fn days_from_civil(y: i64, m: u8, d: u8) -> i64 {
    let y = if m <= 2 { y - 1 } else { y };
    let era = y.div_euclid(400);
    let yoe = y - era * 400; // [0, 399]
    let mp = (m as i64 + 9) % 12; // March = 0
    let doy = (153 * mp + 2) / 5 + d as i64 - 1; // [0, 365]
    let doe = yoe * 365 + yoe / 4 - yoe / 100 + doy; // [0, 146096]
    era * 146_097 + doe - 719_468
}

pub fn civil_from_days(z: i64) -> (i64, u8, u8) {
    let z = z + 719_468;
    let era = z.div_euclid(146_097);
    let doe = z - era * 146_097;
    let yoe = (doe - doe / 1460 + doe / 36_524 - doe / 146_096) / 365;
    let y = yoe + era * 400;
    let doy = doe - (365 * yoe + yoe / 4 - yoe / 100);
    let mp = (5 * doy + 2) / 153;
    let d = (doy - (153 * mp + 2) / 5 + 1) as u8;
    let m = if mp < 10 { mp + 3 } else { mp - 9 } as u8;
    (if m <= 2 { y + 1 } else { y }, m, d)
}

/// ISO weekday 1 = Monday .. 7 = Sunday; 1970-01-01 (day 0) is a Thursday.
#[inline]
pub fn weekday(k: i64) -> u8 {
    ((k + 3).rem_euclid(7) + 1) as u8
}

pub fn day_of_year(y: i64, m: u8, d: u8) -> u16 {
    let mut n = d as u16;
    for mm in 1..m {
        n += dim(y, mm) as u16;
    }
    n
}

/// A year has 53 ISO weeks iff Jan 1 is a Thursday, or it is a leap year and Jan 1 is a Wednesday.
pub fn iso_weeks_in_year(y: i64) -> u8 {
    let jan1 = weekday(days_from_civil(y, 1, 1));
    if jan1 == 4 || (is_leap(y) && jan1 == 3) {
        53
    } else {
        52
    }
}

/// (week of year, year of week)
pub fn iso_week(y: i64, doy: u16, dow: u8) -> (u8, i64) {
    let w = (doy as i64 - dow as i64 + 10) / 7;
    if w < 1 {
        (iso_weeks_in_year(y - 1), y - 1)
    } else if w == 53 && iso_weeks_in_year(y) == 52 {
        (1, y + 1)
    } else {
        (w as u8, y)
    }
}

/// The odometer: steps one day at a time with the textbook rules only.
#[derive(Clone, Copy, Debug, PartialEq, Eq)]
pub struct Odo {
    pub k: i64,
    pub y: i64,
    pub m: u8,
    pub d: u8,
    pub dow: u8,
    pub doy: u16,
}

impl Odo {
    /// Start at an arbitrary day (uses the closed form once; shard hand-over re-checks it
    /// against the stepping).
    pub fn at(k: i64) -> Self {
        let (y, m, d) = civil_from_days(k);
        Odo { k, y, m, d, dow: weekday(k), doy: day_of_year(y, m, d) }
    }
    #[inline]
    pub fn step(&mut self) {
        self.k += 1;
        self.dow = if self.dow == 7 { 1 } else { self.dow + 1 };
        if self.d < dim(self.y, self.m) {
            self.d += 1;
            self.doy += 1;
        } else if self.m < 12 {
            self.m += 1;
            self.d = 1;
            self.doy += 1;
        } else {
            self.y += 1;
            self.m = 1;
            self.d = 1;
            self.doy = 1;
        }
    }
}

pub fn fmt_year(y: i64) -> String {
    if (0..=9999).contains(&y) {
        format!("{y:04}")
    } else if y < 0 {
        format!("-{:06}", -y)
    } else {
        format!("+{y:06}")
    }
}

#[cfg(test)]
mod tests {
    use super::*;
    #[test]
    fn anchors() {
        assert_eq!(days_from_civil(1970, 1, 1), 0);
        assert_eq!(civil_from_days(0), (1970, 1, 1));
        assert_eq!(days_from_civil(275760, 9, 13), MAX_DAY);
        assert_eq!(days_from_civil(-271821, 4, 19), MIN_DAY);
        assert_eq!(weekday(0), 4);
        assert_eq!(iso_week(2021, 3, 7), (53, 2020)); // 2021-01-03 is Sunday of 2020-W53
        assert_eq!(iso_week(2018, 365, 1), (1, 2019)); // 2018-12-31 Monday
    }
    #[test]
    fn odometer_agrees_with_closed_form() {
        let mut o = Odo::at(-800_000);
        for _ in 0..1_600_000 {
            o.step();
            assert_eq!((o.y, o.m, o.d), civil_from_days(o.k));
            assert_eq!(o.k, days_from_civil(o.y, o.m, o.d));
            assert_eq!(o.dow, weekday(o.k));
            assert_eq!(o.doy, day_of_year(o.y, o.m, o.d));
        }
    }
}
