//! C04 - PlainDate add / subtract / until / since follow Temporal date arithmetic exactly.
//!
//! Oracle: refmodel::date (AddISODate / DifferenceISODate transcribed from the specification) plus
//! model-free laws (inverse, negation, subtract = add(-d), day distance).

use crate::core::*;
use crate::fp;
use crate::refmodel::civil::*;
use crate::refmodel::date::*;
use crate::refmodel::dur;
use crate::refmodel::round::{Mode, ALL_MODES};
use crate::util::*;
use serde_json::json;
use temporal_rs::error::ErrorKind;
use temporal_rs::options::{ArithmeticOverflow, Unit};
use temporal_rs::{Calendar, PlainDate};

pub const DATE_UNITS: [Unit; 4] = [Unit::Year, Unit::Month, Unit::Week, Unit::Day];

/// Hostile day generator (days since epoch).
pub fn gen_day(rng: &mut Rng) -> i64 {
    match rng.below(10) {
        0 => {
            // a month end
            let y = gen_year(rng);
            let m = rng.range(1, 12) as u8;
            days_from_civil(y, m, dim(y, m)).clamp(MIN_DAY, MAX_DAY)
        }
        1 => {
            // day 29/30/31 (or the last day when shorter)
            let y = gen_year(rng);
            let m = rng.range(1, 12) as u8;
            let d = (rng.range(29, 31) as u8).min(dim(y, m));
            days_from_civil(y, m, d).clamp(MIN_DAY, MAX_DAY)
        }
        2 => {
            // Feb 29 of a leap year (or Feb 28)
            let mut y = gen_year(rng);
            y -= y.rem_euclid(4);
            let d = if is_leap(y) { 29 } else { 28 };
            days_from_civil(y, 2, d).clamp(MIN_DAY, MAX_DAY)
        }
        3 => {
            let y = gen_year(rng);
            if rng.bool() {
                days_from_civil(y, 1, 1).clamp(MIN_DAY, MAX_DAY)
            } else {
                days_from_civil(y, 12, 31).clamp(MIN_DAY, MAX_DAY)
            }
        }
        4 => MIN_DAY + rng.range(0, 40),
        5 => MAX_DAY - rng.range(0, 40),
        6 => days_from_civil(rng.range(-3, 3), rng.range(1, 12) as u8, rng.range(1, 28) as u8),
        _ => rng.range(MIN_DAY, MAX_DAY),
    }
}

fn gen_year(rng: &mut Rng) -> i64 {
    match rng.below(5) {
        0 => rng.range(1900, 2100),
        1 => rng.range(-400, 400),
        2 => rng.range(-271_820, -271_000),
        3 => rng.range(275_000, 275_759),
        _ => rng.range(-271_820, 275_759),
    }
}

fn gen_mag(rng: &mut Rng, unit: usize) -> i128 {
    // unit: 0 y, 1 mo, 2 w, 3 d
    let fixed: [i128; 16] = [0, 1, 2, 11, 12, 13, 7, 28, 29, 30, 31, 365, 366, 100_000, 547_581, 4_294_967_295];
    let range_cap: i128 = match unit {
        0 => 547_581,
        1 => 6_570_972,
        2 => 28_571_429,
        _ => 200_000_001,
    };
    match rng.below(8) {
        0..=2 => *rng.pick(&fixed),
        3 => rng.range128(0, 40),
        4 => rng.range128(0, range_cap),
        5 => range_cap + rng.range128(-2, 2),
        6 => *rng.pick(&[2_147_483_647i128, 2_147_483_648, 2_147_483_649, 4_294_967_294, 306_783_378, 306_783_379, 1_000_000_000]),
        _ => rng.range128(0, 4_294_967_295),
    }
}

/// A sign-uniform duration for date arithmetic: (fields, exact time total).
pub fn gen_date_duration(rng: &mut Rng) -> [f64; 10] {
    loop {
        let mut v = [0f64; 10];
        let sign = if rng.bool() { 1.0 } else { -1.0 };
        let pattern = rng.below(8);
        let picks: Vec<usize> = match pattern {
            0 => vec![0],
            1 => vec![1],
            2 => vec![2],
            3 => vec![3],
            4 => vec![0, 1],
            5 => vec![1, 3],
            6 => vec![0, 1, 2, 3],
            _ => vec![rng.below(4) as usize, rng.below(4) as usize],
        };
        for u in picks {
            v[u] = sign * gen_mag(rng, u) as f64;
        }
        if rng.chance(1, 4) {
            // time units that contribute whole days
            match rng.below(4) {
                0 => v[4] = sign * rng.range(0, 100) as f64,
                1 => v[4] = sign * *rng.pick(&[23.0, 24.0, 25.0, 47.0, 48.0, 49.0]),
                2 => v[9] = sign * (rng.range128(0, 3 * NS_PER_DAY) as f64),
                _ => {
                    v[5] = sign * rng.range(0, 3000) as f64;
                    v[6] = sign * rng.range(0, 200_000) as f64;
                }
            }
        }
        for x in v.iter_mut() {
            if *x == 0.0 {
                *x = 0.0;
            }
        }
        if dur::is_valid(&v) {
            return v;
        }
    }
}

fn ymd_of(k: i64) -> Ymd {
    civil_from_days(k)
}

fn date_str(k: i64) -> String {
    let (y, m, d) = ymd_of(k);
    format!("{}-{:02}-{:02}", fmt_year(y), m, d)
}

fn feature(start: Ymd, fields: &[f64; 10], res: &Result<Ymd, DateErr>) -> &'static str {
    if res.is_err() {
        return "out-of-range-or-rejected";
    }
    if start.1 == 2 && start.2 == 29 {
        return "leap-day";
    }
    if (fields[0] != 0.0 || fields[1] != 0.0) && start.2 >= 29 {
        return "month-end";
    }
    "plain"
}

fn largest_nonzero(fields: &[f64; 10]) -> &'static str {
    const N: [&str; 10] = ["years", "months", "weeks", "days", "hours", "minutes", "seconds", "ms", "us", "ns"];
    for i in 0..10 {
        if fields[i] != 0.0 {
            return N[i];
        }
    }
    "zero"
}

pub fn run(rep: &mut Report) {
    let iso = Calendar::default();
    let mk = |k: i64| -> temporal_rs::TemporalResult<PlainDate> {
        let (y, m, d) = ymd_of(k);
        PlainDate::try_new(y as i32, m, d, iso.clone())
    };
    let mut rng = rep.cfg.rng("c04");
    let n_add = rep.cfg.budget(2_000_000, 200_000_000);
    let n_diff = rep.cfg.budget(2_000_000, 200_000_000);
    let mut evals = 0u64;

    // ------------------------------------------------------------------ add / subtract
    for it in 0..n_add {
        let k = gen_day(&mut rng);
        let fields = gen_date_duration(&mut rng);
        let reject = rng.bool();
        if !rep.begin() {
            continue;
        }
        evals += 1;
        let start = ymd_of(k);
        let d = match call(|| dur10(fields)) {
            Out::Ok(d) => d,
            _ => {
                rep.inconclusive("C04.ctor", "duration-rejected");
                continue;
            }
        };
        let tt = {
            let mut t = fields;
            t[3] = 0.0;
            dur::time_total(&t)
        };
        let (yy, mm, ww, dd) = (dur::exact(fields[0]), dur::exact(fields[1]), dur::exact(fields[2]), dur::exact(fields[3]));
        let ov = if reject { ArithmeticOverflow::Reject } else { ArithmeticOverflow::Constrain };
        let exp_add = add_date(start, yy, mm, ww, dd, tt, reject);
        let exp_sub = add_date(start, -yy, -mm, -ww, -dd, -tt, reject);
        let feat = feature(start, &fields, &exp_add);
        if feat != "plain" {
            rep.nontrivial(fp!(1u64, k as u64, fields[0] as i64, fields[1] as i64, fields[2] as i64, fields[3] as i64, reject));
            rep.hit(&format!("add/feature/{feat}"));
        }
        let case = || json!({"date": date_str(k), "duration": format!("{fields:?}"), "overflow": if reject {"reject"} else {"constrain"}});
        let to_ymd = |p: &PlainDate| (p.iso_year() as i64, p.iso_month(), p.iso_day());
        for (sub, exp, name) in [(false, &exp_add, "PlainDate::add"), (true, &exp_sub, "PlainDate::subtract")] {
            let r = call(|| {
                let a = mk(k)?;
                if sub {
                    a.subtract(&d, Some(ov))
                } else {
                    a.add(&d, Some(ov))
                }
            });
            let shape = format!("({},{},{},{})", largest_nonzero(&fields), if reject { "reject" } else { "constrain" }, if fields.iter().any(|x| *x < 0.0) != sub { "neg" } else { "pos" }, feature(start, &fields, exp));
            match (&r, exp) {
                (Out::Ok(g), Ok(e)) if to_ymd(g) == *e => {}
                (Out::Err(ErrorKind::Range, _), Err(_)) => {}
                _ if r.is_broken() => rep.inconclusive("C04.add", "panic"),
                _ => rep.violation("C04.add", name, &shape, case(), r.map(|g| format!("{:?}", to_ymd(&g))).show(), format!("{exp:?}")),
            }
        }
        // default overflow (None) is constrain
        if !reject && it % 4 == 0 {
            let r = call(|| mk(k)?.add(&d, None));
            match (&r, &exp_add) {
                (Out::Ok(g), Ok(e)) if to_ymd(g) == *e => {}
                (Out::Err(ErrorKind::Range, _), Err(_)) => {}
                _ if r.is_broken() => rep.inconclusive("C04.add", "panic"),
                _ => rep.violation("C04.add", "PlainDate::add(default overflow)", "default", case(), r.map(|g| format!("{:?}", to_ymd(&g))).show(), format!("{exp_add:?}")),
            }
        }
        if it % 200_003 == 0 {
            rep.sample(&format!("add{it}"), || json!({"op": "PlainDate::add", "case": case(), "expected": format!("{exp_add:?}")}));
        }
    }

    // ------------------------------------------------------------------ until / since
    for it in 0..n_diff {
        let ka = gen_day(&mut rng);
        let kb = match rng.below(9) {
            0 => ka,
            1 => ka + rng.range(-1, 1),
            2 => ka + rng.range(27, 32) * if rng.bool() { 1 } else { -1 },
            3 => ka + rng.range(364, 367) * if rng.bool() { 1 } else { -1 },
            4 => ka + rng.range(-40_000, 40_000),
            5 => ka + rng.range(-36_525 * 30, 36_525 * 30),
            6 => gen_day(&mut rng),
            7 => {
                if rng.bool() {
                    MAX_DAY - rng.range(0, 3)
                } else {
                    MIN_DAY + rng.range(0, 3)
                }
            }
            _ => rng.range(MIN_DAY, MAX_DAY),
        }
        .clamp(MIN_DAY, MAX_DAY);
        let lu = DATE_UNITS[rng.below(4) as usize];
        let opt_mode = *rng.pick(&ALL_MODES);
        let opt_small = DATE_UNITS[rng.below(4) as usize];
        let opt_inc = *rng.pick(&[1u32, 1, 2, 3, 5, 10]);
        if !rep.begin() {
            continue;
        }
        evals += 1;
        let (a, b) = (ymd_of(ka), ymd_of(kb));
        let (ey, em, ew, ed) = diff_date(a, b, lu);
        let exp = [ey as f64, em as f64, ew as f64, ed as f64, 0., 0., 0., 0., 0., 0.];
        let span_feat = if ka == kb {
            "zero"
        } else if a.2 >= 29 || b.2 >= 28 {
            "month-end"
        } else if (kb - ka).abs() > 31 {
            "long"
        } else {
            "short"
        };
        if span_feat == "month-end" || span_feat == "long" || kb < ka {
            rep.nontrivial(fp!(2u64, ka as u64, kb as u64, lu as u64));
        }
        let shape = format!("({},{},{})", unit_name(lu), if kb < ka { "neg" } else { "nonneg" }, span_feat);
        let case = || json!({"a": date_str(ka), "b": date_str(kb), "largest": unit_name(lu)});
        let r = call(|| {
            let (pa, pb) = (mk(ka)?, mk(kb)?);
            let u = pa.until(&pb, diff_largest(lu))?;
            let s = pa.since(&pb, diff_largest(lu))?;
            let fwd = pa.add(&u, None)?;
            Ok((dur_fields(&u), dur_fields(&s), pdate_days(&fwd)))
        });
        match &r {
            Out::Ok((u, s, fwd)) => {
                if *u != exp {
                    rep.violation("C04.until", "PlainDate::until", &shape, case(), format!("{u:?}"), format!("{exp:?}"));
                }
                let neg: Vec<f64> = u.iter().map(|x| if *x == 0.0 { 0.0 } else { -*x }).collect();
                if s.to_vec() != neg {
                    rep.violation("C04.since_negation", "PlainDate::since", &shape, case(), format!("{s:?}"), format!("{neg:?}"));
                }
                if *fwd != kb {
                    rep.violation("C04.inverse", "PlainDate::add(until)", &shape, case(), date_str(*fwd), date_str(kb));
                }
                // balanced and sign-uniform, checked on the implementation's own output
                let sg = (kb - ka).signum() as f64;
                let bad_sign = u.iter().any(|x| *x != 0.0 && x.signum() != sg);
                let unbalanced = (lu == Unit::Year && u[1].abs() >= 12.0) || (lu == Unit::Week && u[3].abs() >= 7.0) || (lu != Unit::Week && u[2] != 0.0) || (lu != Unit::Year && u[0] != 0.0) || ((lu == Unit::Day || lu == Unit::Week) && u[1] != 0.0) || u[3].abs() >= 31.0 && lu != Unit::Day && lu != Unit::Week;
                if bad_sign || unbalanced {
                    rep.violation("C04.balanced", "PlainDate::until", &shape, case(), format!("{u:?}"), "sign-uniform and balanced for the largest unit".into());
                }
                if lu == Unit::Day && u[3] != (kb - ka) as f64 {
                    rep.violation("C04.day_distance", "PlainDate::until", &shape, case(), format!("{u:?}"), format!("{} days", kb - ka));
                }
            }
            Out::Err(k, m) => rep.violation("C04.until", "PlainDate::until/since/add", &format!("{shape}/error"), case(), format!("Err({k}: {m})"), format!("{exp:?}")),
            Out::Panic(..) => rep.inconclusive("C04.until", "panic"),
        }
        // since with rounding options == -(until with the mirrored mode)
        if ka != kb && opt_small <= lu {
            let st_s = diff_settings(Some(lu), Some(opt_small), Some(opt_mode.to_lib()), Some(opt_inc));
            let st_u = diff_settings(Some(lu), Some(opt_small), Some(opt_mode.mirrored().to_lib()), Some(opt_inc));
            let r = call_inf(|| {
                let (pa, pb) = (mk(ka).ok()?, mk(kb).ok()?);
                let s = pa.since(&pb, st_s).map(|d| dur_fields(&d)).map_err(|e| e.kind());
                let u = pa.until(&pb, st_u).map(|d| dur_fields(&d)).map_err(|e| e.kind());
                Some((s, u))
            });
            match r {
                Out::Ok(Some((s, u))) => {
                    rep.hit("since_mirror/evaluated");
                    let ok = match (&s, &u) {
                        (Ok(s), Ok(u)) => s.iter().zip(u.iter()).all(|(x, y)| *x == -*y || (*x == 0.0 && *y == 0.0)),
                        (Err(ErrorKind::Assert), _) | (_, Err(ErrorKind::Assert)) => true,
                        (Err(a), Err(b)) => a == b,
                        _ => false,
                    };
                    if !ok {
                        rep.violation(
                            "C04.since_mirror",
                            "PlainDate::since(rounded)",
                            &format!("({},{},{})", unit_name(lu), unit_name(opt_small), Mode::name(opt_mode)),
                            json!({"a": date_str(ka), "b": date_str(kb), "largest": unit_name(lu), "smallest": unit_name(opt_small), "inc": opt_inc, "mode": opt_mode.name()}),
                            format!("since={s:?}"),
                            format!("negation of until(mirrored mode)={u:?}"),
                        );
                    }
                }
                Out::Ok(None) => {}
                _ => rep.inconclusive("C04.since_mirror", "panic"),
            }
        }
        if it % 200_003 == 0 {
            rep.sample(&format!("diff{it}"), || json!({"op": "PlainDate::until", "case": case(), "expected": format!("{exp:?}")}));
        }
    }
    rep.evaluations += evals;
    rep.add("cases", evals);
    rep.require("cases");
    rep.require("add/feature/month-end");
    rep.require("add/feature/leap-day");
    rep.require("add/feature/out-of-range-or-rejected");
    rep.require("since_mirror/evaluated");
}
