//! C18 - year-months and month-days are canonical and count whole months.
//!
//! Oracle: (a) route equivalence: a value obtained from a string, a date, a field record or the
//! constructor without a reference argument is ==, compares equal and prints identically (all four
//! DisplayCalendar texts) to the canonical expected text built from the visible fields alone;
//! (b) whole-month arithmetic model on (year, month) with the limits -271821-04 .. +275760-09.

use crate::core::*;
use crate::fp;
use crate::refmodel::civil::*;
use crate::refmodel::date::diff_date;
use crate::refmodel::round::{round_rat, Mode, ALL_MODES};
use crate::util::*;
use serde_json::json;
use std::cmp::Ordering;
use std::str::FromStr;
use temporal_rs::error::ErrorKind;
use temporal_rs::options::{ArithmeticOverflow, DisplayCalendar, Unit};
use temporal_rs::partial::PartialDate;
use temporal_rs::{Calendar, MonthCode, PlainDate, PlainMonthDay, PlainYearMonth};

const DISPLAYS: [(DisplayCalendar, &str); 4] = [(DisplayCalendar::Auto, "auto"), (DisplayCalendar::Never, "never"), (DisplayCalendar::Always, "always"), (DisplayCalendar::Critical, "critical")];

fn ym_in_limits(y: i64, m: u8) -> bool {
    (y > -271_821 || (y == -271_821 && m >= 4)) && (y < 275_760 || (y == 275_760 && m <= 9)) && (-271_821..=275_760).contains(&y)
}

fn ym_text(y: i64, m: u8, d: DisplayCalendar) -> String {
    match d {
        DisplayCalendar::Auto | DisplayCalendar::Never => format!("{}-{:02}", fmt_year(y), m),
        DisplayCalendar::Always => format!("{}-{:02}-01[u-ca=iso8601]", fmt_year(y), m),
        DisplayCalendar::Critical => format!("{}-{:02}-01[!u-ca=iso8601]", fmt_year(y), m),
    }
}

fn md_text(m: u8, d: u8, disp: DisplayCalendar) -> String {
    match disp {
        DisplayCalendar::Auto | DisplayCalendar::Never => format!("{m:02}-{d:02}"),
        DisplayCalendar::Always => format!("1972-{m:02}-{d:02}[u-ca=iso8601]"),
        DisplayCalendar::Critical => format!("1972-{m:02}-{d:02}[!u-ca=iso8601]"),
    }
}

fn gen_ym(rng: &mut Rng) -> (i64, u8) {
    loop {
        let y = match rng.below(7) {
            0 => -271_821,
            1 => 275_760,
            2 => rng.range(-271_821, -271_815),
            3 => rng.range(275_755, 275_760),
            4 => rng.range(-2, 10_001),
            5 => rng.range(1900, 2100),
            _ => rng.range(-271_821, 275_760),
        };
        let m = rng.range(1, 12) as u8;
        if ym_in_limits(y, m) {
            return (y, m);
        }
    }
}

/// All texts of one year-month value, or the panic/err marker.
fn ym_obs(v: &PlainYearMonth) -> (i64, u8, Vec<String>) {
    (v.iso_year() as i64, v.iso_month(), DISPLAYS.iter().map(|(d, _)| v.to_ixdtf_string(*d)).collect())
}

pub fn run(rep: &mut Report) {
    let iso = Calendar::default();
    let mut rng = rep.cfg.rng("c18");
    let thorough = rep.cfg.thorough();
    let mut evals = 0u64;

    // ------------------------------------------------------------------ canonical year-months
    // thorough: every year-month in range (strided by shard); quick: sampled
    let total_months: i64 = (275_760 - -271_821) * 12 + (9 - 4) + 1;
    let n_canon = if thorough { total_months as u64 } else { rep.cfg.budget(400_000, 0) * rep.cfg.nshards };
    let mut idx = 0u64;
    while idx < n_canon {
        let (y, m) = if thorough {
            let t = idx as i64 + 3; // months since -271821-01
            (-271_821 + t.div_euclid(12), (t.rem_euclid(12) + 1) as u8)
        } else {
            gen_ym(&mut rng)
        };
        let day_in_string = rng.range(1, dim(y, m) as i64) as u8;
        let mine = idx % rep.cfg.nshards == rep.cfg.shard;
        idx += 1;
        if !mine || !rep.begin() {
            continue;
        }
        evals += 1;
        let case = || json!({"year": y, "month": m, "day_used_in_routes": day_in_string});
        let exp_texts: Vec<String> = DISPLAYS.iter().map(|(d, _)| ym_text(y, m, *d)).collect();
        let reference = call(|| PlainYearMonth::new_with_overflow(y as i32, m, None, iso.clone(), ArithmeticOverflow::Reject));
        let Out::Ok(reference) = reference else {
            if reference.is_broken() {
                rep.inconclusive("C18.ym_canonical", "panic");
            } else {
                rep.violation("C18.ym_limits", "PlainYearMonth::new_with_overflow", "rejected-in-range", case(), reference.kind_str(), "Ok".into());
            }
            continue;
        };
        // routes
        let ys = fmt_year(y);
        let mut routes: Vec<(&str, Out<PlainYearMonth>)> = vec![
            ("from_str(YYYY-MM)", call(|| PlainYearMonth::from_str(&format!("{ys}-{m:02}")))),
            ("from_str(YYYY-MM-DD)", call(|| PlainYearMonth::from_str(&format!("{ys}-{m:02}-{day_in_string:02}")))),
            ("from_str(date-time)", call(|| PlainYearMonth::from_str(&format!("{ys}-{m:02}-{day_in_string:02}T23:59:59.5")))),
            ("from_str(own always text)", call(|| PlainYearMonth::from_str(&ym_text(y, m, DisplayCalendar::Always)))),
            ("from_partial(year,month)", call(|| PlainYearMonth::from_partial(PartialDate::new().with_year(Some(y as i32)).with_month(Some(m)), ArithmeticOverflow::Reject))),
            ("from_partial(year,monthCode,day)", call(|| {
                PlainYearMonth::from_partial(
                    PartialDate::new().with_year(Some(y as i32)).with_month_code(MonthCode::try_from_utf8(format!("M{m:02}").as_bytes()).ok()).with_day(Some(day_in_string)),
                    ArithmeticOverflow::Constrain,
                )
            })),
            ("with(same fields)", call(|| reference.with(PartialDate::new().with_month(Some(m)), None))),
        ];
        // from a date: only when that date exists in range
        let k = days_from_civil(y, m, day_in_string);
        if (MIN_DAY..=MAX_DAY).contains(&k) {
            routes.push(("PlainDate::to_plain_year_month", call(|| PlainDate::try_new(y as i32, m, day_in_string, iso.clone())?.to_plain_year_month())));
        }
        let ref_obs = call_inf(|| ym_obs(&reference));
        match &ref_obs {
            Out::Ok((gy, gm, texts)) => {
                if (*gy, *gm) != (y, m) || *texts != exp_texts {
                    rep.violation("C18.ym_canonical", "PlainYearMonth::new_with_overflow(None)", "text", case(), format!("{texts:?}"), format!("{exp_texts:?}"));
                }
            }
            _ => rep.inconclusive("C18.ym_canonical", "panic"),
        }
        for (name, r) in routes {
            match &r {
                Out::Ok(v) => {
                    let o = call_inf(|| (ym_obs(v), *v == reference, v.compare_iso(&reference)));
                    match o {
                        Out::Ok(((gy, gm, texts), eq, ord)) => {
                            if (gy, gm) != (y, m) {
                                rep.violation("C18.ym_canonical", name, "fields", case(), format!("({gy},{gm})"), format!("({y},{m})"));
                            } else if !eq || ord != Ordering::Equal || texts != exp_texts {
                                let which = if !eq { "not-equal" } else if ord != Ordering::Equal { "compare" } else { "text" };
                                rep.violation("C18.ym_canonical", name, which, case(), format!("eq={eq} cmp={ord:?} texts={texts:?}"), format!("eq=true cmp=Equal texts={exp_texts:?}"));
                            }
                        }
                        _ => rep.inconclusive("C18.ym_canonical", "panic"),
                    }
                }
                _ if r.is_broken() => rep.inconclusive("C18.ym_canonical", "panic"),
                Out::Err(k2, msg) => rep.violation("C18.ym_canonical", name, "route-fails", case(), format!("Err({k2}: {msg})"), "Ok".into()),
                _ => {}
            }
        }
        // only the explicit reference argument may choose another hidden day
        if idx % 16 == 1 {
            let r = call(|| PlainYearMonth::new_with_overflow(y as i32, m, Some(day_in_string), iso.clone(), ArithmeticOverflow::Reject)).map(|v| v.to_ixdtf_string(DisplayCalendar::Always));
            let exp = format!("{}-{:02}-{:02}[u-ca=iso8601]", ys, m, day_in_string);
            match &r {
                Out::Ok(t) if *t == exp => {}
                _ if r.is_broken() => rep.inconclusive("C18.ym_reference_arg", "panic"),
                _ => rep.violation("C18.ym_reference_arg", "PlainYearMonth::new_with_overflow(Some(day))", "text", case(), r.show(), exp),
            }
        }
        if y <= -271_820 || y >= 275_759 || (0..=1).contains(&y) || y == 9999 || y == 10_000 {
            rep.hit("ym/at_limits_or_year_format_boundary");
        }
        rep.nontrivial(fp!(1u64, y as u64, m));
        if idx % 500_009 == 1 {
            rep.sample(&format!("ym{idx}"), || json!({"year_month": ym_text(y, m, DisplayCalendar::Auto), "routes": 8, "expected_texts": exp_texts}));
        }
    }
    // outside the limits
    if rep.cfg.shard == 0 {
        for (y, m, ok) in [(-271_821i32, 3u8, false), (-271_821, 4, true), (275_760, 9, true), (275_760, 10, false), (275_761, 1, false), (-271_822, 12, false)] {
            if !rep.begin() {
                continue;
            }
            evals += 1;
            let r1 = call(|| PlainYearMonth::new_with_overflow(y, m, None, iso.clone(), ArithmeticOverflow::Constrain)).map(|_| ());
            let r2 = call(|| PlainYearMonth::from_str(&format!("{}-{:02}", fmt_year(y as i64), m))).map(|_| ());
            let r3 = call(|| PlainYearMonth::from_partial(PartialDate::new().with_year(Some(y)).with_month(Some(m)), ArithmeticOverflow::Constrain)).map(|_| ());
            for (name, r) in [("new_with_overflow", r1), ("from_str", r2), ("from_partial", r3)] {
                match (&r, ok) {
                    (Out::Ok(()), true) | (Out::Err(ErrorKind::Range, _), false) => {}
                    _ if r.is_broken() => rep.inconclusive("C18.ym_limits", "panic"),
                    _ => rep.violation("C18.ym_limits", &format!("PlainYearMonth::{name}"), if ok { "rejected-in-range" } else { "accepted-out-of-range" }, json!({"year": y, "month": m}), r.kind_str(), if ok { "Ok".into() } else { "Err(RangeError)".into() }),
                }
            }
            rep.hit("ym/limit_probes");
        }
    }

    // ------------------------------------------------------------------ month-days: all 366 plus impossible days
    let mut mdi = 0u64;
    for m in 1..=12u8 {
        for d in 1..=31u8 {
            mdi += 1;
            if !rep.cfg.mine(mdi) || !rep.begin() {
                continue;
            }
            evals += 1;
            let valid = d <= dim(1972, m);
            let case = || json!({"month": m, "day": d});
            let exp_texts: Vec<String> = DISPLAYS.iter().map(|(x, _)| md_text(m, d.min(dim(1972, m)), *x)).collect();
            for reject in [false, true] {
                let ov = if reject { ArithmeticOverflow::Reject } else { ArithmeticOverflow::Constrain };
                let r = call(|| PlainMonthDay::new_with_overflow(m, d, iso.clone(), ov, None));
                match (&r, valid || !reject) {
                    (Out::Ok(v), true) => {
                        let texts: Vec<String> = DISPLAYS.iter().map(|(x, _)| v.to_ixdtf_string(*x)).collect();
                        if texts != exp_texts || v.iso_year() != 1972 {
                            rep.violation("C18.md_canonical", "PlainMonthDay::new_with_overflow", if reject { "reject" } else { "constrain" }, case(), format!("{texts:?} ref_year={}", v.iso_year()), format!("{exp_texts:?} ref_year=1972"));
                        }
                    }
                    (Out::Err(ErrorKind::Range, _), false) => {}
                    _ if r.is_broken() => rep.inconclusive("C18.md_overflow", "panic"),
                    _ => rep.violation("C18.md_overflow", "PlainMonthDay::new_with_overflow", if reject { "reject" } else { "constrain" }, case(), r.map(|v| v.to_ixdtf_string(DisplayCalendar::Auto)).show(), if valid || !reject { format!("{:?}", exp_texts[0]) } else { "Err(RangeError)".into() }),
                }
            }
            // string routes: reject impossible days
            let strs = [format!("{m:02}-{d:02}"), format!("--{m:02}-{d:02}"), format!("{m:02}{d:02}"), format!("1972-{m:02}-{d:02}"), format!("{m:02}-{d:02}[u-ca=iso8601]")];
            let reference = call(|| PlainMonthDay::new_with_overflow(m, d, iso.clone(), ArithmeticOverflow::Reject, None));
            for (si, s) in strs.iter().enumerate() {
                let r = call(|| PlainMonthDay::from_str(s));
                // a year-carrying string must name a date that exists in *that* year
                let valid_here = valid;
                match (&r, valid_here, &reference) {
                    (Out::Ok(v), true, Out::Ok(refv)) => {
                        let texts: Vec<String> = DISPLAYS.iter().map(|(x, _)| v.to_ixdtf_string(*x)).collect();
                        if v != refv || texts != exp_texts {
                            rep.violation("C18.md_canonical", "PlainMonthDay::from_str", &format!("form{si}"), json!({"text": s}), format!("{texts:?}"), format!("{exp_texts:?}"));
                        }
                    }
                    (Out::Err(ErrorKind::Range, _), false, _) => {}
                    _ if r.is_broken() => rep.inconclusive("C18.md_string", "panic"),
                    _ => rep.violation("C18.md_string", "PlainMonthDay::from_str", &format!("form{si},{}", if valid_here { "rejected-valid" } else { "accepted-impossible-day" }), json!({"text": s}), r.map(|v| v.to_ixdtf_string(DisplayCalendar::Always)).show(), if valid_here { "Ok".into() } else { "Err(RangeError)".into() }),
                }
            }
            // from a date (any year in which the day exists) and from a field record
            if valid {
                for y in [1972i32, 2023, 2024, -4, 275_000] {
                    if d > dim(y as i64, m) {
                        continue;
                    }
                    let r = call(|| PlainDate::try_new(y, m, d, iso.clone())?.to_plain_month_day());
                    match (&r, &reference) {
                        (Out::Ok(v), Out::Ok(refv)) => {
                            let texts: Vec<String> = DISPLAYS.iter().map(|(x, _)| v.to_ixdtf_string(*x)).collect();
                            if v != refv || texts != exp_texts {
                                rep.violation("C18.md_canonical", "PlainDate::to_plain_month_day", "from-date", json!({"date": format!("{y}-{m:02}-{d:02}")}), format!("{texts:?}"), format!("{exp_texts:?}"));
                            }
                        }
                        _ if r.is_broken() => rep.inconclusive("C18.md_canonical", "panic"),
                        _ => rep.violation("C18.md_canonical", "PlainDate::to_plain_month_day", "route-fails", json!({"date": format!("{y}-{m:02}-{d:02}")}), r.map(|v| v.to_ixdtf_string(DisplayCalendar::Always)).show(), "Ok".into()),
                    }
                }
            }
            // from a field record: the day is regulated in the year given (02-29 with year 2023 constrains to 02-28 and is
            // rejected under reject). A record without a year is not judged: this version of the API requires one
            // (TypeError "Required fields missing to determine an era and year"), which the property does not forbid.
            for yr in [Some(2023i32), Some(2024), Some(1900), Some(-4), Some(1972)] {
                for reject in [false, true] {
                    let lim = dim(yr.unwrap_or(1972) as i64, m);
                    let want = if d <= lim { Some(d) } else if reject { None } else { Some(lim) };
                    let ov = if reject { ArithmeticOverflow::Reject } else { ArithmeticOverflow::Constrain };
                    let r = call(|| iso.month_day_from_partial(&PartialDate::new().with_year(yr).with_month(Some(m)).with_day(Some(d)), ov));
                    let shape = format!("({},{},{})", if yr.is_some() { "with-year" } else { "no-year" }, if reject { "reject" } else { "constrain" }, if d <= lim { "day-exists" } else { "day-beyond-month" });
                    let case = || json!({"year": yr, "month": m, "day": d});
                    match (&r, want) {
                        (Out::Ok(v), Some(wd)) => {
                            let refv = call(|| PlainMonthDay::new_with_overflow(m, wd, iso.clone(), ArithmeticOverflow::Reject, None));
                            let texts: Vec<String> = DISPLAYS.iter().map(|(x, _)| v.to_ixdtf_string(*x)).collect();
                            let want_texts: Vec<String> = DISPLAYS.iter().map(|(x, _)| md_text(m, wd, *x)).collect();
                            if refv.as_ok() != Some(v) || texts != want_texts {
                                rep.violation("C18.md_canonical", "Calendar::month_day_from_partial", &shape, case(), format!("{texts:?}"), format!("{want_texts:?}"));
                            }
                        }
                        (Out::Err(ErrorKind::Range, _), None) => {}
                        _ if r.is_broken() => rep.inconclusive("C18.md_canonical", "panic"),
                        _ => rep.violation("C18.md_overflow", "Calendar::month_day_from_partial", &shape, case(), r.map(|v| v.to_ixdtf_string(DisplayCalendar::Always)).show(), format!("{want:?}")),
                    }
                }
            }
            rep.nontrivial(fp!(2u64, m, d));
            if m == 2 && d >= 29 {
                rep.hit("md/feb_29_30_31");
            }
        }
    }

    // ------------------------------------------------------------------ whole-month arithmetic
    let n_ar = rep.cfg.budget(600_000, 100_000_000);
    for it in 0..n_ar {
        let (y, m) = gen_ym(&mut rng);
        let sign: i64 = if rng.bool() { 1 } else { -1 };
        let dy = match rng.below(5) {
            0 => 0,
            1 => rng.range(0, 3),
            2 => rng.range(0, 600_000),
            3 => 547_581 + rng.range(-2, 2),
            _ => rng.range(0, 300),
        } * sign;
        let dm = match rng.below(5) {
            0 => 0,
            1 => rng.range(0, 13),
            2 => rng.range(0, 7_000_000),
            3 => *rng.pick(&[11i64, 12, 13, 23, 24, 25]),
            _ => rng.range(0, 500),
        } * sign;
        let extra = rng.below(12); // 0: weeks, 1: days, else none
        let reject = rng.bool();
        let (y2, m2) = gen_ym(&mut rng);
        let (y2, m2) = if rng.bool() { (y2, m2) } else { ((y + rng.range(-3, 3)).clamp(-271_820, 275_759), rng.range(1, 12) as u8) };
        let lu = if rng.bool() { Unit::Year } else { Unit::Month };
        // one case in three: receivers built with an explicit (non-canonical) reference day -
        // arithmetic must still count from the first of the month and return canonical values
        let (ref_a, ref_b): (Option<u8>, Option<u8>) = if rng.chance(1, 3) {
            (Some(rng.range(1, dim(y, m) as i64) as u8), Some(rng.range(1, dim(y2, m2) as i64) as u8))
        } else {
            (None, None)
        };
        let mode = *rng.pick(&ALL_MODES);
        let rinc = *rng.pick(&[1u32, 1, 2, 3, 5, 12]);
        if !rep.begin() {
            continue;
        }
        evals += 1;
        let ov = if reject { ArithmeticOverflow::Reject } else { ArithmeticOverflow::Constrain };
        if dy != 0 || dm != 0 {
            rep.nontrivial(fp!(3u64, y as u64, m, dy as u64, dm as u64, y2 as u64, m2));
        }
        let mut fields = [dy as f64, dm as f64, 0., 0., 0., 0., 0., 0., 0., 0.];
        if extra == 0 {
            fields[2] = sign as f64 * rng_free(it, 5) as f64;
        } else if extra == 1 {
            fields[3] = sign as f64 * rng_free(it, 40) as f64;
        }
        for x in fields.iter_mut() {
            if *x == 0.0 {
                *x = 0.0;
            }
        }
        let refuses = fields[2] != 0.0 || fields[3] != 0.0;
        let touches_min = |yy: i64, mm: u8| yy == -271_821 && mm == 4;
        if let Out::Ok(d) = call(|| dur10(fields)) {
            for sub in [false, true] {
                let s2 = if sub { -1 } else { 1 };
                let tm = (y * 12 + (m as i64 - 1)) as i128 + s2 as i128 * (dy as i128 * 12 + dm as i128);
                let (ey, em) = (tm.div_euclid(12), (tm.rem_euclid(12) + 1) as u8);
                let expect_ok = !refuses && ey.abs() < 400_000 && ym_in_limits(ey as i64, em);
                // the first of -271821-04 is not a representable date: arithmetic from / onto that month is not judged
                let undecided = !refuses && (touches_min(y, m) || (ey == -271_821 && em == 4));
                let r = call(|| {
                    let v = PlainYearMonth::new_with_overflow(y as i32, m, ref_a, iso.clone(), ArithmeticOverflow::Reject)?;
                    if sub {
                        v.subtract(&d, ov)
                    } else {
                        v.add(&d, ov)
                    }
                });
                let name = if sub { "PlainYearMonth::subtract" } else { "PlainYearMonth::add" };
                let case = || json!({"year_month": ym_text(y, m, DisplayCalendar::Auto), "reference_day": ref_a, "duration": format!("{fields:?}"), "overflow": if reject {"reject"} else {"constrain"}});
                if undecided {
                    rep.hit("undecided/arithmetic_touching_-271821-04");
                    continue;
                }
                let shape = format!("({},{},{})", if refuses { "weeks-or-days" } else if expect_ok { "in-range" } else { "out-of-range" }, if reject { "reject" } else { "constrain" }, if ref_a.is_some() { "explicit-reference-day" } else { "canonical" });
                match (&r, expect_ok) {
                    (Out::Ok(v), true) => {
                        let texts: Vec<String> = DISPLAYS.iter().map(|(x, _)| v.to_ixdtf_string(*x)).collect();
                        let exp_texts: Vec<String> = DISPLAYS.iter().map(|(x, _)| ym_text(ey as i64, em, *x)).collect();
                        if texts != exp_texts {
                            rep.violation("C18.ym_add", name, &shape, case(), format!("{texts:?}"), format!("{exp_texts:?}"));
                        }
                    }
                    (Out::Err(ErrorKind::Range, _), false) => {}
                    _ if r.is_broken() => rep.inconclusive("C18.ym_add", "panic"),
                    _ => rep.violation("C18.ym_add", name, &shape, case(), r.map(|v| v.to_ixdtf_string(DisplayCalendar::Always)).show(), if expect_ok { ym_text(ey as i64, em, DisplayCalendar::Always) } else { "Err(RangeError)".into() }),
                }
                if refuses {
                    rep.hit("ym_add/refuses_weeks_days");
                }
            }
        }
        // until / since between firsts of months
        if !touches_min(y, m) && !touches_min(y2, m2) {
            let (yy, mo, _, _) = diff_date((y, m, 1), (y2, m2, 1), lu);
            let exp = [yy as f64, mo as f64, 0., 0., 0., 0., 0., 0., 0., 0.];
            let case = || json!({"a": ym_text(y, m, DisplayCalendar::Auto), "b": ym_text(y2, m2, DisplayCalendar::Auto), "reference_days": [ref_a, ref_b], "largest": unit_name(lu)});
            let r = call(|| {
                let a = PlainYearMonth::new_with_overflow(y as i32, m, ref_a, iso.clone(), ArithmeticOverflow::Reject)?;
                let b = PlainYearMonth::new_with_overflow(y2 as i32, m2, ref_b, iso.clone(), ArithmeticOverflow::Reject)?;
                let u = a.until(&b, diff_largest(lu))?;
                let s = a.since(&b, diff_largest(lu))?;
                let dflt = a.until(&b, Default::default())?;
                Ok((dur_fields(&u), dur_fields(&s), dur_fields(&dflt)))
            });
            match &r {
                Out::Ok((u, s, dflt)) => {
                    let neg: Vec<f64> = exp.iter().map(|x| if *x == 0.0 { 0.0 } else { -*x }).collect();
                    let (dy_, dmo_, _, _) = diff_date((y, m, 1), (y2, m2, 1), Unit::Year);
                    let exp_d = [dy_ as f64, dmo_ as f64, 0., 0., 0., 0., 0., 0., 0., 0.];
                    if *u != exp || s.to_vec() != neg || *dflt != exp_d {
                        rep.violation("C18.ym_diff", "PlainYearMonth::until/since", &format!("({},{})", unit_name(lu), if ref_a.is_some() { "explicit-reference-day" } else { "canonical" }), case(), format!("until={u:?} since={s:?} default={dflt:?}"), format!("until={exp:?} since={neg:?} default={exp_d:?}"));
                    }
                }
                Out::Err(k, msg) => rep.violation("C18.ym_diff", "PlainYearMonth::until/since", "error", case(), format!("Err({k}: {msg})"), format!("{exp:?}")),
                Out::Panic(..) => rep.inconclusive("C18.ym_diff", "panic"),
            }
            // rounding with largest == smallest == month: whole-month count rounded to the increment,
            // the progress inside the increment measured in days between the firsts
            let total_m = (y2 * 12 + m2 as i64) - (y * 12 + m as i64);
            if total_m != 0 {
                let k = rinc as i64;
                let sgn = total_m.signum();
                let r1 = (total_m.abs() / k) * k * sgn;
                let expected_for = |mode: Mode| -> i64 { if r1 == total_m {
                    total_m
                } else {
                    let r2 = r1 + k * sgn;
                    let at = |mm: i64| -> i64 {
                        let t = y * 12 + (m as i64 - 1) + mm;
                        days_from_civil(t.div_euclid(12), (t.rem_euclid(12) + 1) as u8, 1)
                    };
                    let (ds, de, dd) = (at(r1), at(r2), at(total_m));
                    // progress = (dd - ds) / (de - ds) in (0,1); the rounded count of increments is r1/k + round(progress)
                    let num = (dd - ds).abs() as i128;
                    let den = (de - ds).abs() as i128;
                    // the exact number of increments is r1/k + progress (signed); round it with the mode
                    // (parity for halfEven is that of the multiple itself)
                    let whole = (r1.abs() / k) as i128;
                    let q = round_rat(sgn as i128 * (whole * den + num), den, 1, mode).0;
                    let _ = r2;
                    (q as i64) * k
                } };
                let expected = expected_for(mode);
                let in_range = {
                    let t = y * 12 + (m as i64 - 1) + (total_m.abs() / k + 1) * k * sgn;
                    ym_in_limits(t.div_euclid(12), (t.rem_euclid(12) + 1) as u8) && !(t.div_euclid(12) == -271_821 && t.rem_euclid(12) + 1 == 4)
                };
                if in_range {
                    let st = diff_settings(Some(Unit::Month), Some(Unit::Month), Some(mode.to_lib()), Some(rinc));
                    let r = call(|| {
                        let a = PlainYearMonth::new_with_overflow(y as i32, m, None, iso.clone(), ArithmeticOverflow::Reject)?;
                        let b = PlainYearMonth::new_with_overflow(y2 as i32, m2, None, iso.clone(), ArithmeticOverflow::Reject)?;
                        a.until(&b, st)
                    });
                    let exp = [0., expected as f64, 0., 0., 0., 0., 0., 0., 0., 0.];
                    match &r {
                        Out::Ok(g) if dur_fields(g) == exp => {}
                        _ if r.is_broken() => rep.inconclusive("C18.ym_diff_rounded", "panic"),
                        _ => rep.violation("C18.ym_diff_rounded", "PlainYearMonth::until", &format!("(month,{},{})", if rinc == 1 { "inc1" } else { "inc>1" }, Mode::name(mode)), json!({"a": ym_text(y, m, DisplayCalendar::Auto), "b": ym_text(y2, m2, DisplayCalendar::Auto), "inc": rinc, "mode": mode.name()}), r.map(|g| format!("{:?}", dur_fields(&g))).show(), format!("{exp:?}")),
                    }
                    if expected != total_m {
                        rep.hit("ym_diff/rounding_changed_months");
                    }
                    // since() rounds as if negated: minus the difference rounded with the mirrored mode
                    let exp_since = -expected_for(mode.mirrored());
                    let r = call(|| {
                        let a = PlainYearMonth::new_with_overflow(y as i32, m, None, iso.clone(), ArithmeticOverflow::Reject)?;
                        let b = PlainYearMonth::new_with_overflow(y2 as i32, m2, None, iso.clone(), ArithmeticOverflow::Reject)?;
                        a.since(&b, st)
                    });
                    let exp = [0., if exp_since == 0 { 0.0 } else { exp_since as f64 }, 0., 0., 0., 0., 0., 0., 0., 0.];
                    match &r {
                        Out::Ok(g) if dur_fields(g) == exp => {}
                        _ if r.is_broken() => rep.inconclusive("C18.ym_diff_rounded", "panic"),
                        _ => rep.violation("C18.ym_diff_rounded", "PlainYearMonth::since", &format!("(month,{},{})", if rinc == 1 { "inc1" } else { "inc>1" }, Mode::name(mode)), json!({"a": ym_text(y, m, DisplayCalendar::Auto), "b": ym_text(y2, m2, DisplayCalendar::Auto), "increment": rinc}), r.map(|g| format!("{:?}", dur_fields(&g))).show(), format!("{exp:?}")),
                    }
                    if exp_since != -expected {
                        rep.hit("ym_diff/since_rounds_differently_from_negated_until");
                    }
                }
            }
        }
        if it % 100_003 == 0 {
            rep.sample(&format!("ar{it}"), || json!({"op": "PlainYearMonth::add", "year_month": ym_text(y, m, DisplayCalendar::Auto), "duration": format!("{fields:?}")}));
        }
    }
    rep.evaluations += evals;
    rep.add("cases", evals);
    rep.exhaustive = Some(false);
    rep.extra.insert("all_year_months_enumerated".into(), json!(thorough));
    rep.require("cases");
    rep.require("ym_add/refuses_weeks_days");
    rep.require("ym_diff/rounding_changed_months");
    rep.require("ym_diff/since_rounds_differently_from_negated_until");
}

fn rng_free(it: u64, m: u64) -> u64 {
    1 + it % m
}
