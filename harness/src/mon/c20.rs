//! C20 - the shared time-zone provider is thread-safe and survives failed calls.
//!
//! Many threads hammer the convenience API (the process-wide TZ_PROVIDER) over mixed zones, cold and warm, while a
//! chaos thread injects contention (holds the lock for a while) and faults (a panic while the lock is held, failing
//! calls). Oracle for every single call: the same operation through the `*_with_provider` twin on a provider owned by
//! the calling thread alone - what the call "would return alone". Progress is monitored on logical counters: a stall
//! of all workers for a long time while work remains is a deadlock. The completion order of the calls is recorded and
//! its distinct prefixes are the interleavings observed.

use crate::core::*;
use crate::util::*;
use serde_json::json;
use std::collections::HashSet;
use std::sync::atomic::{AtomicBool, AtomicU64, Ordering};
use std::sync::{Arc, Mutex};
use std::time::{Duration as StdDuration, Instant as StdInstant};
use temporal_rs::options::*;
use temporal_rs::tzdb::FsTzdbProvider;
use temporal_rs::{Calendar, Instant, PlainDateTime, TimeZone, ZonedDateTime};

const ZONES: [&str; 40] = [
    "America/New_York", "Europe/London", "Europe/Dublin", "Australia/Lord_Howe", "Pacific/Apia", "Asia/Kolkata", "Africa/Casablanca", "America/Sao_Paulo", "Asia/Tokyo", "UTC",
    "America/Indiana/Indianapolis", "America/Indiana/Knox", "America/Indiana/Tell_City", "America/Indiana/Vincennes", "America/Argentina/Buenos_Aires", "America/Argentina/Ushuaia",
    "America/Argentina/San_Luis", "America/Kentucky/Louisville", "America/Kentucky/Monticello", "America/North_Dakota/Center", "America/North_Dakota/Beulah", "US/Pacific", "Canada/Pacific",
    "Brazil/West", "Australia/West", "US/Central", "Canada/Central", "Europe/Moscow", "Asia/Pyongyang", "Africa/Monrovia", "Antarctica/Troll", "America/St_Johns", "Asia/Kathmandu",
    "Pacific/Kiritimati", "Etc/GMT+12", "America/Havana", "Asia/Gaza", "Europe/Lisbon", "Africa/Juba", "America/Scoresbysund",
];

#[derive(Clone)]
struct Mismatch {
    op: String,
    zone: String,
    case: serde_json::Value,
    shared: String,
    alone: String,
    round: u64,
    thread: u64,
    step: u64,
}

fn outcome<T: std::fmt::Debug>(o: &Out<T>) -> String {
    match o {
        Out::Ok(v) => format!("Ok({v:?})"),
        Out::Err(k, _) => format!("Err({k})"),
        Out::Panic(l, m) => format!("Panic({l}: {m})"),
    }
}

/// One convenience call and its provider-taking twin; returns (op name, outcome shared, outcome alone, case).
fn one_call(r: &mut Rng, own: &FsTzdbProvider) -> (String, String, String, String, serde_json::Value) {
    let zone = *r.pick(&ZONES);
    let t = match r.below(4) {
        0 => *r.pick(&[1_615_705_200i128, 1_636_264_800, 152_000_000, 130_000_000, 1_325_239_200, -5_000_000_000, 4_100_000_000]) * 1_000_000_000 + r.range128(-7_200, 7_200) * 1_000_000_000,
        1 => r.range128(-8_000_000_000, 8_000_000_000) * 1_000_000_000,
        _ => r.range128(0, 2_000_000_000) * 1_000_000_000 + r.range128(0, 999_999_999),
    };
    let case = json!({"zone": zone, "instant_ns": t.to_string()});
    let tz = TimeZone::try_from_str(zone);
    let Ok(tz) = tz else { return ("TimeZone::try_from_str".into(), zone.into(), "Err".into(), "Err".into(), case) };
    let z = match ZonedDateTime::try_new(t, Calendar::default(), tz.clone()) {
        Ok(z) => z,
        Err(_) => return ("ZonedDateTime::try_new".into(), zone.into(), "Err".into(), "Err".into(), case),
    };
    let (name, a, b): (&str, String, String) = match r.below(17) {
        // a call that fails after the provider has been taken (result out of range): it must return its error, not hang or poison
        14 | 15 => {
            let years = *r.pick(&[300_000.0f64, -300_000.0, 600_000.0]);
            match dur10([years, 0.0, 0.0, 0.0, 0.0, 0.0, 0.0, 0.0, 0.0, 0.0]) {
                Ok(d) if r.bool() => ("ZonedDateTime::add(out of range)", outcome(&call(|| z.add(&d, None)).map(|x| x.epoch_nanoseconds().as_i128())), outcome(&call(|| z.add_with_provider(&d, None, own)).map(|x| x.epoch_nanoseconds().as_i128()))),
                Ok(d) => ("ZonedDateTime::subtract(out of range)", outcome(&call(|| z.subtract(&d, None)).map(|x| x.epoch_nanoseconds().as_i128())), outcome(&call(|| z.subtract_with_provider(&d, None, own)).map(|x| x.epoch_nanoseconds().as_i128()))),
                Err(_) => ("ZonedDateTime::hour", outcome(&call(|| z.hour())), outcome(&call(|| z.hour_with_provider(own)))),
            }
        }
        // a zone given in another spelling of its name (the enum variant is public): the answer must be the one a brand-new
        // provider gives, whoever loaded the canonical spelling before
        16 => {
            let spelled = match r.below(3) {
                0 => zone.to_ascii_lowercase(),
                1 => zone.to_ascii_uppercase(),
                _ => zone.chars().enumerate().map(|(i, c)| if i % 2 == 0 { c.to_ascii_uppercase() } else { c.to_ascii_lowercase() }).collect(),
            };
            if spelled == zone || zone.starts_with('+') || zone.starts_with('-') {
                ("ZonedDateTime::hour", outcome(&call(|| z.hour())), outcome(&call(|| z.hour_with_provider(own))))
            } else {
                match ZonedDateTime::try_new(t, Calendar::default(), TimeZone::IanaIdentifier(spelled)) {
                    Ok(zs) => {
                        let fresh = FsTzdbProvider::default();
                        ("ZonedDateTime::hour(other spelling of the zone name)", outcome(&call(|| zs.hour())), outcome(&call(|| zs.hour_with_provider(&fresh))))
                    }
                    Err(_) => ("ZonedDateTime::hour", outcome(&call(|| z.hour())), outcome(&call(|| z.hour_with_provider(own)))),
                }
            }
        }
        0 => ("ZonedDateTime::hour", outcome(&call(|| z.hour())), outcome(&call(|| z.hour_with_provider(own)))),
        1 => ("ZonedDateTime::offset", outcome(&call(|| z.offset())), outcome(&call(|| z.offset_with_provider(own)))),
        2 => ("ZonedDateTime::to_plain_datetime", outcome(&call(|| z.to_plain_datetime()).map(|x| pdt_local_ns(&x))), outcome(&call(|| z.to_plain_datetime_with_provider(own)).map(|x| pdt_local_ns(&x)))),
        3 => {
            let d = dur10([0.0, r.range(-3, 3) as f64, 0.0, r.range(-40, 40) as f64, r.range(-30, 30) as f64, 0.0, 0.0, 0.0, 0.0, 0.0]);
            match d {
                Ok(d) => ("ZonedDateTime::add", outcome(&call(|| z.add(&d, None)).map(|x| x.epoch_nanoseconds().as_i128())), outcome(&call(|| z.add_with_provider(&d, None, own)).map(|x| x.epoch_nanoseconds().as_i128()))),
                Err(_) => ("ZonedDateTime::hour", outcome(&call(|| z.hour())), outcome(&call(|| z.hour_with_provider(own)))),
            }
        }
        4 | 5 => {
            // until/since, sometimes failing (another time zone with a date largest unit; smallest > largest)
            let other_zone = if r.chance(1, 3) { *r.pick(&ZONES) } else { zone };
            let lu = *r.pick(&[Unit::Hour, Unit::Day, Unit::Month, Unit::Year, Unit::Nanosecond]);
            let su = *r.pick(&[Unit::Nanosecond, Unit::Nanosecond, Unit::Minute, Unit::Year]);
            match TimeZone::try_from_str(other_zone).and_then(|tz2| ZonedDateTime::try_new(t + r.range128(-40_000_000, 40_000_000) * 1_000_000_000, Calendar::default(), tz2)) {
                Ok(z2) => ("ZonedDateTime::until", outcome(&call(|| z.until(&z2, diff_settings(Some(lu), Some(su), None, None))).map(|x| dur_fields(&x))), outcome(&call(|| z.until_with_provider(&z2, diff_settings(Some(lu), Some(su), None, None), own)).map(|x| dur_fields(&x)))),
                Err(_) => ("ZonedDateTime::offset", outcome(&call(|| z.offset())), outcome(&call(|| z.offset_with_provider(own)))),
            }
        }
        6 => ("ZonedDateTime::to_ixdtf_string", outcome(&call(|| z.to_ixdtf_string(DisplayOffset::Auto, DisplayTimeZone::Auto, DisplayCalendar::Auto, ToStringRoundingOptions::default()))), outcome(&call(|| z.to_ixdtf_string_with_provider(DisplayOffset::Auto, DisplayTimeZone::Auto, DisplayCalendar::Auto, ToStringRoundingOptions::default(), own)))),
        7 => ("ZonedDateTime::to_string(Display)", outcome(&call_inf(|| z.to_string())), outcome(&call(|| z.to_ixdtf_string_with_provider(DisplayOffset::Auto, DisplayTimeZone::Auto, DisplayCalendar::Auto, ToStringRoundingOptions::default(), own)))),
        8 => {
            let text = z.to_ixdtf_string_with_provider(DisplayOffset::Auto, DisplayTimeZone::Auto, DisplayCalendar::Auto, ToStringRoundingOptions::default(), own).unwrap_or_default();
            ("ZonedDateTime::from_str", outcome(&call(|| ZonedDateTime::from_str(&text, Disambiguation::Compatible, OffsetDisambiguation::Reject)).map(|x| x.epoch_nanoseconds().as_i128())), outcome(&call(|| ZonedDateTime::from_str_with_provider(&text, Disambiguation::Compatible, OffsetDisambiguation::Reject, own)).map(|x| x.epoch_nanoseconds().as_i128())))
        }
        9 => ("ZonedDateTime::start_of_day", outcome(&call(|| z.start_of_day()).map(|x| x.epoch_nanoseconds().as_i128())), outcome(&call(|| z.start_of_day_with_provider(own)).map(|x| x.epoch_nanoseconds().as_i128()))),
        10 => {
            let d = dur10([0.0, 0.0, 0.0, r.range(1, 3) as f64, 0.0, 0.0, 0.0, 0.0, 0.0, 0.0]);
            match d {
                Ok(d) => ("Duration::total(zoned)", outcome(&call(|| d.total(Unit::Hour, Some(RelativeTo::ZonedDateTime(z.clone())))).map(|x| x.as_inner())), outcome(&call(|| d.total_with_provider(Unit::Hour, Some(RelativeTo::ZonedDateTime(z.clone())), own)).map(|x| x.as_inner()))),
                Err(_) => ("ZonedDateTime::hour", outcome(&call(|| z.hour())), outcome(&call(|| z.hour_with_provider(own)))),
            }
        }
        11 => match Instant::try_new(t) {
            Ok(i) => ("Instant::to_ixdtf_string", outcome(&call(|| i.to_ixdtf_string(Some(&tz), ToStringRoundingOptions::default()))), outcome(&call(|| i.to_ixdtf_string_with_provider(Some(&tz), ToStringRoundingOptions::default(), own)))),
            Err(_) => ("ZonedDateTime::hour", outcome(&call(|| z.hour())), outcome(&call(|| z.hour_with_provider(own)))),
        },
        12 => {
            // a failing call: a zone that does not exist
            let bad = TimeZone::try_from_str("Nowhere/Land").and_then(|tz| ZonedDateTime::try_new(t, Calendar::default(), tz));
            match bad {
                Ok(b) => ("ZonedDateTime::hour(unknown zone)", outcome(&call(|| b.hour())), outcome(&call(|| b.hour_with_provider(own)))),
                Err(_) => ("ZonedDateTime::hour", outcome(&call(|| z.hour())), outcome(&call(|| z.hour_with_provider(own)))),
            }
        }
        _ => match PlainDateTime::new(r.range(1900, 2100) as i32, r.range(1, 12) as u8, r.range(1, 28) as u8, r.range(0, 23) as u8, r.range(0, 59) as u8, 0, 0, 0, 0, Calendar::default()) {
            Ok(p) => ("PlainDateTime::to_zoned_date_time", outcome(&call(|| p.to_zoned_date_time(&tz, Disambiguation::Compatible)).map(|x| x.epoch_nanoseconds().as_i128())), outcome(&call(|| p.to_zoned_date_time_with_provider(&tz, Disambiguation::Compatible, own)).map(|x| x.epoch_nanoseconds().as_i128()))),
            Err(_) => ("ZonedDateTime::hour", outcome(&call(|| z.hour())), outcome(&call(|| z.hour_with_provider(own)))),
        },
    };
    (name.to_string(), zone.to_string(), a, b, case)
}

pub fn run(rep: &mut Report) {
    let mut rng = rep.cfg.rng("c20");
    let rounds = rep.cfg.budget(16 * 12, 16 * 400);
    let nthreads: u64 = 8;
    let steps: u64 = if rep.cfg.thorough() { 1500 } else { 600 };
    let stall_limit = StdDuration::from_secs(90);
    let mut interleavings: HashSet<u64> = HashSet::new();
    let mut total_calls = 0u64;
    let mut switches = 0u64;
    let mut faults = 0u64;
    for round in 0..rounds {
        let round_seed = rng.u64();
        let with_faults = round % 2 == 1;
        if !rep.begin() {
            continue;
        }
        let progress: Arc<Vec<AtomicU64>> = Arc::new((0..nthreads).map(|_| AtomicU64::new(0)).collect());
        let order: Arc<Mutex<Vec<u8>>> = Arc::new(Mutex::new(Vec::new()));
        let mism: Arc<Mutex<Vec<Mismatch>>> = Arc::new(Mutex::new(Vec::new()));
        let stop = Arc::new(AtomicBool::new(false));
        let mut handles = Vec::new();
        for th in 0..nthreads {
            let (progress, order, mism, stop) = (progress.clone(), order.clone(), mism.clone(), stop.clone());
            handles.push(std::thread::spawn(move || {
                let own = FsTzdbProvider::default();
                let mut r = Rng::new(round_seed, "c20-worker", th);
                for step in 0..steps {
                    if stop.load(Ordering::Relaxed) {
                        break;
                    }
                    let (op, zone, shared, alone, case) = one_call(&mut r, &own);
                    if shared != alone {
                        if let Ok(mut m) = mism.lock() {
                            if m.len() < 50 {
                                m.push(Mismatch { op, zone, case, shared, alone, round, thread: th, step });
                            }
                        }
                    }
                    if let Ok(mut o) = order.lock() {
                        if o.len() < 4096 {
                            o.push(th as u8);
                        }
                    }
                    progress[th as usize].fetch_add(1, Ordering::Relaxed);
                    if r.chance(1, 40) {
                        std::thread::yield_now();
                    }
                }
            }));
        }
        // chaos thread: contention and, in fault rounds, panics while the provider is held
        let chaos = {
            let stop = stop.clone();
            std::thread::spawn(move || {
                let mut r = Rng::new(round_seed, "c20-chaos", 99);
                let mut injected = 0u64;
                while !stop.load(Ordering::Relaxed) {
                    std::thread::sleep(StdDuration::from_micros(r.range(50, 3000) as u64));
                    if with_faults && r.chance(1, 4) {
                        let _ = std::panic::catch_unwind(temporal_rs::verif_hooks::panic_while_holding_tz_provider);
                        injected += 1;
                    } else {
                        let hold = r.range(20, 2500) as u64;
                        temporal_rs::verif_hooks::with_tz_provider_locked(|| std::thread::sleep(StdDuration::from_micros(hold)));
                    }
                }
                injected
            })
        };
        // progress monitor on logical counters
        let mut last_total = 0u64;
        let mut last_change = StdInstant::now();
        let mut stalled = false;
        loop {
            std::thread::sleep(StdDuration::from_millis(50));
            let done = handles.iter().all(|h| h.is_finished());
            if done {
                break;
            }
            let tot: u64 = progress.iter().map(|p| p.load(Ordering::Relaxed)).sum();
            if tot != last_total {
                last_total = tot;
                last_change = StdInstant::now();
            } else if last_change.elapsed() > stall_limit {
                stalled = true;
                break;
            }
        }
        stop.store(true, Ordering::Relaxed);
        if stalled {
            let per: Vec<u64> = progress.iter().map(|p| p.load(Ordering::Relaxed)).collect();
            rep.violation("C20.progress", "convenience API under concurrency", if with_faults { "stall,fault-round" } else { "stall,plain-round" }, json!({"round": round, "round_seed": round_seed, "steps_per_thread": per, "stalled_for_s": stall_limit.as_secs()}), format!("no call completed for {} s while {} of {} threads had work left", stall_limit.as_secs(), per.iter().filter(|p| **p < steps).count(), nthreads), "every call returns".into());
            // the blocked threads cannot be joined: leave them and end the workload here
            rep.add("rounds/stalled", 1);
            break;
        }
        for h in handles {
            let _ = h.join();
        }
        faults += chaos.join().unwrap_or(0);
        let done: u64 = progress.iter().map(|p| p.load(Ordering::Relaxed)).sum();
        total_calls += done;
        if let Ok(o) = order.lock() {
            switches += o.windows(2).filter(|w| w[0] != w[1]).count() as u64;
            let mut h = 0xcbf2_9ce4_8422_2325u64;
            for b in o.iter().take(96) {
                h = mix64(h, *b as u64);
            }
            interleavings.insert(h);
        }
        let ms = mism.lock().map(|m| m.clone()).unwrap_or_default();
        for m in ms {
            let kind = if m.shared.starts_with("Err(Error") || m.shared.contains("Unable to acquire") { "error-only-when-shared" } else if m.shared.starts_with("Panic") { "panic-only-when-shared" } else { "different-result" };
            rep.violation("C20.same_as_alone", &m.op, &format!("({kind},{})", if with_faults { "fault-round" } else { "plain-round" }), json!({"zone": m.zone, "case": m.case, "round": m.round, "round_seed": round_seed, "thread": m.thread, "step": m.step}), m.shared, m.alone);
        }
        rep.hit(if with_faults { "rounds/with-faults" } else { "rounds/plain" });
        // after the round (and its injected panics): a single-threaded call must work
        let own = FsTzdbProvider::default();
        let mut r = Rng::new(round_seed, "c20-after", 0);
        for _ in 0..5 {
            let (op, zone, shared, alone, case) = one_call(&mut r, &own);
            if shared != alone {
                rep.violation("C20.after_failed_calls", &op, if with_faults { "after-fault-round" } else { "after-plain-round" }, json!({"zone": zone, "case": case, "round": round}), shared, alone);
            }
        }
    }
    rep.evaluations += total_calls;
    rep.add("calls", total_calls);
    rep.add("thread_switches_in_completion_order", switches);
    rep.add("injected_panics_while_holding_the_provider", faults);
    rep.nontrivial_direct(interleavings.len() as u64);
    rep.extra.insert("distinct_interleaving_prefixes".into(), json!(interleavings.len()));
    for c in ["calls", "thread_switches_in_completion_order", "rounds/plain", "rounds/with-faults", "injected_panics_while_holding_the_provider"] {
        rep.require(c);
    }
}
