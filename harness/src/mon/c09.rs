//! C09 - durations form a consistent signed quantity without a reference date.
//!
//! Oracle: refmodel::dur (exact IsValidDuration, exact totals, BalanceTimeDuration) and
//! refmodel::round for round(); exact rationals for total().

use crate::core::*;
use crate::fp;
use crate::refmodel::dur::{self, *};
use crate::refmodel::round::{round_int, ALL_MODES};
use crate::util::*;
use serde_json::json;
use std::cmp::Ordering;
use temporal_rs::error::ErrorKind;
use temporal_rs::options::Unit;
use temporal_rs::partial::PartialDuration;
use temporal_rs::{Duration, Sign};

const UNIT_NS_ALL: [i128; 10] = [0, 0, 0, NS_DAY, NS_HOUR, NS_MIN, NS_SEC, 1_000_000, 1_000, 1];
const DT_UNITS: [Unit; 7] = [Unit::Day, Unit::Hour, Unit::Minute, Unit::Second, Unit::Millisecond, Unit::Microsecond, Unit::Nanosecond];

fn hostile_value(rng: &mut Rng, idx: usize) -> f64 {
    let base: [f64; 22] = [
        0.0, 1.0, 59.0, 60.0, 999.0, 1000.0, 23.0, 24.0, 25.0,
        4_294_967_295.0, 4_294_967_296.0, 4_294_967_294.0, 4_294_967_297.0,
        9_007_199_254_740_991.0, 9_007_199_254_740_992.0, 9_007_199_254_740_990.0, 9_007_199_254_740_994.0,
        2_147_483_647.0, 2_147_483_648.0, 1e10, 1e15, 3.0,
    ];
    match rng.below(6) {
        0..=2 => *rng.pick(&base),
        3 => rng.range(0, 100_000) as f64,
        4 => {
            // near the per-unit share of the 2^53 s limit
            if idx >= 3 {
                let cap = MAX_TIME_NS_EXCL / UNIT_NS_ALL[idx];
                let v = cap + rng.range128(-3, 3);
                v.max(0) as f64
            } else {
                (TWO32 + rng.range128(-3, 3)) as f64
            }
        }
        _ => {
            if idx >= 3 {
                let cap = MAX_TIME_NS_EXCL / UNIT_NS_ALL[idx];
                rng.range128(0, cap) as f64
            } else {
                rng.range128(0, TWO32) as f64
            }
        }
    }
}

/// Ten-field vectors, valid or not (mixed signs, over the limits ...).
pub fn gen_fields(rng: &mut Rng, calendar_free: bool) -> [f64; 10] {
    let mut v = [0f64; 10];
    let sign = if rng.bool() { 1.0 } else { -1.0 };
    let n = match rng.below(5) {
        0 => 1,
        1 => 2,
        2 => 3,
        3 => 5,
        _ => 10,
    };
    for _ in 0..n {
        let i = if calendar_free { 3 + rng.below(7) as usize } else { rng.below(10) as usize };
        let mut x = hostile_value(rng, i) * sign;
        if rng.chance(1, 40) {
            x = -x; // mixed signs: must be rejected
        }
        v[i] = x;
    }
    for x in v.iter_mut() {
        if *x == 0.0 {
            *x = 0.0;
        }
    }
    v
}

/// A valid, calendar-free duration with mostly moderate totals (so that sums stay valid often).
fn gen_valid_timeish(rng: &mut Rng) -> [f64; 10] {
    loop {
        let mut v = if rng.chance(1, 3) { gen_fields(rng, true) } else { crate::mon::c06::gen_time_fields(rng) };
        if rng.chance(1, 3) {
            let s = if v.iter().any(|x| *x < 0.0) { -1.0 } else { 1.0 };
            v[3] = s * rng.range(0, 400) as f64;
        }
        if dur::is_valid(&v) {
            return v;
        }
    }
}

fn exp_sign(v: &[f64; 10]) -> i8 {
    for x in v {
        if *x > 0.0 {
            return 1;
        }
        if *x < 0.0 {
            return -1;
        }
    }
    0
}

fn sign_i8(s: Sign) -> i8 {
    match s {
        Sign::Positive => 1,
        Sign::Zero => 0,
        Sign::Negative => -1,
    }
}

fn has_calendar(v: &[f64; 10]) -> bool {
    v[0] != 0.0 || v[1] != 0.0 || v[2] != 0.0
}

fn limit_class(v: &[f64; 10]) -> &'static str {
    if v.iter().any(|x| *x > 0.0) && v.iter().any(|x| *x < 0.0) {
        return "mixed-sign";
    }
    for i in 0..3 {
        let a = v[i].abs();
        if a >= 4_294_967_294.0 && a <= 4_294_967_297.0 {
            return "near-2^32";
        }
        if a > 4_294_967_297.0 {
            return "beyond-2^32";
        }
    }
    let t = time_total(v).saturating_abs();
    if (t - MAX_TIME_NS_EXCL).abs() <= 4 * NS_SEC {
        "near-2^53s"
    } else if t >= MAX_TIME_NS_EXCL {
        "beyond-2^53s"
    } else {
        "inside"
    }
}

/// Correctly rounded double of num/den (den > 0), via exact integer scaling.
pub fn div_to_f64(num: i128, den: i128) -> f64 {
    if num == 0 {
        return 0.0;
    }
    let neg = num < 0;
    let n = num.unsigned_abs();
    let d = den as u128;
    // we want 64 significant bits of the quotient plus a sticky bit
    let q0 = n / d;
    let bits = 128 - q0.leading_zeros() as i32; // bit length of integer part (0 if q0 == 0)
    // choose shift so that (n << shift) / d has between 64 and 66 bits; n < 2^84, d < 2^47
    let mut shift: i32 = 64 - bits;
    if q0 == 0 {
        // find leading position of the fraction
        shift = 64 + (128 - n.leading_zeros() as i32 - (128 - d.leading_zeros() as i32)).abs() + 2;
        if shift > 126 - (128 - n.leading_zeros() as i32) {
            shift = 126 - (128 - n.leading_zeros() as i32);
        }
    }
    let (qs, rem_nonzero) = if shift >= 0 {
        let sh = shift.min(127 - (128 - n.leading_zeros() as i32)).max(0) as u32;
        shift = sh as i32;
        let nn = n << sh;
        (nn / d, nn % d != 0)
    } else {
        let sh = (-shift) as u32;
        let qq = q0 >> sh;
        (qq, (q0 & ((1u128 << sh) - 1)) != 0 || n % d != 0)
    };
    // qs * 2^-shift (+ sticky) -> f64 with round-to-nearest-even
    let bl = 128 - qs.leading_zeros() as i32;
    let (mant, exp2) = if bl > 53 {
        let drop = (bl - 53) as u32;
        let mut m = qs >> drop;
        let rest = qs & ((1u128 << drop) - 1);
        let half = 1u128 << (drop - 1);
        if rest > half || (rest == half && (rem_nonzero || (m & 1) == 1)) {
            m += 1;
        }
        (m, drop as i32 - shift)
    } else {
        (qs, -shift)
    };
    let r = (mant as f64) * 2f64.powi(exp2);
    if neg {
        -r
    } else {
        r
    }
}

pub fn run(rep: &mut Report) {
    let prov = NoZones;
    let mut rng = rep.cfg.rng("c09");
    let n = rep.cfg.budget(1_200_000, 120_000_000);
    let mut evals = 0u64;

    // ---- directed validity vectors
    let mut directed: Vec<[f64; 10]> = Vec::new();
    for s in [1.0, -1.0] {
        for i in 0..3 {
            for x in [4_294_967_294.0, 4_294_967_295.0, 4_294_967_296.0, 4_294_967_297.0] {
                let mut v = [0f64; 10];
                v[i] = s * x;
                directed.push(v);
            }
        }
        // exactly 2^53 s - 1 ns, exactly 2^53 s, one past
        directed.push([0., 0., 0., 0., 0., 0., s * 9_007_199_254_740_991.0, s * 999.0, s * 999.0, s * 999.0]);
        directed.push([0., 0., 0., 0., 0., 0., s * 9_007_199_254_740_991.0, s * 999.0, s * 999.0, s * 1000.0]);
        directed.push([0., 0., 0., 0., 0., 0., s * 9_007_199_254_740_992.0, 0., 0., 0.]);
        directed.push([0., 0., 0., s * 104_249_991_374.0, s * 7.0, s * 36.0, s * 31.0, s * 999.0, s * 999.0, s * 999.0]);
        directed.push([0., 0., 0., s * 104_249_991_374.0, s * 7.0, s * 36.0, s * 32.0, 0., 0., 0.]);
        directed.push([0., 0., 0., 0., 0., 0., 0., s * 9_007_199_254_740_991_000.0, s * 999_999.0, 0.]);
        directed.push([0., 0., 0., 0., 0., 0., 0., 0., 0., s * 9.007199254740991e24]);
        directed.push([s * 1.0, 0., 0., 0., 0., 0., 0., 0., 0., -s * 1.0]);
        directed.push([0., 0., 0., s * 1.0, -s * 1.0, 0., 0., 0., 0., 0.]);
    }
    directed.push([0f64; 10]);
    let nd = directed.len() as u64;

    for it in 0..(n + nd) {
        let a = if it < nd { directed[it as usize] } else { gen_fields(&mut rng, rng_free(it, 3)) };
        let b = gen_valid_timeish(&mut rng);
        let c = gen_valid_timeish(&mut rng);
        let unit = DT_UNITS[rng.below(7) as usize];
        let small = DT_UNITS[rng.below(7) as usize];
        let large_sel = rng.below(9);
        let mode = *rng.pick(&ALL_MODES);
        let inc_sel = rng.below(4);
        if (it < nd && !rep.cfg.mine(it)) || !rep.begin() {
            continue;
        }
        evals += 1;

        // ---------------- 1. existence: Duration::new accepts iff IsValidDuration
        let valid = dur::is_valid(&a);
        let lc = limit_class(&a);
        if lc != "inside" {
            rep.nontrivial(fp!(1u64, a[0] as i64, a[1] as i64, a[2] as i64, a[3] as i64, a[6] as i64, a[7] as i64, a[8] as i64, (a[9] / 1e6) as i64));
            rep.hit(&format!("validity/{lc}"));
        }
        let r = call(|| dur10(a));
        let case_a = || json!({"fields": format!("{a:?}"), "time_total_ns": time_total(&a).to_string()});
        match (&r, valid) {
            (Out::Ok(d), true) => {
                if dur_fields(d) != a {
                    rep.violation("C09.valid", "Duration::new", "fields-altered", case_a(), format!("{:?}", dur_fields(d)), format!("{a:?}"));
                }
            }
            (Out::Err(ErrorKind::Range, _), false) => {}
            _ if r.is_broken() => rep.inconclusive("C09.valid", "panic"),
            _ => rep.violation("C09.valid", "Duration::new", &format!("({lc},{})", if valid { "rejected-valid" } else { "accepted-invalid" }), case_a(), r.show_with(|d| format!("{:?}", dur_fields(d))), if valid { "Ok".into() } else { "Err(RangeError)".into() }),
        }
        // from_partial_duration agrees
        {
            let f = |x: f64| Some(crate::util::f(x));
            let p = PartialDuration { years: f(a[0]), months: f(a[1]), weeks: f(a[2]), days: f(a[3]), hours: f(a[4]), minutes: f(a[5]), seconds: f(a[6]), milliseconds: f(a[7]), microseconds: f(a[8]), nanoseconds: f(a[9]) };
            let r = call(|| Duration::from_partial_duration(p));
            match (&r, valid) {
                (Out::Ok(d), true) if dur_fields(d) == a => {}
                (Out::Err(ErrorKind::Range, _), false) => {}
                _ if r.is_broken() => rep.inconclusive("C09.valid", "panic"),
                _ => rep.violation("C09.valid", "Duration::from_partial_duration", &format!("({lc},{})", if valid { "rejected-valid" } else { "accepted-invalid" }), case_a(), r.map(|d| format!("{:?}", dur_fields(&d))).show(), if valid { "Ok".into() } else { "Err(RangeError)".into() }),
            }
        }
        // ---------------- 2. negated / abs / sign fieldwise
        if let Out::Ok(d) = &r {
            if valid {
                let r2 = call_inf(|| (dur_fields(&d.negated()), dur_fields(&d.abs()), sign_i8(d.sign()), d.is_zero(), dur_fields(&d.negated().negated())));
                let neg: Vec<f64> = a.iter().map(|x| if *x == 0.0 { 0.0 } else { -*x }).collect();
                let ab: Vec<f64> = a.iter().map(|x| x.abs()).collect();
                match r2 {
                    Out::Ok((n, b2, s, z, nn)) => {
                        let norm = |v: &[f64; 10]| v.iter().map(|x| if *x == 0.0 { 0.0 } else { *x }).collect::<Vec<f64>>();
                        if norm(&n) != neg || norm(&b2) != ab || s != exp_sign(&a) || z != (exp_sign(&a) == 0) || norm(&nn) != a.to_vec() {
                            rep.violation("C09.signed", "Duration::negated/abs/sign", "fieldwise", case_a(), format!("neg={n:?} abs={b2:?} sign={s} zero={z}"), format!("neg={neg:?} abs={ab:?} sign={}", exp_sign(&a)));
                        }
                    }
                    _ => rep.inconclusive("C09.signed", "panic"),
                }
            }
        }

        // ---------------- 3. add / subtract (b, c valid; sometimes with calendar units to check refusal)
        let mut b2 = b;
        if it % 17 == 0 {
            let s = if b.iter().any(|x| *x < 0.0) { -1.0 } else { 1.0 };
            b2[(it % 3) as usize] = s * (1 + it % 4) as f64;
        }
        if let (Out::Ok(db), Out::Ok(dc)) = (call(|| dur10(b2)), call(|| dur10(c))) {
            for sub in [false, true] {
                let tc = if sub { -time_total(&c) } else { time_total(&c) };
                let total = time_total(&b2) + tc;
                let lu = default_largest(&b2).max(default_largest(&c));
                let cal = has_calendar(&b2) || has_calendar(&c);
                let expected: Result<[f64; 10], ()> = if cal {
                    Err(())
                } else if total.abs() >= MAX_TIME_NS_EXCL {
                    Err(())
                } else {
                    let f = fields_f64(0, 0, 0, balance(total, lu));
                    if dur::is_valid(&f) {
                        Ok(f)
                    } else {
                        Err(())
                    }
                };
                let r = call(|| if sub { db.subtract(&dc) } else { db.add(&dc) });
                let name = if sub { "Duration::subtract" } else { "Duration::add" };
                let shape = format!("({},{},{})", unit_name(lu), if cal { "calendar-units" } else { "calendar-free" }, if expected.is_ok() { "valid-sum" } else { "must-fail" });
                let case = || json!({"a": format!("{b2:?}"), "b": format!("{c:?}"), "exact_sum_ns": total.to_string()});
                match (&r, &expected) {
                    (Out::Ok(g), Ok(e)) if dur_fields(g) == *e => {}
                    (Out::Err(ErrorKind::Range, _), Err(())) => {}
                    _ if r.is_broken() => rep.inconclusive("C09.add", "panic"),
                    _ => rep.violation("C09.add", name, &shape, case(), r.map(|g| format!("{:?}", dur_fields(&g))).show(), format!("{expected:?}")),
                }
                rep.hit("add/evaluated");
            }
            // ---------------- 4. compare(None): order of exact totals
            if !has_calendar(&b2) {
                let exp = time_total(&b2).cmp(&time_total(&c));
                let r = call(|| {
                    let x = db.compare_with_provider(&dc, None, &prov)?;
                    let y = dc.compare_with_provider(&db, None, &prov)?;
                    let z = db.compare_with_provider(&db, None, &prov)?;
                    Ok((x, y, z))
                });
                match &r {
                    Out::Ok((x, y, z)) if *x == exp && *y == exp.reverse() && *z == Ordering::Equal => {}
                    _ if r.is_broken() => rep.inconclusive("C09.compare", "panic"),
                    _ => rep.violation("C09.compare", "Duration::compare(None)", &format!("({:?})", exp), json!({"a": format!("{b2:?}"), "b": format!("{c:?}"), "totals": [time_total(&b2).to_string(), time_total(&c).to_string()]}), r.show(), format!("({exp:?}, {:?}, Equal)", exp.reverse())),
                }
                rep.hit("compare/evaluated");
                if time_total(&b2) == time_total(&c) && b2 != c {
                    rep.hit("compare/equal_totals_different_fields");
                }
            }
        }

        // ---------------- 5. round(None) and total(None) on a valid calendar-free duration
        if let Out::Ok(db) = call(|| dur10(b)) {
            let total = time_total(&b);
            let existing = default_largest(&b);
            // options
            let largest_opt: Option<Unit> = match large_sel {
                0 => None,
                1 => Some(Unit::Auto),
                k => Some(DT_UNITS[(k as usize - 2).min(6)]),
            };
            let smallest_opt = if large_sel % 4 == 3 && largest_opt.is_some() && largest_opt != Some(Unit::Auto) { None } else { Some(small) };
            let su = smallest_opt.unwrap_or(Unit::Nanosecond);
            let resolved_largest = match largest_opt {
                None | Some(Unit::Auto) => existing.max(su),
                Some(u) => u,
            };
            let inc: u32 = if su == Unit::Day {
                if resolved_largest == Unit::Day {
                    [1u32, 1, 2, 7][inc_sel as usize]
                } else {
                    1
                }
            } else {
                let ds = crate::mon::c07::divisors_below(crate::mon::c07::unit_max(su));
                ds[(inc_sel as usize * 7 + it as usize) % ds.len()]
            };
            if resolved_largest >= su {
                let step = inc as i128 * unit_ns(su).unwrap();
                let (rounded, pos) = round_int(total, step, mode);
                let expected: Result<[f64; 10], ()> = if rounded.abs() >= MAX_TIME_NS_EXCL {
                    Err(())
                } else {
                    let f = fields_f64(0, 0, 0, balance(rounded, resolved_largest));
                    if dur::is_valid(&f) {
                        Ok(f)
                    } else {
                        Err(())
                    }
                };
                let r = call(|| db.round_with_provider(round_opts(largest_opt, smallest_opt, Some(mode.to_lib()), Some(inc)), None, &prov));
                let shape = format!("({},{},{},{})", unit_name(resolved_largest), unit_name(su), pos.name(), if total < 0 { "neg" } else { "nonneg" });
                let case = || json!({"duration": format!("{b:?}"), "total_ns": total.to_string(), "largest": largest_opt.map(unit_name), "smallest": smallest_opt.map(unit_name), "inc": inc, "mode": mode.name()});
                match (&r, &expected) {
                    (Out::Ok(g), Ok(e)) if dur_fields(g) == *e => {}
                    (Out::Err(ErrorKind::Range, _), Err(())) => {}
                    _ if r.is_broken() => rep.inconclusive("C09.round", "panic-or-assert"),
                    _ => rep.violation("C09.round", "Duration::round(None)", &shape, case(), r.show_with(|g| format!("{:?}", dur_fields(g))), format!("{expected:?} (rounded total {rounded})")),
                }
                rep.hit("round/evaluated");
                if rounded != total {
                    rep.nontrivial(fp!(5u64, total as u64, (total >> 64) as u64, step as u64, mode as u64, resolved_largest as u64));
                }
                // round(-d, mirrored mode) == -round(d, mode)
                if let (Out::Ok(g), Out::Ok(dn)) = (&r, call(|| dur10(neg_fields(&b)))) {
                    let r2 = call(|| dn.round_with_provider(round_opts(largest_opt, smallest_opt, Some(mode.mirrored().to_lib()), Some(inc)), None, &prov));
                    match &r2 {
                        Out::Ok(g2) if dur_fields(g2) == neg_fields(&dur_fields(g)) => {}
                        _ if r2.is_broken() => rep.inconclusive("C09.round_mirror", "panic"),
                        _ => rep.violation("C09.round_mirror", "Duration::round(None)", &shape, case(), r2.map(|g| format!("{:?}", dur_fields(&g))).show(), format!("{:?}", neg_fields(&dur_fields(g)))),
                    }
                }
            }
            // total
            let uns = unit_ns(unit).unwrap();
            let exact = div_to_f64(total, uns);
            let r = call(|| db.total_with_provider(unit, None, &prov)).map(|x| x.as_inner());
            let case = || json!({"duration": format!("{b:?}"), "total_ns": total.to_string(), "unit": unit_name(unit)});
            match &r {
                Out::Ok(g) => {
                    // `exact` is the correctly rounded double of the exact rational. The clause judged is
                    // *faithful rounding*: the returned double must be `exact` or one of its two neighbours
                    // (i.e. one of the doubles bracketing the exact quotient); nearest-or-not is reported
                    // as a counter only - the property does not state a rounding direction.
                    let ulps = ((g.to_bits() as i128) - (exact.to_bits() as i128)).abs();
                    let same_sign = g.is_sign_negative() == exact.is_sign_negative() || *g == 0.0 || exact == 0.0;
                    if !same_sign || ulps > 1 {
                        let rel = if exact == 0.0 { g.abs() } else { ((g - exact) / exact).abs() };
                        let class = if rel > 1e-9 { "wrong-value" } else { "precision>1ulp" };
                        rep.violation("C09.total", "Duration::total(None)", &format!("({},{class})", unit_name(unit)), case(), format!("{g:e} (bits {:x})", g.to_bits()), format!("{exact:e} (bits {:x})", exact.to_bits()));
                    } else if ulps == 1 {
                        rep.hit("total/faithful_but_not_nearest");
                    }
                }
                _ if r.is_broken() => rep.inconclusive("C09.total", "panic"),
                _ => rep.violation("C09.total", "Duration::total(None)", &format!("({},error)", unit_name(unit)), case(), r.show(), format!("{exact:e}")),
            }
            rep.hit("total/evaluated");
        }
        if it % 100_003 == 0 || it < 2 {
            rep.sample(&format!("s{it}"), || json!({"validity_case": format!("{a:?}"), "model_valid": valid, "limit_class": lc, "add_case": [format!("{b2:?}"), format!("{c:?}")]}));
        }
    }
    rep.evaluations += evals;
    rep.add("cases", evals);
    for c in ["cases", "validity/near-2^32", "validity/near-2^53s", "validity/mixed-sign", "add/evaluated", "compare/evaluated", "round/evaluated", "total/evaluated"] {
        rep.require(c);
    }
}

fn neg_fields(v: &[f64; 10]) -> [f64; 10] {
    let mut o = *v;
    for x in o.iter_mut() {
        if *x != 0.0 {
            *x = -*x;
        }
    }
    o
}

fn rng_free(it: u64, m: u64) -> bool {
    it % m == 0
}

#[cfg(test)]
mod tests {
    use super::div_to_f64;
    #[test]
    fn division_is_correctly_rounded_on_samples() {
        assert_eq!(div_to_f64(3, 2), 1.5);
        assert_eq!(div_to_f64(-3, 2), -1.5);
        assert_eq!(div_to_f64(1, 3), 1.0 / 3.0);
        assert_eq!(div_to_f64(10, 1), 10.0);
        assert_eq!(div_to_f64(86_400_000_000_000, 3_600_000_000_000), 24.0);
        assert_eq!(div_to_f64(1, 86_400_000_000_000), 1.0 / 86_400_000_000_000.0);
        // exact big values
        assert_eq!(div_to_f64(9_007_199_254_740_993_000_000_000, 1_000_000_000), 9_007_199_254_740_992.0);
        assert_eq!(div_to_f64(9_007_199_254_740_995_000_000_000, 1_000_000_000), 9_007_199_254_740_996.0);
        let mut x = 99u64;
        for _ in 0..200_000 {
            let a = (crate::core::splitmix(&mut x) >> 12) as i128;
            let b = ((crate::core::splitmix(&mut x) >> 40) as i128).max(1);
            // f64 division of two exactly representable integers (< 2^53) is correctly rounded
            assert_eq!(div_to_f64(a, b), a as f64 / b as f64, "{a}/{b}");
        }
    }
}
