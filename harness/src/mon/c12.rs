//! C12 - parsers accept exactly the Temporal grammar of their type.
//!
//! Oracle: refmodel::grammar (hand-written recogniser/evaluator, three-valued). Workload:
//! grammar-directed valid strings in every syntactic variant, every single-character
//! deletion / insertion / substitution of them, sampled double mutations, type-rule probes and
//! arbitrary strings, each fed to every goal's parser.

use crate::core::*;
use crate::fp;
use crate::refmodel::civil::*;
use crate::refmodel::dur;
use crate::refmodel::grammar::*;
use crate::util::*;
use serde_json::json;
use std::str::FromStr;
use temporal_rs::error::ErrorKind;
use temporal_rs::options::{Disambiguation, OffsetDisambiguation};
use temporal_rs::{Calendar, Duration, Instant, MonthCode, PlainDate, PlainDateTime, PlainMonthDay, PlainTime, PlainYearMonth, UtcOffset, ZonedDateTime};

const ALPHABET: &[u8] = b"0123456789-+:.,TtZz[]!=uca /P";
const DAY: i128 = 86_400_000_000_000;

fn gen_date_text(rng: &mut Rng) -> String {
    let y = match rng.below(8) {
        0 => rng.range(-271_821, 275_760),
        1 => *rng.pick(&[0i64, 1, 9999, 10_000, -1, 275_760, -271_821, 1972]),
        _ => rng.range(1900, 2100),
    };
    let m = rng.range(1, 12) as u8;
    let d = match rng.below(6) {
        0 => rng.range(28, 31) as u8,
        _ => rng.range(1, dim(y, m) as i64) as u8,
    };
    let ys = if (0..=9999).contains(&y) && !rng.chance(1, 6) { format!("{y:04}") } else if y < 0 { format!("-{:06}", -y) } else { format!("+{y:06}") };
    if rng.chance(1, 4) {
        format!("{ys}{m:02}{d:02}")
    } else {
        format!("{ys}-{m:02}-{d:02}")
    }
}

fn gen_time_text(rng: &mut Rng) -> String {
    let h = rng.range(0, 23);
    let mi = rng.range(0, 59);
    let s = if rng.chance(1, 12) { 60 } else { rng.range(0, 59) };
    let ext = !rng.chance(1, 4);
    let sep = if ext { ":" } else { "" };
    match rng.below(5) {
        0 => format!("{h:02}"),
        1 => format!("{h:02}{sep}{mi:02}"),
        2 => format!("{h:02}{sep}{mi:02}{sep}{s:02}"),
        _ => {
            let nd = rng.range(1, 9) as usize;
            let frac: String = (0..nd).map(|_| (b'0' + rng.below(10) as u8) as char).collect();
            format!("{h:02}{sep}{mi:02}{sep}{s:02}{}{frac}", if rng.chance(1, 4) { "," } else { "." })
        }
    }
}

fn gen_offset_text(rng: &mut Rng) -> String {
    let sign = if rng.bool() { '+' } else { '-' };
    let h = rng.range(0, 23);
    let mi = rng.range(0, 59);
    match rng.below(7) {
        0 => if rng.bool() { "Z".into() } else { "z".into() },
        1 => format!("{sign}{h:02}"),
        2 => format!("{sign}{h:02}{mi:02}"),
        3 | 4 => format!("{sign}{h:02}:{mi:02}"),
        5 => format!("{sign}{h:02}:{mi:02}:{:02}", rng.range(0, 59)),
        _ => format!("{sign}{h:02}:{mi:02}:{:02}.{}", rng.range(0, 59), rng.range(1, 999)),
    }
}

fn gen_annotations(rng: &mut Rng, want_tz: bool) -> String {
    let mut s = String::new();
    if want_tz || rng.chance(1, 3) {
        let crit = if rng.chance(1, 4) { "!" } else { "" };
        let tz = match rng.below(6) {
            0 => "UTC".to_string(),
            1 => format!("{}{:02}:{:02}", if rng.bool() { '+' } else { '-' }, rng.range(0, 23), rng.range(0, 59)),
            2 => format!("{}{:02}", if rng.bool() { '+' } else { '-' }, rng.range(0, 23)),
            3 => "America/New_York".into(),
            4 => "Etc/GMT+5".into(),
            _ => "+00:00".into(),
        };
        s.push_str(&format!("[{crit}{tz}]"));
    }
    let n = rng.below(4);
    for _ in 0..n {
        let crit = if rng.chance(1, 5) { "!" } else { "" };
        match rng.below(6) {
            0 | 1 => s.push_str(&format!("[{crit}u-ca=iso8601]")),
            2 => s.push_str(&format!("[{crit}u-ca={}]", *rng.pick(&["gregory", "hebrew", "ISO8601", "japanese", "Gregory"]))),
            3 => s.push_str(&format!("[{crit}foo=bar]")),
            4 => s.push_str(&format!("[{crit}u-ca=notacal]")),
            _ => s.push_str(&format!("[{crit}x-y=a1-b2]")),
        }
    }
    s
}

/// A grammar-directed (usually valid) string of one of the syntactic families.
pub fn gen_valid(rng: &mut Rng) -> String {
    match rng.below(10) {
        0 => format!("{}{}", gen_date_text(rng), gen_annotations(rng, false)),
        1..=4 => {
            let sep = *rng.pick(&["T", "T", "t", " "]);
            let off = if rng.chance(2, 3) { gen_offset_text(rng) } else { String::new() };
            let want_tz = rng.chance(1, 2);
            format!("{}{sep}{}{off}{}", gen_date_text(rng), gen_time_text(rng), gen_annotations(rng, want_tz))
        }
        5 => {
            let des = *rng.pick(&["", "T", "t"]);
            let off = if rng.chance(1, 3) { gen_offset_text(rng) } else { String::new() };
            format!("{des}{}{off}{}", gen_time_text(rng), gen_annotations(rng, false))
        }
        6 => {
            let d = gen_date_text(rng);
            // year-month short form: drop the day
            let cut = if d.contains('-') && d.rfind('-').unwrap() > 4 { d[..d.rfind('-').unwrap()].to_string() } else { d[..d.len() - 2].to_string() };
            format!("{cut}{}", gen_annotations(rng, false))
        }
        7 => {
            let m = rng.range(1, 12);
            let d = rng.range(1, 31);
            let pre = if rng.chance(1, 3) { "--" } else { "" };
            let sep = if rng.chance(1, 3) { "" } else { "-" };
            format!("{pre}{m:02}{sep}{d:02}{}", gen_annotations(rng, false))
        }
        _ => gen_duration_text(rng),
    }
}

pub fn gen_duration_text(rng: &mut Rng) -> String {
    let mut s = String::new();
    if rng.chance(1, 3) {
        s.push(if rng.bool() { '-' } else { '+' });
    }
    s.push(if rng.chance(1, 8) { 'p' } else { 'P' });
    let num = |rng: &mut Rng| -> String {
        match rng.below(6) {
            0 => rng.range(0, 9).to_string(),
            1 => rng.range(0, 5000).to_string(),
            2 => "4294967295".into(),
            3 => "4294967296".into(),
            4 => rng.range(0, 9_007_199_254_740_992).to_string(),
            _ => rng.range(0, 100).to_string(),
        }
    };
    let mut any = false;
    for c in ['Y', 'M', 'W', 'D'] {
        if rng.chance(1, 3) {
            s.push_str(&num(rng));
            s.push(if rng.chance(1, 10) { c.to_ascii_lowercase() } else { c });
            any = true;
        }
    }
    if rng.chance(2, 3) || !any {
        s.push(if rng.chance(1, 10) { 't' } else { 'T' });
        let picks: Vec<char> = ['H', 'M', 'S'].into_iter().filter(|_| rng.bool()).collect();
        let picks = if picks.is_empty() { vec!['S'] } else { picks };
        for (i, c) in picks.iter().enumerate() {
            s.push_str(&num(rng));
            if i == picks.len() - 1 && rng.chance(1, 2) {
                let nd = rng.range(1, 9) as usize;
                s.push(if rng.chance(1, 4) { ',' } else { '.' });
                for _ in 0..nd {
                    s.push((b'0' + rng.below(10) as u8) as char);
                }
            }
            s.push(*c);
        }
    }
    s
}

fn mutate(s: &str, rng: &mut Rng) -> String {
    let mut b = s.as_bytes().to_vec();
    if b.is_empty() {
        return "0".into();
    }
    let pos = rng.below(b.len() as u64 + 1) as usize;
    match rng.below(3) {
        0 if pos < b.len() => {
            b.remove(pos);
        }
        1 => b.insert(pos, *rng.pick(ALPHABET)),
        _ => {
            let p = pos.min(b.len() - 1);
            b[p] = *rng.pick(ALPHABET);
        }
    }
    String::from_utf8_lossy(&b).to_string()
}

const PROBES: &[&str] = &[
    "2020-01-01T00:00Z", "2020-01-01T00:00z", "2020-01-01T00:00", "2020-01-01", "2020-01-01T00:00+00:00", "2020-01-01T00:00+00:00[UTC]", "2020-01-01T00:00Z[UTC]", "2020-01-01[UTC]",
    "2020-01-01T00:00[UTC]", "2020-01-01T00:00+01:00[UTC]", "2020-01-01T00:00+05:30[+05:30]", "2020-01-01T00:00:00+05:30:00[+05:30]", "2020-01-01T00:00:00+05:30:01[+05:30]", "2020-01-01T00:00Z[+05:30]",
    "2020-01-01[!foo=bar]", "2020-01-01[foo=bar]", "2020-01-01[u-ca=iso8601][!u-ca=gregory]", "2020-01-01[!u-ca=iso8601][u-ca=gregory]", "2020-01-01[u-ca=iso8601][u-ca=gregory]", "2020-01-01[u-ca=gregory][u-ca=iso8601]",
    "2020-01-01T12:00:00.123456789", "2020-01-01T12:00:00.1234567890", "2020-01-01T12:00:00,5", "-000000-01-01", "+000000-01-01", "-000001-01-01", "+0002020-01-01", "02020-01-01",
    "2020-05[u-ca=gregory]", "2020-05[u-ca=iso8601]", "2020-05[u-ca=ISO8601]", "05-17[u-ca=hebrew]", "05-17[u-ca=iso8601]", "2020-05-17[u-ca=hebrew]", "2020-02-30", "2021-02-29", "2020-02-29", "2020-04-31", "2020-13-01", "2020-00-10", "2020-01-00", "2020-01-32",
    "2020-01-01T24:00", "2020-01-01T23:60", "2020-01-01T23:59:60", "2020-01-01T23:59:61", "2020-01-01T23:59:60.5", "05-17[u-ca=iso8601]junk", "2020-05[u-ca=iso8601]junk", "2020-05-17junk", "2020-05-17T12junk",
    "2020-05-17T12:00[UTC]junk", "02-29", "02-30", "--02-29", "--0230", "0229", "1230", "12:30", "T1230", "T12:30:00", "t12", "12", "2020-05", "202005", "+002020-05", "2020-5", "20-05", "2020-05-17T", "2020-05-17 12:00", "2020-05-17  12:00",
    "2020-05-17T12:00+", "2020-05-17T12:00+1", "2020-05-17T12:00+24:00", "2020-05-17T12:00+23:60", "2020-05-17T12:00-00:00", "2020-05-17T12:00\u{2212}01:00", "2020-05-17T12:00[]", "2020-05-17T12:00[!]", "2020-05-17T12:00[UTC", "2020-05-17T12:00UTC]",
    "2020-05-17T12:00[UTC][UTC]", "2020-05-17T12:00[u-ca=iso8601][UTC]", "2020-05-17T12:00[U-CA=iso8601]", "2020-05-17T12:00[u-ca=]", "2020-05-17T12:00[=iso8601]", "2020-05-17T12:00[u-ca=iso_8601]", "", " ", "2020-05-17 ", " 2020-05-17", "２０２０-05-17",
    "+275760-09-13", "+275760-09-14", "-271821-04-19", "-271821-04-18", "+275760-09-13T00:00Z", "+275760-09-13T00:00:00.000000001Z", "-271821-04-20T00:00Z", "-271821-04-19T23:59:59.999999999Z", "-271821-04-19T00:00:00.000000001", "-271821-04-19T00:00",
    "+275760-09-13T23:59:59.999999999", "+275760-09", "+275760-10", "-271821-04", "-271821-03",
    "2020-05-17T12:00[u-cT=iso8601]", "2020-05-17T12:00[UTC][u-c,=iso8601]", "2020-05-17T12:00[u-ca==iso8601]", "2020-05-17T12:00[foo=b_r]", "2020-05-17T12:00[UTC ]", "2020-05-17T12:00[UTC/]",
    "2020-05[u-ca=iso8601]junk", "05-17[UTC]junk", "2020-05-17T12:00[x-y=a1-2]", "2020-05-17T12:00[x-y=a1-b]", "12:00[f=bar]", "2020-05-17[foo8bar]", "2020-05-17[u-caiso8601]", "2020-05-17T12:00+17:3444", "2020-05-17T12:00-10:1902[UTC]", "16:05-00:2427", "2020-05-17T12:00+15:34:", "2020-05-17T12:00+21:54:60", "2020-05-17T12:00+21:54:60[UTC]", "2020-05-17T12:00+15:34:[UTC]", "2020-05-17T12:00[foo=b]", "2020-05-17T12:00[_x=ab]", "2020-05-17T12:00+1[UTC]", "2020-05-17T12:00[UTC][", "P1D1D", "PT1H1H", "2020-05-17T12:00[!]", "2020-05-17T12:00[]",
    "P1Y", "PT0S", "P", "PT", "+P1D", "-P1D", "P1DT", "P1M1Y", "PT1M1H", "P1.5D", "PT1.5H", "PT1.5H30M", "PT0.1234567890S", "PT1,5S", "P1Y2M3W4DT5H6M7.008009010S", "p1y2m3w4dt5h6m7s", "P-1D", "P1D1D", "P4294967295Y", "P4294967296Y", "PT9007199254740991S", "PT9007199254740992S",
    "PT9007199254740991.999999999S", "P104249991374DT7H36M31.999999999S", "P104249991374DT7H36M32S", "\u{2212}P1D",
];

struct Cx {
    evals: u64,
}

fn judge_value<T: PartialEq + std::fmt::Debug>(rep: &mut Report, cx: &mut Cx, goal: &str, s: &str, class: &str, exp: &Verdict<T>, got: Out<T>) {
    cx.evals += 1;
    let case = || json!({"text": s, "goal": goal});
    // disagreements on strings with lexically peculiar annotation content are keyed by that peculiarity
    // (the annotation lexer is the ixdtf dependency's), independent of the goal
    let dur_tag = if goal == "Duration" && duration_repeats_designator(s) { Some("duration-repeated-designator") } else { None };
    if let Some(tag) = dur_tag.or_else(|| if goal == "Duration" || goal == "MonthCode" || goal == "UtcOffset" { None } else { lexical_tag(s) }) {
        let outcome = match (exp, &got) {
            (Verdict::Undecided(_), _) => None,
            (_, g) if g.is_broken() => None,
            (Verdict::Accept(e), Out::Ok(g)) => if g == e { None } else { Some("wrong-value") },
            (Verdict::Accept(_), _) => Some("rejected-valid"),
            (Verdict::Reject, Out::Ok(_)) => Some("accepted-invalid"),
            (Verdict::Reject, Out::Err(ErrorKind::Range, _)) => None,
            (Verdict::Reject, _) => Some("wrong-error-kind"),
        };
        if let Some(o) = outcome {
            rep.violation("C12.dependency_lexer", "ixdtf-lexer", &format!("{tag}/{o}"), case(), got.show(), format!("{exp:?}"));
            return;
        }
    }
    match exp {
        Verdict::Undecided(why) => rep.hit(&format!("undecided/{why}")),
        Verdict::Accept(e) => {
            rep.hit(&format!("model_accepts/{goal}"));
            match &got {
                Out::Ok(g) if g == e => {}
                _ if got.is_broken() => rep.inconclusive("C12.accept", "panic"),
                Out::Ok(_) => rep.violation("C12.value", goal, class, case(), got.show(), format!("{e:?}")),
                _ => rep.violation("C12.accept", goal, &format!("{class}/rejected-valid"), case(), got.show(), format!("Ok({e:?})")),
            }
        }
        Verdict::Reject => {
            rep.hit(&format!("model_rejects/{goal}"));
            match &got {
                Out::Err(ErrorKind::Range, _) => {}
                _ if got.is_broken() => rep.inconclusive("C12.reject", "panic"),
                Out::Ok(_) => rep.violation("C12.reject", goal, &format!("{class}/accepted-invalid"), case(), got.show(), "Err(RangeError)".into()),
                _ => rep.violation("C12.reject", goal, &format!("{class}/wrong-error-kind"), case(), got.show(), "Err(RangeError)".into()),
            }
        }
    }
}

/// "P1D1D": the same designator twice in a row (accepted by the dependency's duration lexer).
fn duration_repeats_designator(s: &str) -> bool {
    let up: Vec<u8> = s.bytes().filter(|c| c.is_ascii_alphabetic()).map(|c| c.to_ascii_uppercase()).collect();
    up.windows(2).any(|w| w[0] == w[1] && w[0] != b'P')
}

fn feature_class(s: &str) -> &'static str {
    if s.starts_with('P') || s.starts_with('p') || s.starts_with("-P") || s.starts_with("+P") {
        "duration"
    } else if s.contains("[u-ca") || s.contains("[!u-ca") {
        "calendar-annotation"
    } else if s.contains('[') {
        "annotation"
    } else if s.contains('Z') || s.contains('z') {
        "utc-designator"
    } else if s.len() > 10 && s.as_bytes()[10..].iter().any(|c| *c == b'+' || *c == b'-') {
        "offset"
    } else if s.contains('.') || s.contains(',') {
        "fraction"
    } else if s.starts_with('+') || s.starts_with('-') {
        "extended-year"
    } else {
        "plain"
    }
}

fn eval_all(rep: &mut Report, cx: &mut Cx, s: &str, origin: &str) {
    let prov = NoZones;
    let class = format!("{origin},{}", feature_class(s));
    let map_val = |v: Verdict<Val>, f: &dyn Fn(&Val) -> Option<(i128, String)>| -> Verdict<(i128, String)> {
        match v {
            Verdict::Accept(x) => match f(&x) {
                Some(t) => Verdict::Accept(t),
                None => Verdict::Undecided("model-value-shape"),
            },
            Verdict::Reject => Verdict::Reject,
            Verdict::Undecided(w) => Verdict::Undecided(w),
        }
    };
    // PlainDate
    let exp = map_val(judge(s, &Goal::Date), &|v| if let Val::Date(k, c) = v { Some((*k as i128, c.clone())) } else { None });
    let got = call(|| PlainDate::from_str(s)).map(|p| (pdate_days(&p) as i128, p.calendar().identifier().to_string()));
    judge_value(rep, cx, "PlainDate", s, &class, &exp, got);
    // PlainDateTime
    let exp = map_val(judge(s, &Goal::DateTime), &|v| if let Val::DateTime(l, c) = v { Some((*l, c.clone())) } else { None });
    let got = call(|| PlainDateTime::from_str(s)).map(|p| (pdt_local_ns(&p), p.calendar().identifier().to_string()));
    judge_value(rep, cx, "PlainDateTime", s, &class, &exp, got);
    // PlainTime
    let exp = map_val(judge(s, &Goal::Time), &|v| if let Val::Time(t) = v { Some((*t as i128, String::new())) } else { None });
    let got = call(|| PlainTime::from_str(s)).map(|p| (ptime_ns(&p), String::new()));
    judge_value(rep, cx, "PlainTime", s, &class, &exp, got);
    // PlainYearMonth
    let exp = map_val(judge(s, &Goal::YearMonth), &|v| if let Val::YearMonth(y, m) = v { Some((*y as i128 * 12 + *m as i128, String::new())) } else { None });
    let got = call(|| PlainYearMonth::from_str(s)).map(|p| (p.iso_year() as i128 * 12 + p.iso_month() as i128, String::new()));
    judge_value(rep, cx, "PlainYearMonth", s, &class, &exp, got);
    // PlainMonthDay
    let exp = map_val(judge(s, &Goal::MonthDay), &|v| if let Val::MonthDay(m, d) = v { Some((*m as i128 * 100 + *d as i128, String::new())) } else { None });
    let got = call(|| PlainMonthDay::from_str(s)).map(|p| (p.iso_month() as i128 * 100 + p.iso_day() as i128, String::new()));
    judge_value(rep, cx, "PlainMonthDay", s, &class, &exp, got);
    // Instant
    let exp = map_val(judge(s, &Goal::Instant), &|v| if let Val::Instant(i) = v { Some((*i, String::new())) } else { None });
    let got = call(|| Instant::from_str(s)).map(|p| (p.as_i128(), String::new()));
    judge_value(rep, cx, "Instant", s, &class, &exp, got);
    // ZonedDateTime (offset zones and the named zone UTC only; other names need zone rules: undecided)
    let exp: Verdict<(i128, String)> = match judge(s, &Goal::Zoned) {
        Verdict::Accept(Val::Zoned { local, has_time, off, tz, cal }) => {
            let zone_off: Option<i128> = match &tz {
                Tz::OffsetMinutes(m) => Some(*m as i128 * 60_000_000_000),
                Tz::Name(n) if n == "UTC" => Some(0),
                _ => None,
            };
            match zone_off {
                None => Verdict::Undecided("zoned string over a named zone other than UTC"),
                Some(zo) => {
                    let _ = has_time;
                    let inst: Result<i128, ()> = match off {
                        None => Ok(local - zo),
                        Some(Off::Z) => Ok(local),
                        Some(Off::Ns(o, _)) => {
                            if o as i128 == zo {
                                Ok(local - zo)
                            } else {
                                Err(())
                            }
                        }
                    };
                    match inst {
                        Err(()) => Verdict::Reject,
                        Ok(i) => {
                            let local_day = local.div_euclid(DAY);
                            if i.abs() > 100_000_000 * DAY {
                                Verdict::Reject
                            } else if local_day.abs() > 100_000_000 {
                                Verdict::Undecided("zoned wall-clock date outside CheckISODaysRange")
                            } else {
                                Verdict::Accept((i, format!("{}|{cal}", match &tz { Tz::OffsetMinutes(m) => format!("{}{:02}:{:02}", if *m < 0 { '-' } else { '+' }, m.abs() / 60, m.abs() % 60), Tz::Name(n) => n.clone() })))
                            }
                        }
                    }
                }
            }
        }
        Verdict::Accept(_) => Verdict::Undecided("model-value-shape"),
        Verdict::Reject => Verdict::Reject,
        Verdict::Undecided(w) => Verdict::Undecided(w),
    };
    let got = call(|| ZonedDateTime::from_str_with_provider(s, Disambiguation::Compatible, OffsetDisambiguation::Reject, &prov)).map(|z| (z.epoch_nanoseconds().as_i128(), format!("{}|{}", z.timezone().identifier().unwrap_or_default(), z.calendar().identifier())));
    judge_value(rep, cx, "ZonedDateTime", s, &class, &exp, got);
    // Duration
    let exp: Verdict<[f64; 10]> = match duration(s) {
        Verdict::Accept(f) => {
            let v: Vec<f64> = f.iter().map(|x| *x as f64).collect();
            let arr: [f64; 10] = [v[0], v[1], v[2], v[3], v[4], v[5], v[6], v[7], v[8], v[9]];
            if dur::is_valid(&arr) {
                Verdict::Accept(arr.map(|x| if x == 0.0 { 0.0 } else { x }))
            } else {
                Verdict::Reject
            }
        }
        Verdict::Reject => Verdict::Reject,
        Verdict::Undecided(w) => Verdict::Undecided(w),
    };
    let got = call(|| Duration::from_str(s)).map(|d| dur_fields(&d).map(|x| if x == 0.0 { 0.0 } else { x }));
    judge_value(rep, cx, "Duration", s, &class, &exp, got);
    // MonthCode: M + two digits + optional L
    {
        let b = s.as_bytes();
        let ok = (b.len() == 3 || b.len() == 4) && b[0] == b'M' && b[1].is_ascii_digit() && b[2].is_ascii_digit() && (b.len() == 3 || b[3] == b'L');
        let exp = if ok { Verdict::Accept(s.to_string()) } else { Verdict::Reject };
        let got = call(|| MonthCode::from_str(s)).map(|m| m.as_str().to_string());
        judge_value(rep, cx, "MonthCode", s, &class, &exp, got);
    }
    // UtcOffset (time zone identifier form: minute precision)
    {
        let b = s.as_bytes();
        let digits = |x: &[u8]| x.len() == 2 && x[0].is_ascii_digit() && x[1].is_ascii_digit();
        let val = |x: &[u8]| ((x[0] - b'0') * 10 + (x[1] - b'0')) as i64;
        let mut exp: Verdict<i64> = Verdict::Reject;
        if !b.is_empty() && (b[0] == b'+' || b[0] == b'-') {
            let sg = if b[0] == b'-' { -1 } else { 1 };
            let r = &b[1..];
            let hm: Option<(i64, i64)> = if r.len() == 2 && digits(r) {
                Some((val(r), 0))
            } else if r.len() == 4 && digits(&r[0..2]) && digits(&r[2..4]) {
                Some((val(&r[0..2]), val(&r[2..4])))
            } else if r.len() == 5 && digits(&r[0..2]) && r[2] == b':' && digits(&r[3..5]) {
                Some((val(&r[0..2]), val(&r[3..5])))
            } else {
                None
            };
            match hm {
                Some((h, m)) if h <= 23 && m <= 59 => exp = Verdict::Accept(sg * (h * 60 + m)),
                Some(_) => {}
                None => {
                    // longer forms carry seconds: a time zone *identifier* has minute precision only; whether the
                    // library's lenient reading (seconds ignored) is acceptable is outside the property's list
                    if r.len() > 5 {
                        exp = Verdict::Undecided("utc offset string with a seconds part");
                    }
                }
            }
        }
        let got = call(|| UtcOffset::from_str(s)).map(|o| {
            let t = o.to_string().unwrap_or_default();
            let b = t.as_bytes();
            if b.len() == 6 {
                let v = ((b[1] - b'0') as i64 * 10 + (b[2] - b'0') as i64) * 60 + (b[4] - b'0') as i64 * 10 + (b[5] - b'0') as i64;
                if b[0] == b'-' { -v } else { v }
            } else {
                i64::MIN
            }
        });
        judge_value(rep, cx, "UtcOffset", s, &class, &exp, got);
    }
    // Calendar::from_str: an identifier, or a date-time family string carrying (or not) a calendar annotation
    {
        let l = s.to_ascii_lowercase();
        let exp: Verdict<String> = if KNOWN_CALENDARS.contains(&l.as_str()) && s.is_ascii() {
            Verdict::Accept(if l == "islamicc" { "islamic-civil".into() } else { l })
        } else {
            match judge(s, &Goal::DateTime) {
                Verdict::Accept(Val::DateTime(_, c)) => Verdict::Accept(c),
                // other allowed forms (time, year-month, month-day, Z strings) are not modelled here
                _ => Verdict::Undecided("calendar from a non date-time string"),
            }
        };
        let got = call(|| Calendar::from_str(s)).map(|c| c.identifier().to_string());
        judge_value(rep, cx, "Calendar", s, &class, &exp, got);
    }
}

pub fn run(rep: &mut Report) {
    let mut rng = rep.cfg.rng("c12");
    let n = rep.cfg.budget(250_000, 25_000_000);
    let mut cx = Cx { evals: 0 };
    // probes (directed)
    for (i, p) in PROBES.iter().enumerate() {
        if rep.cfg.mine(i as u64) && rep.begin() {
            eval_all(rep, &mut cx, p, "probe");
            rep.nontrivial(fp!(0u64, hash_str(p)));
        }
    }
    // every single-character mutation of a handful of canonical strings (complete, shard-split)
    let seeds = ["2020-02-29T12:34:56.789+05:30[+05:30][u-ca=iso8601]", "+002020-05-17T23:59:60Z", "20200517T1234", "2020-05", "05-17", "T12:34:56,5", "-P1Y2M3W4DT5H6M7.5S", "2020-05-17T12:00+00:00[UTC][!u-ca=gregory][foo=bar]"];
    let mut mi = 0u64;
    for sd in seeds {
        let b = sd.as_bytes();
        for pos in 0..=b.len() {
            for op in 0..3 {
                let variants: Vec<Vec<u8>> = match op {
                    0 if pos < b.len() => {
                        let mut v = b.to_vec();
                        v.remove(pos);
                        vec![v]
                    }
                    1 => ALPHABET.iter().map(|c| { let mut v = b.to_vec(); v.insert(pos, *c); v }).collect(),
                    2 if pos < b.len() => ALPHABET.iter().map(|c| { let mut v = b.to_vec(); v[pos] = *c; v }).collect(),
                    _ => vec![],
                };
                for v in variants {
                    mi += 1;
                    if !rep.cfg.mine(mi) || !rep.begin() {
                        continue;
                    }
                    let s = String::from_utf8_lossy(&v).to_string();
                    eval_all(rep, &mut cx, &s, "mut1-directed");
                    rep.nontrivial(fp!(1u64, hash_str(&s)));
                }
            }
        }
    }
    rep.add("directed_single_mutations", mi);
    // random: valid strings, their single and double mutations, arbitrary strings
    for it in 0..n {
        let base = gen_valid(&mut rng);
        let s = match it % 5 {
            0 | 1 => base.clone(),
            2 | 3 => mutate(&base, &mut rng),
            _ => {
                if rng.chance(1, 3) {
                    // arbitrary printable string
                    let len = rng.range(0, 24) as usize;
                    (0..len).map(|_| *rng.pick(ALPHABET) as char).collect()
                } else {
                    let m1 = mutate(&base, &mut rng);
                    mutate(&m1, &mut rng)
                }
            }
        };
        if !rep.begin() {
            continue;
        }
        let origin = match it % 5 {
            0 | 1 => "generated",
            2 | 3 => "mut1",
            _ => "mut2-or-arbitrary",
        };
        eval_all(rep, &mut cx, &s, origin);
        rep.nontrivial(fp!(2u64, hash_str(&s)));
        if it % 50_021 == 0 {
            rep.sample(&format!("s{it}"), || json!({"text": s, "origin": origin, "goals": 11}));
        }
    }
    rep.evaluations += cx.evals;
    rep.add("evaluations", cx.evals);
    for g in ["PlainDate", "PlainDateTime", "PlainTime", "PlainYearMonth", "PlainMonthDay", "Instant", "ZonedDateTime", "Duration"] {
        rep.require(&format!("model_accepts/{g}"));
        rep.require(&format!("model_rejects/{g}"));
    }
}

/// Debugging aid for `tvh parse <string>...`.
pub fn show(s: &str) {
    let prov = NoZones;
    println!("== {s:?}");
    println!("   readings: {:?}", readings(s));
    println!("   PlainDate      impl={:<60} model={:?}", call(|| PlainDate::from_str(s)).map(|p| p.to_string()).show(), judge(s, &Goal::Date));
    println!("   PlainDateTime  impl={:<60} model={:?}", call(|| PlainDateTime::from_str(s)).map(|p| p.to_string()).show(), judge(s, &Goal::DateTime));
    println!("   PlainTime      impl={:<60} model={:?}", call(|| PlainTime::from_str(s)).map(|p| fmt_ns_of_day(ptime_ns(&p))).show(), judge(s, &Goal::Time));
    println!("   PlainYearMonth impl={:<60} model={:?}", call(|| PlainYearMonth::from_str(s)).map(|p| p.to_string()).show(), judge(s, &Goal::YearMonth));
    println!("   PlainMonthDay  impl={:<60} model={:?}", call(|| PlainMonthDay::from_str(s)).map(|p| p.to_string()).show(), judge(s, &Goal::MonthDay));
    println!("   Instant        impl={:<60} model={:?}", call(|| Instant::from_str(s)).map(|p| p.as_i128()).show(), judge(s, &Goal::Instant));
    println!("   ZonedDateTime  impl={:<60} model={:?}", call(|| ZonedDateTime::from_str_with_provider(s, Disambiguation::Compatible, OffsetDisambiguation::Reject, &prov)).map(|z| z.epoch_nanoseconds().as_i128()).show(), judge(s, &Goal::Zoned));
    println!("   Duration       impl={:<60} model={:?}", call(|| Duration::from_str(s)).map(|d| d.to_string()).show(), duration(s));
}
