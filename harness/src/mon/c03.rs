//! C03 - no public operation panics or reports an internal-assertion failure.
//!
//! The oracle is the call wrapper itself: every call into /repo runs under catch_unwind in the overflow-checking,
//! debug-asserting build and every panic / `ErrorKind::Assert` is recorded in the run's registry (core::broken_registry),
//! keyed by panic location. This monitor adds a storm over the API surface with hostile but finite arguments and
//! arbitrary strings; the driver additionally harvests the registries of every other monitor's workload.

use crate::core::*;
use crate::mon::c09::gen_fields;
use crate::mon::c13::CALS_FOR_STORM;
use crate::refmodel::civil::*;
use crate::util::*;
use crate::zones::*;
use serde_json::json;
use std::str::FromStr;
use temporal_rs::options::*;
use temporal_rs::parsers::Precision;
use temporal_rs::partial::{PartialDate, PartialDateTime, PartialDuration, PartialTime};
use temporal_rs::provider::TransitionDirection;
use temporal_rs::{Calendar, Duration, Instant, MonthCode, PlainDate, PlainDateTime, PlainMonthDay, PlainTime, PlainYearMonth, TimeZone, UtcOffset, ZonedDateTime};

fn hi32(rng: &mut Rng) -> i32 {
    match rng.below(12) {
        0 => i32::MIN,
        1 => i32::MAX,
        2 => -271_821,
        3 => 275_760,
        4 => -271_822,
        5 => 275_761,
        6 => 0,
        7 => rng.range(-300_000, 300_000) as i32,
        8 => rng.range(i32::MIN as i64, i32::MAX as i64) as i32,
        _ => rng.range(-3000, 4000) as i32,
    }
}
fn hu8(rng: &mut Rng) -> u8 {
    *rng.pick(&[0u8, 1, 2, 12, 13, 28, 29, 30, 31, 32, 59, 60, 61, 99, 127, 128, 254, 255])
}
fn hu16(rng: &mut Rng) -> u16 {
    *rng.pick(&[0u16, 1, 500, 999, 1000, 1001, 32767, 65535])
}
fn unit(rng: &mut Rng) -> Option<Unit> {
    if rng.chance(1, 6) {
        None
    } else {
        Some(*rng.pick(&[Unit::Auto, Unit::Nanosecond, Unit::Microsecond, Unit::Millisecond, Unit::Second, Unit::Minute, Unit::Hour, Unit::Day, Unit::Week, Unit::Month, Unit::Year]))
    }
}
fn mode(rng: &mut Rng) -> Option<RoundingMode> {
    if rng.chance(1, 4) {
        None
    } else {
        Some(*rng.pick(&MODES))
    }
}
fn incr(rng: &mut Rng) -> Option<RoundingIncrement> {
    let v = *rng.pick(&[1u32, 1, 2, 3, 7, 24, 25, 60, 1000, 999_999_999, 1_000_000_000, 86_400, 0, u32::MAX]);
    RoundingIncrement::try_new(v).ok()
}
fn diffs(rng: &mut Rng) -> DifferenceSettings {
    let mut s = DifferenceSettings::default();
    s.largest_unit = unit(rng);
    s.smallest_unit = unit(rng);
    s.rounding_mode = mode(rng);
    s.increment = incr(rng);
    s
}
fn rounds(rng: &mut Rng) -> RoundingOptions {
    let mut s = RoundingOptions::default();
    s.largest_unit = unit(rng);
    s.smallest_unit = unit(rng);
    s.rounding_mode = mode(rng);
    s.increment = incr(rng);
    s
}
fn tostr(rng: &mut Rng) -> ToStringRoundingOptions {
    ToStringRoundingOptions {
        precision: match rng.below(4) {
            0 => Precision::Auto,
            1 => Precision::Minute,
            _ => Precision::Digit(rng.below(12) as u8),
        },
        smallest_unit: unit(rng),
        rounding_mode: mode(rng),
    }
}
fn overflow(rng: &mut Rng) -> Option<ArithmeticOverflow> {
    *rng.pick(&[None, Some(ArithmeticOverflow::Constrain), Some(ArithmeticOverflow::Reject)])
}
fn calendar(rng: &mut Rng) -> Calendar {
    Calendar::from_str(*rng.pick(&CALS_FOR_STORM)).unwrap_or_default()
}
fn duration(rng: &mut Rng) -> Option<Duration> {
    let free = rng.bool();
    let v = gen_fields(rng, free);
    dur10(v).ok()
}
fn near_duration(rng: &mut Rng) -> Option<Duration> {
    let sg = if rng.bool() { 1.0 } else { -1.0 };
    let v = [0.0, sg * *rng.pick(&[0.0, 0.0, 1.0, 13.0]), sg * *rng.pick(&[0.0, 0.0, 1.0]), sg * rng.range(0, 3) as f64, sg * *rng.pick(&[0.0, 1.0, 23.0, 24.0, 25.0, 47.0, 49.0]), sg * *rng.pick(&[0.0, 0.0, 30.0, 59.0]), 0.0, 0.0, 0.0, sg * *rng.pick(&[0.0, 0.0, 1.0])];
    dur10(v).ok()
}
fn date(rng: &mut Rng) -> Option<PlainDate> {
    let (y, m, d) = if rng.chance(1, 3) { (hi32(rng), hu8(rng), hu8(rng)) } else { (rng.range(-271_821, 275_760) as i32, rng.range(1, 12) as u8, rng.range(1, 31) as u8) };
    let cal = calendar(rng);
    call(|| PlainDate::new_with_overflow(y, m, d, cal, overflow(rng).unwrap_or_default())).ok()
}
fn time(rng: &mut Rng) -> Option<PlainTime> {
    let r = if rng.bool() { PlainTime::new_with_overflow(hu8(rng), hu8(rng), hu8(rng), hu16(rng), hu16(rng), hu16(rng), overflow(rng).unwrap_or_default()) } else { ptime(rng.range128(0, NS_PER_DAY)) };
    r.ok()
}
fn datetime(rng: &mut Rng) -> Option<PlainDateTime> {
    let d = date(rng)?;
    let t = time(rng)?;
    call(|| PlainDateTime::from_date_and_time(d, t)).ok()
}

fn garbage(rng: &mut Rng) -> String {
    const ALPHA: &[&str] = &[
        "0", "1", "2", "9", "-", "+", ":", ".", ",", "T", "t", "Z", "z", " ", "[", "]", "!", "=", "u-ca", "iso8601", "P", "Y", "M", "W", "D", "H", "S", "/", "_", "\u{2212}", "\u{0}", "\u{e9}", "\u{1f600}", "UTC", "America/New_York", "00", "24", "60", "61",
        "99", "271821", "275760", "000000", "-000000", "12:00", "2020-01-01", "1e9", "NaN", "inf", "\n", "\t", "%", "gregory", "japanese", "M05L", "M13",
    ];
    let n = match rng.below(6) {
        0 => rng.below(4),
        1 => rng.range(40, 400) as u64,
        _ => rng.range(3, 24) as u64,
    };
    let mut s = String::new();
    for _ in 0..n {
        s.push_str(*rng.pick(ALPHA));
    }
    if rng.chance(1, 20) {
        s = s.repeat(rng.range(2, 200) as usize);
    }
    s
}

pub fn run(rep: &mut Report) {
    let mut rng = rep.cfg.rng("c03");
    let n = rep.cfg.budget(400_000, 8_000_000);
    let zones: Vec<Zone> = {
        let mut z = directed_zones();
        for i in 0..40 {
            z.push(synthetic(&mut rng, i));
        }
        // a pathological table: thousands of transitions a second apart, offsets alternating
        let mut t = Vec::new();
        for k in 0..5000i64 {
            t.push((1_000_000_000 + k, if k % 2 == 0 { 3600 } else { -3600 }));
        }
        z.push(Zone { name: "Synth/Dense".into(), initial: 0, trans: t });
        z
    };
    let prov = TableProvider::new(zones.clone());
    // zones with a transition that skips (or repeats) most of a day or more: synthetic ones through the table provider,
    // the real ones (date-line moves) through the library's own provider
    let fs = temporal_rs::tzdb::FsTzdbProvider::default();
    let day_jump = |z: &Zone| -> Vec<i64> {
        let mut out = Vec::new();
        let mut before = z.initial;
        for (t, after) in &z.trans {
            if (after - before).abs() >= 20 * 3600 {
                out.push(*t);
            }
            before = *after;
        }
        out
    };
    let jump_table: Vec<(Zone, Vec<i64>)> = zones.iter().map(|z| (z.clone(), day_jump(z))).filter(|(_, j)| !j.is_empty()).collect();
    let jump_real: Vec<(Zone, Vec<i64>)> = load_real("/verif/.build/zones.tbl").into_iter().map(|z| { let j = day_jump(&z); (z, j) }).filter(|(_, j)| !j.is_empty()).collect();
    rep.add("storm/day-jump zones (tables)", jump_table.len() as u64);
    rep.add("storm/day-jump zones (tzdb)", jump_real.len() as u64);
    let mut evals = 0u64;
    for _ in 0..n {
        let scenario = rng.below(10);
        // the generators draw from the rng before `begin` only through this sub-seed, so that replay is exact
        let sub = rng.u64();
        if !rep.begin() {
            continue;
        }
        evals += 1;
        let mut r = Rng::new(sub, "c03-case", 0);
        let r = &mut r;
        let ok_before = ok_calls();
        match scenario {
            0 => {
                let s = if r.bool() {
                    garbage(r)
                } else {
                    // a well-formed string with a few characters swapped for hostile ones (digits of other scripts,
                    // fractions, Roman numerals, NUL, combining marks, multi-byte letters)
                    const HOSTILE: &[char] = &['\u{0663}', '\u{0967}', '\u{ff11}', '\u{00b2}', '\u{00bd}', '\u{2167}', '\u{1d7d9}', '\u{0}', '\u{0301}', '\u{00e9}', '\u{2212}', '\u{ff0b}', '\u{ff1a}', ' ', '9', 'Z', '[', ']'];
                    let base = if r.chance(1, 4) { crate::mon::c12::gen_duration_text(r) } else { crate::mon::c12::gen_valid(r) };
                    let mut cs: Vec<char> = base.chars().collect();
                    for _ in 0..r.range(1, 3) {
                        if cs.is_empty() {
                            break;
                        }
                        let i = r.below(cs.len() as u64) as usize;
                        cs[i] = *r.pick(HOSTILE);
                    }
                    cs.into_iter().collect()
                };
                let _ = call(|| PlainDate::from_str(&s));
                let _ = call(|| PlainTime::from_str(&s));
                let _ = call(|| PlainDateTime::from_str(&s));
                let _ = call(|| PlainYearMonth::from_str(&s));
                let _ = call(|| PlainMonthDay::from_str(&s));
                let _ = call(|| Instant::from_str(&s));
                let _ = call(|| Duration::from_str(&s));
                let _ = call(|| ZonedDateTime::from_str_with_provider(&s, Disambiguation::Compatible, OffsetDisambiguation::Reject, &prov));
                let _ = call(|| RelativeTo::try_from_str_with_provider(&s, &prov));
                let _ = call(|| TimeZone::try_from_str(&s));
                let _ = call(|| TimeZone::try_from_identifier_str(&s));
                let _ = call(|| Calendar::from_str(&s));
                let _ = call(|| Calendar::from_utf8(s.as_bytes()));
                let _ = call(|| UtcOffset::from_str(&s));
                let _ = call(|| MonthCode::from_str(&s));
                let _ = call_inf(|| Unit::from_str(&s).is_ok());
                let _ = call_inf(|| RoundingMode::from_str(&s).is_ok());
                let _ = call_inf(|| ArithmeticOverflow::from_str(&s).is_ok());
                let _ = call_inf(|| Disambiguation::from_str(&s).is_ok());
                let _ = call_inf(|| OffsetDisambiguation::from_str(&s).is_ok());
                let _ = call_inf(|| DisplayCalendar::from_str(&s).is_ok());
                rep.hit("storm/strings");
            }
            1 => {
                if let Some(d) = date(r) {
                    let _ = call_inf(|| (d.year(), d.month(), d.month_code(), d.day(), d.day_of_week(), d.day_of_year(), d.days_in_month(), d.days_in_year(), d.months_in_year(), d.in_leap_year(), d.era(), d.era_year()));
                    let _ = call(|| d.week_of_year());
                    let _ = call(|| d.year_of_week());
                    let _ = call(|| d.days_in_week());
                    if let Some(du) = duration(r) {
                        let _ = call(|| d.add(&du, overflow(r)));
                        let _ = call(|| d.subtract(&du, overflow(r)));
                    }
                    if let Some(o) = date(r) {
                        let _ = call(|| d.until(&o, diffs(r)));
                        let _ = call(|| d.since(&o, diffs(r)));
                        let _ = call_inf(|| d.compare_iso(&o));
                    }
                    let _ = call(|| d.with_calendar(calendar(r)));
                    let _ = call(|| d.to_plain_date_time(time(r)));
                    let _ = call(|| d.to_plain_year_month());
                    let _ = call(|| d.to_plain_month_day());
                    let _ = call_inf(|| d.to_ixdtf_string(*r.pick(&[DisplayCalendar::Auto, DisplayCalendar::Always, DisplayCalendar::Never, DisplayCalendar::Critical])));
                    let p = PartialDate { year: if r.bool() { Some(hi32(r)) } else { None }, month: if r.bool() { Some(hu8(r)) } else { None }, month_code: if r.chance(1, 3) { MonthCode::from_str(*r.pick(&["M01", "M02", "M12", "M13", "M05L", "M00", "M99"])).ok() } else { None }, day: if r.bool() { Some(hu8(r)) } else { None }, era: None, era_year: if r.chance(1, 5) { Some(hi32(r)) } else { None }, calendar: d.calendar().clone() };
                    let _ = call(|| d.with(p.clone(), overflow(r)));
                    let _ = call(|| PlainDate::from_partial(p.clone(), overflow(r)));
                    let _ = call(|| PlainYearMonth::from_partial(p.clone(), overflow(r).unwrap_or_default()));
                    let z = r.pick(&zones);
                    if let Out::Ok(tz) = call(|| TimeZone::try_from_identifier_str(&z.name)) {
                        let _ = call(|| d.to_zoned_date_time_with_provider(tz.clone(), time(r), &prov));
                    }
                }
                rep.hit("storm/date");
            }
            2 => {
                if let Some(dt) = datetime(r) {
                    let _ = call_inf(|| (dt.year(), dt.month(), dt.day(), dt.hour(), dt.nanosecond(), dt.day_of_week(), dt.day_of_year(), dt.era(), dt.era_year(), dt.month_code()));
                    let _ = call(|| dt.week_of_year());
                    let _ = call(|| dt.round(rounds(r)));
                    if let Some(du) = duration(r) {
                        let _ = call(|| dt.add(&du, overflow(r)));
                        let _ = call(|| dt.subtract(&du, overflow(r)));
                    }
                    if let Some(o) = datetime(r) {
                        let _ = call(|| dt.until(&o, diffs(r)));
                        let _ = call(|| dt.since(&o, diffs(r)));
                    }
                    let _ = call(|| dt.to_ixdtf_string(tostr(r), DisplayCalendar::Auto));
                    let _ = call(|| dt.with_calendar(calendar(r)));
                    if let Some(t) = time(r) {
                        let _ = call(|| dt.with_time(t));
                    }
                    let pt = PartialTime { hour: Some(hu8(r)), minute: if r.bool() { Some(hu8(r)) } else { None }, second: None, millisecond: Some(hu16(r)), microsecond: None, nanosecond: Some(hu16(r)) };
                    let pd = PartialDate { year: Some(hi32(r)), month: Some(hu8(r)), day: Some(hu8(r)), calendar: dt.calendar().clone(), ..Default::default() };
                    let _ = call(|| dt.with(PartialDateTime::new().with_partial_date(pd.clone()).with_partial_time(pt), overflow(r)));
                    let _ = call(|| PlainDateTime::new_with_overflow(hi32(r), hu8(r), hu8(r), hu8(r), hu8(r), hu8(r), hu16(r), hu16(r), hu16(r), calendar(r), overflow(r).unwrap_or_default()));
                    let z = r.pick(&zones);
                    if let Out::Ok(tz) = call(|| TimeZone::try_from_identifier_str(&z.name)) {
                        let _ = call(|| dt.to_zoned_date_time_with_provider(&tz, *r.pick(&[Disambiguation::Compatible, Disambiguation::Earlier, Disambiguation::Later, Disambiguation::Reject]), &prov));
                    }
                }
                rep.hit("storm/datetime");
            }
            3 => {
                if let Some(t) = time(r) {
                    if let Some(du) = duration(r) {
                        let _ = call(|| t.add(&du));
                        let _ = call(|| t.subtract(&du));
                    }
                    if let Some(o) = time(r) {
                        let _ = call(|| t.until(&o, diffs(r)));
                        let _ = call(|| t.since(&o, diffs(r)));
                    }
                    let _ = call(|| t.round(unit(r).unwrap_or(Unit::Second), r.pick(&[None, Some(1.0f64), Some(0.0), Some(-1.0), Some(7.0), Some(1e9), Some(1e300), Some(0.5), Some(60.0)]).map(|x| x), mode(r)));
                    let _ = call(|| t.to_ixdtf_string(tostr(r)));
                    let _ = call(|| t.with(PartialTime { hour: Some(hu8(r)), minute: Some(hu8(r)), second: Some(hu8(r)), millisecond: Some(hu16(r)), microsecond: Some(hu16(r)), nanosecond: Some(hu16(r)) }, overflow(r)));
                }
                rep.hit("storm/time");
            }
            4 => {
                let cal = calendar(r);
                let ym = call(|| PlainYearMonth::new_with_overflow(hi32(r), hu8(r), if r.bool() { Some(hu8(r)) } else { None }, cal.clone(), overflow(r).unwrap_or_default()));
                if let Out::Ok(ym) = ym {
                    let _ = call_inf(|| (ym.year(), ym.month(), ym.month_code(), ym.days_in_month(), ym.days_in_year(), ym.months_in_year(), ym.in_leap_year(), ym.era(), ym.era_year(), ym.padded_iso_year_string()));
                    if let Some(du) = duration(r) {
                        let _ = call(|| ym.add(&du, overflow(r).unwrap_or_default()));
                        let _ = call(|| ym.subtract(&du, overflow(r).unwrap_or_default()));
                    }
                    if let Out::Ok(o) = call(|| PlainYearMonth::new_with_overflow(r.range(-271_821, 275_760) as i32, r.range(1, 12) as u8, None, cal.clone(), ArithmeticOverflow::Constrain)) {
                        let _ = call(|| ym.until(&o, diffs(r)));
                        let _ = call(|| ym.since(&o, diffs(r)));
                    }
                    let _ = call(|| ym.to_plain_date());
                    let _ = call_inf(|| ym.to_ixdtf_string(DisplayCalendar::Always));
                    let _ = call(|| ym.with(PartialDate { year: Some(hi32(r)), month: Some(hu8(r)), calendar: cal.clone(), ..Default::default() }, overflow(r)));
                }
                let md = call(|| PlainMonthDay::new_with_overflow(hu8(r), hu8(r), cal.clone(), overflow(r).unwrap_or_default(), if r.bool() { Some(hi32(r)) } else { None }));
                if let Out::Ok(md) = md {
                    let _ = call_inf(|| (md.iso_day(), md.iso_month(), md.iso_year(), md.month_code(), md.to_ixdtf_string(DisplayCalendar::Auto)));
                    let _ = call(|| md.to_plain_date());
                    let _ = call(|| md.with(PartialDate { month: Some(hu8(r)), day: Some(hu8(r)), calendar: cal.clone(), ..Default::default() }, overflow(r).unwrap_or_default()));
                }
                rep.hit("storm/yearmonth-monthday");
            }
            5 => {
                let ns = match r.below(5) {
                    0 => MAX_INSTANT - r.range128(0, 3),
                    1 => -MAX_INSTANT + r.range128(0, 3),
                    2 => r.range128(-MAX_INSTANT, MAX_INSTANT),
                    3 => r.range128(i128::MIN / 2, i128::MAX / 2),
                    _ => r.range128(-4_000_000_000_000_000_000, 4_000_000_000_000_000_000),
                };
                if let Out::Ok(i) = call(|| Instant::try_new(ns)) {
                    if let Some(du) = duration(r) {
                        let _ = call(|| i.add(du));
                        let _ = call(|| i.subtract(du));
                    }
                    let _ = call(|| i.round(rounds(r)));
                    if let Out::Ok(o) = call(|| Instant::try_new(r.range128(-MAX_INSTANT, MAX_INSTANT))) {
                        let _ = call(|| i.until(&o, diffs(r)));
                        let _ = call(|| i.since(&o, diffs(r)));
                    }
                    let z = r.pick(&zones);
                    let tz = call(|| TimeZone::try_from_identifier_str(&z.name)).ok();
                    let _ = call(|| i.to_ixdtf_string_with_provider(tz.as_ref(), tostr(r), &prov));
                    let _ = call_inf(|| (i.epoch_milliseconds(), i.epoch_nanoseconds()));
                }
                let _ = call(|| Instant::from_epoch_milliseconds(*r.pick(&[i64::MIN, i64::MAX, 0, 8_640_000_000_000_000, 8_640_000_000_000_001, -8_640_000_000_000_001])));
                rep.hit("storm/instant");
            }
            6 => {
                if let Some(d) = duration(r) {
                    let rel = match r.below(3) {
                        0 => None,
                        1 => date(r).map(RelativeTo::PlainDate),
                        _ => {
                            // anywhere, or within a few seconds / hours / days of one of the zone's transitions
                            let z = r.pick(&zones);
                            let t = if z.trans.is_empty() || r.chance(1, 3) { r.range128(-MAX_INSTANT, MAX_INSTANT) } else { z.trans[r.below(z.trans.len() as u64) as usize].0 as i128 * SEC + r.range128(-3, 3) * *r.pick(&[1i128, SEC, 3600 * SEC, NS_PER_DAY]) + r.range128(-2, 2) };
                            call(|| ZonedDateTime::try_new(t, calendar(r), TimeZone::try_from_identifier_str(&z.name)?)).ok().map(RelativeTo::ZonedDateTime)
                        }
                    };
                    // half of the time a duration of the size of a zone transition (a few days, hours, minutes) instead of a hostile one
                    let d = if r.bool() { d } else { near_duration(r).unwrap_or(d) };
                    let _ = call(|| d.round_with_provider(rounds(r), rel.clone(), &prov));
                    let _ = call(|| d.total_with_provider(unit(r).unwrap_or(Unit::Day), rel.clone(), &prov));
                    if let Some(o) = duration(r) {
                        let _ = call(|| d.compare_with_provider(&o, rel.clone(), &prov));
                        let _ = call(|| d.add(&o));
                        let _ = call(|| d.subtract(&o));
                    }
                    let _ = call(|| d.as_temporal_string(tostr(r)));
                    let _ = call_inf(|| (d.negated().is_zero(), d.abs().sign(), d.is_time_within_range()));
                }
                let pd = PartialDuration { years: Some(f(*r.pick(&[0.0, 1.0, -1.0, 4294967295.0, 4294967296.0, 9007199254740992.0, 1e300]))), hours: Some(f(*r.pick(&[0.0, -1.0, 2.5e12, 9.1e15]))), ..Default::default() };
                let _ = call(|| Duration::from_partial_duration(pd));
                rep.hit("storm/duration");
            }
            7 => {
                let z = r.pick(&zones);
                if let Out::Ok(tz) = call(|| TimeZone::try_from_identifier_str(&z.name)) {
                    let t = if z.trans.is_empty() || r.chance(1, 3) { r.range128(-MAX_INSTANT, MAX_INSTANT) } else { z.trans[r.below(z.trans.len() as u64) as usize].0 as i128 * SEC + r.range128(-3, 3) * *r.pick(&[1i128, SEC, 3600 * SEC]) };
                    if let Out::Ok(zdt) = call(|| ZonedDateTime::try_new(t, calendar(r), tz.clone())) {
                        let _ = call(|| zdt.hours_in_day_with_provider(&prov));
                        let _ = call(|| zdt.start_of_day_with_provider(&prov));
                        let _ = call(|| zdt.get_time_zone_transition_with_provider(*r.pick(&[TransitionDirection::Next, TransitionDirection::Previous]), &prov));
                        let _ = call(|| zdt.to_ixdtf_string_with_provider(*r.pick(&[DisplayOffset::Auto, DisplayOffset::Never]), *r.pick(&[DisplayTimeZone::Auto, DisplayTimeZone::Never, DisplayTimeZone::Critical]), *r.pick(&[DisplayCalendar::Auto, DisplayCalendar::Always]), tostr(r), &prov));
                        let _ = call(|| (zdt.era_with_provider(&prov), zdt.week_of_year_with_provider(&prov), zdt.days_in_month_with_provider(&prov), zdt.month_code_with_provider(&prov)).0);
                        if let Some(du) = duration(r) {
                            let _ = call(|| zdt.add_with_provider(&du, overflow(r), &prov));
                            let _ = call(|| zdt.subtract_with_provider(&du, overflow(r), &prov));
                        }
                        let other = if r.bool() { r.range128(-MAX_INSTANT, MAX_INSTANT) } else { t + r.range128(-3, 3) * *r.pick(&[SEC, 3600 * SEC, NS_PER_DAY, 30 * NS_PER_DAY]) + r.range128(-5, 5) };
                        if let Out::Ok(o) = call(|| ZonedDateTime::try_new(other, zdt.calendar().clone(), tz.clone())) {
                            let _ = call(|| zdt.until_with_provider(&o, diffs(r), &prov));
                            let _ = call(|| zdt.since_with_provider(&o, diffs(r), &prov));
                        }
                        if let Some(tm) = time(r) {
                            let _ = call(|| zdt.with_plain_time_and_provider(tm, &prov));
                        }
                        let _ = call(|| zdt.with_calendar(calendar(r)));
                        let _ = call(|| zdt.with_timezone(TimeZone::try_from_identifier_str(&r.pick(&zones).name)?));
                    }
                }
                rep.hit("storm/zoned");
            }
            8 => {
                // around a transition that skips or repeats a whole day: the neighbouring calendar day does not exist, so
                // "one day later" and "now" can be the same instant
                let real = !jump_real.is_empty() && r.bool();
                let (z, jumps) = if real { r.pick(&jump_real) } else if jump_table.is_empty() { continue } else { r.pick(&jump_table) };
                let tt = *r.pick(jumps) as i128 * SEC;
                let t = tt + r.range128(-3, 3) * NS_PER_DAY + *r.pick(&[0i128, 0, 1, -1, 3600 * SEC, 12 * 3600 * SEC, -3600 * SEC, 43_199 * SEC]);
                let cal = if r.chance(1, 4) { calendar(r) } else { Calendar::default() };
                macro_rules! with_provider {
                    ($p:expr) => {{
                        if let Out::Ok(zdt) = call(|| ZonedDateTime::try_new(t, cal.clone(), TimeZone::try_from_identifier_str(&z.name)?)) {
                            let d = near_duration(r);
                            let u = *r.pick(&[Unit::Day, Unit::Day, Unit::Week, Unit::Month, Unit::Year, Unit::Hour]);
                            if let Some(d) = &d {
                                let rel = Some(RelativeTo::ZonedDateTime(zdt.clone()));
                                let _ = call(|| d.total_with_provider(u, rel.clone(), $p));
                                let mut o = RoundingOptions::default();
                                o.smallest_unit = Some(u);
                                o.largest_unit = *r.pick(&[None, Some(Unit::Day), Some(Unit::Month), Some(Unit::Year)]);
                                o.rounding_mode = mode(r);
                                o.increment = if r.bool() { None } else { RoundingIncrement::try_new(*r.pick(&[1u32, 2, 3])).ok() };
                                let _ = call(|| d.round_with_provider(o, rel.clone(), $p));
                                let _ = call(|| d.compare_with_provider(&d.negated(), rel.clone(), $p));
                                let _ = call(|| zdt.add_with_provider(d, overflow(r), $p));
                                let _ = call(|| zdt.subtract_with_provider(d, overflow(r), $p));
                            }
                            let other = t + r.range128(-3, 3) * NS_PER_DAY + r.range128(-30, 30) * 3600 * SEC + r.range128(-1, 1);
                            if let Out::Ok(ot) = call(|| ZonedDateTime::try_new(other, cal.clone(), TimeZone::try_from_identifier_str(&z.name)?)) {
                                let mut st = DifferenceSettings::default();
                                st.largest_unit = *r.pick(&[Some(Unit::Day), Some(Unit::Week), Some(Unit::Month), Some(Unit::Year), None]);
                                st.smallest_unit = *r.pick(&[Some(Unit::Day), Some(Unit::Day), Some(Unit::Hour), None, Some(Unit::Month)]);
                                st.rounding_mode = mode(r);
                                st.increment = if r.bool() { None } else { RoundingIncrement::try_new(*r.pick(&[1u32, 2, 5])).ok() };
                                let _ = call(|| zdt.until_with_provider(&ot, st, $p));
                                let _ = call(|| zdt.since_with_provider(&ot, st, $p));
                            }
                            let _ = call(|| zdt.hours_in_day_with_provider($p));
                            let _ = call(|| zdt.start_of_day_with_provider($p));
                            if let Some(tm) = time(r) {
                                let _ = call(|| zdt.with_plain_time_and_provider(tm, $p));
                            }
                        }
                    }};
                }
                if real {
                    with_provider!(&fs);
                } else {
                    with_provider!(&prov);
                }
                rep.hit("storm/day-jump");
            }
            _ => {
                let _ = call(|| RoundingIncrement::try_new(*r.pick(&[0u32, 1, u32::MAX, 1_000_000_000, 1_000_000_001])));
                let _ = call(|| RoundingIncrement::try_from(*r.pick(&[0.0f64, 0.5, 1.0, 1e9, 1e9 + 1.0, -1.0, 1e300, f64::MIN_POSITIVE])));
                let _ = call(|| UtcOffset::from_str(*r.pick(&["+00:00", "-23:59", "+24:00", "+23:60", "+0000", "-00", "Z", "+05:30:59", "+05:30:60.5"])));
                let _ = call(|| dur10([*r.pick(&[0.0, 4294967295.0, 4294967296.0, -4294967296.0]), 0.0, 0.0, *r.pick(&[0.0, 104249991374.0, 104249991375.0]), 0.0, 0.0, *r.pick(&[0.0, 9007199254740991.0, 9007199254740992.0]), 0.0, *r.pick(&[0.0, 999999.0, 9007199254740991.0]), *r.pick(&[0.0, 999.0, 9007199254740991.0])]));
                rep.hit("storm/options");
            }
        }
        // non-trivial storm case: at least three calls of it returned a value (it got past argument validation)
        if ok_calls() - ok_before >= 3 {
            rep.nontrivial(crate::fp!(scenario, sub));
        }
        if evals % 50_021 == 1 {
            rep.sample(&format!("e{evals}"), || json!({"scenario": scenario, "case_seed": sub, "calls_that_returned_a_value": ok_calls() - ok_before}));
        }
    }
    rep.evaluations += evals;
    rep.add("cases", evals);
    // every broken call is this property's violation
    for (key, count, msg, case_idx) in broken_registry() {
        rep.case_idx = case_idx;
        rep.violation("C03.broken", "call", &key, json!({"found_by": "C03 api storm", "first_case": case_idx, "occurrences": count}), msg, "a value or a Type/Range/Syntax error".into());
    }
    for c in ["cases", "storm/strings", "storm/date", "storm/datetime", "storm/time", "storm/instant", "storm/duration", "storm/zoned", "storm/day-jump"] {
        rep.require(c);
    }
}
