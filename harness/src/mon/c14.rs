//! C14 - ZonedDateTime arithmetic is wall-clock for dates, exact for times.
//!
//! Oracle: AddZonedDateTime / DifferenceZonedDateTime transcribed over the brute-force zone model of
//! zones.rs + refmodel::date, plus the laws the property states (inverse, sign uniformity, time part
//! shorter than a local day), start-of-day / hours-in-day by linear scan over the transition table.

use crate::core::*;
use crate::fp;
use crate::mon::c13::{load_zones, model_disambiguate, probe_instants, zone_class, Exp};
use crate::refmodel::civil::*;
use crate::refmodel::date::{add_date, diff_date};
use crate::refmodel::dur;
use crate::util::*;
use crate::zones::*;
use serde_json::json;
use std::cmp::Ordering;
use temporal_rs::error::ErrorKind;
use temporal_rs::options::{ArithmeticOverflow, Disambiguation, RelativeTo, Unit};
use temporal_rs::{Calendar, TimeZone, ZonedDateTime};

const MAXI: i128 = MAX_INSTANT;
const DT_LIMIT: i128 = MAX_INSTANT + NS_PER_DAY;

fn in_range(t: i128) -> Exp {
    if t.abs() > MAXI {
        Exp::Range
    } else {
        Exp::Ok(t)
    }
}

fn local_of(z: &Zone, t: i128) -> i128 {
    t + z.ref_offset_at(t.div_euclid(SEC) as i64) as i128 * SEC
}

fn date_part_zero(v: &[f64; 10]) -> bool {
    v[0] == 0.0 && v[1] == 0.0 && v[2] == 0.0 && v[3] == 0.0
}

/// AddZonedDateTime.
pub fn model_zadd(z: &Zone, t: i128, v: &[f64; 10], negate: bool, reject: bool) -> Exp {
    let s: i128 = if negate { -1 } else { 1 };
    let mut tf = *v;
    tf[0] = 0.0;
    tf[1] = 0.0;
    tf[2] = 0.0;
    tf[3] = 0.0;
    let tt = s * dur::time_total(&tf);
    if date_part_zero(v) {
        return in_range(t + tt);
    }
    let local = local_of(z, t);
    let (day, tod) = (local.div_euclid(NS_PER_DAY), local.rem_euclid(NS_PER_DAY));
    let Ok((y, m, d)) = add_date(civil_from_days(day as i64), s * dur::exact(v[0]), s * dur::exact(v[1]), s * dur::exact(v[2]), s * dur::exact(v[3]), 0, reject) else {
        return Exp::Range;
    };
    let inter = days_from_civil(y, m, d) as i128 * NS_PER_DAY + tod;
    if inter <= -DT_LIMIT || inter >= DT_LIMIT {
        return Exp::Range;
    }
    match model_disambiguate(z, inter, Disambiguation::Compatible) {
        Exp::Ok(i) => in_range(i + tt),
        other => other,
    }
}

pub enum ZDiff {
    Fields([f64; 10], i128),
    Range,
    Undecided(&'static str),
}

/// DifferenceZonedDateTime for a date largest unit: ten fields (time balanced up to hours) and the exact time part.
pub fn model_zdiff(z: &Zone, t1: i128, t2: i128, largest: Unit) -> ZDiff {
    if t1 == t2 {
        return ZDiff::Fields([0.0; 10], 0);
    }
    let (l1, l2) = (local_of(z, t1), local_of(z, t2));
    let (d1, tod1) = (l1.div_euclid(NS_PER_DAY), l1.rem_euclid(NS_PER_DAY));
    let (d2, tod2) = (l2.div_euclid(NS_PER_DAY), l2.rem_euclid(NS_PER_DAY));
    let sign: i128 = if t2 - t1 < 0 { -1 } else { 1 };
    if (d2 - d1).signum() != sign {
        // same wall-clock date, or dates ordered against the instants (backward transition): no date difference of
        // the right sign exists; the only sign-uniform answer that add() maps back is the exact elapsed time
        let td = t2 - t1;
        return ZDiff::Fields(dur::fields_f64(0, 0, 0, dur::balance(td, Unit::Hour)), td);
    }
    let max_corr = if sign == 1 { 2 } else { 1 };
    let mut corr: i128 = if (tod2 - tod1).signum() == -sign { 1 } else { 0 };
    let mut found = None;
    while corr <= max_corr {
        let iday = d2 - corr * sign;
        let inter = iday * NS_PER_DAY + tod1;
        if inter <= -DT_LIMIT || inter >= DT_LIMIT {
            return ZDiff::Undecided("intermediate date-time outside the limits");
        }
        let ins = match model_disambiguate(z, inter, Disambiguation::Compatible) {
            Exp::Ok(i) => i,
            Exp::Range => return ZDiff::Range,
            Exp::Undecided(w) => return ZDiff::Undecided(w),
        };
        let td = t2 - ins;
        if td.signum() != -sign {
            found = Some((iday, td));
            break;
        }
        corr += 1;
    }
    let Some((iday, td)) = found else { return ZDiff::Undecided("day correction did not succeed (specification assertion)") };
    let (y, mo, w, d) = diff_date(civil_from_days(d1 as i64), civil_from_days(iday as i64), largest);
    let bal = dur::balance(td, Unit::Hour);
    let mut f = dur::fields_f64(y as i128, mo as i128, w as i128, bal);
    f[3] = d as f64;
    ZDiff::Fields(f, td)
}

/// First instant of local day `day`, when the day is entered once.
pub fn model_start_of_day(z: &Zone, day: i64) -> Exp {
    if (day as i128).abs() > 100_000_000 {
        return Exp::Range;
    }
    let Some(first) = z.ref_start_of_day(day) else { return Exp::Undecided("local day does not exist") };
    let midnight_local = day as i128 * NS_PER_DAY;
    let midnight = z.ref_instants_of(midnight_local);
    if let Some(m) = midnight.first() {
        if *m != first {
            return Exp::Undecided("local day entered before its own midnight");
        }
    } else {
        // midnight is skipped: the day starts at the (first) transition whose gap contains it - unless that gap skips the
        // whole day and the day is only entered later by a backward transition (then "first instant of the day" and
        // "first time after the transition" part ways; not judged)
        for (i, &(t, after)) in z.trans.iter().enumerate() {
            let before = if i == 0 { z.initial } else { z.trans[i - 1].1 };
            let tt = t as i128 * SEC;
            if after > before && midnight_local >= tt + before as i128 * SEC && midnight_local < tt + after as i128 * SEC {
                if (tt + after as i128 * SEC).div_euclid(NS_PER_DAY) != day as i128 {
                    return Exp::Undecided("local day skipped by the gap that skips its midnight");
                }
                break;
            }
        }
    }
    in_range(first)
}

fn neg10(v: &[f64; 10]) -> [f64; 10] {
    let mut o = *v;
    for x in o.iter_mut() {
        if *x != 0.0 {
            *x = -*x;
        }
    }
    o
}

fn gen_duration(rng: &mut Rng) -> [f64; 10] {
    let mut v = [0.0f64; 10];
    let small = |rng: &mut Rng| *rng.pick(&[1i64, 1, 2, 3, 7, 11, 12, 13, 28, 29, 30, 31, 59, 365, 366]);
    match rng.below(8) {
        0 => {}
        1 => v[3] = small(rng) as f64,
        2 => v[2] = rng.range(1, 60) as f64,
        3 => v[1] = rng.range(1, 30) as f64,
        4 => v[0] = rng.range(1, 5) as f64,
        5 => {
            v[0] = rng.range(0, 3) as f64;
            v[1] = rng.range(0, 14) as f64;
            v[3] = rng.range(0, 40) as f64;
        }
        6 => {
            v[1] = rng.range(0, 3) as f64;
            v[2] = rng.range(0, 5) as f64;
            v[3] = rng.range(0, 9) as f64;
        }
        _ => v[3] = rng.range(1, 3) as f64,
    }
    match rng.below(8) {
        0 | 1 => {}
        2 => v[4] = rng.range(1, 50) as f64,
        3 => {
            v[4] = rng.range(22, 26) as f64;
            v[5] = rng.range(0, 60) as f64;
        }
        4 => v[9] = *rng.pick(&[1.0, 999.0, 1e9, 3.6e12, 8.64e13]),
        5 => {
            v[5] = rng.range(0, 200) as f64;
            v[6] = rng.range(0, 4000) as f64;
            v[8] = rng.range(0, 2_000_000) as f64;
        }
        6 => v[4] = *rng.pick(&[1.0, 2.0, 3.0, 12.0, 24.0, 48.0]),
        _ => {
            v[4] = rng.range(0, 30) as f64;
            v[5] = rng.range(0, 90) as f64;
            v[6] = rng.range(0, 90) as f64;
            v[7] = rng.range(0, 1500) as f64;
            v[9] = rng.range(0, 1500) as f64;
        }
    }
    if rng.bool() {
        v = neg10(&v);
    }
    v
}

const DATE_UNITS: [Unit; 4] = [Unit::Year, Unit::Month, Unit::Week, Unit::Day];
const TIME_UNITS: [Unit; 6] = [Unit::Hour, Unit::Minute, Unit::Second, Unit::Millisecond, Unit::Microsecond, Unit::Nanosecond];

fn show10(v: &[f64; 10]) -> String {
    format!("{v:?}")
}

pub fn run(rep: &mut Report) {
    let mut rng = rep.cfg.rng("c14");
    let iso = Calendar::default();
    let zones = load_zones(rep, &mut rng, 1_200, 30_000, 60);
    rep.add("zones/total", zones.len() as u64);
    let prov = SwitchProvider::new(zones.clone());
    // the exported tables end in 2120; the library's own provider goes on applying the zone's rule after that
    const TABLE_HORIZON: i128 = 4_650_000_000 * SEC;
    let per_zone = if rep.cfg.thorough() { 1_600 } else { 600 };
    let mut evals = 0u64;
    for (zi, z) in zones.iter().enumerate() {
        if !rep.cfg.mine(zi as u64) {
            continue;
        }
        rep.hit(&format!("zones/{}", zone_class(z)));
        let Out::Ok(tz) = call(|| TimeZone::try_from_identifier_str(&z.name)) else {
            rep.harness_error(format!("zone name {} not accepted", z.name));
            continue;
        };
        // A sound bound for "the time part is shorter than the local day": the intermediate date-time is the receiver's
        // time of day on a date at most three wall-clock days before the other instant's reading, and instants differ
        // from wall-clock distances by at most the spread of the zone's offsets.
        let time_part_bound: i128 = {
            let (mut lo, mut hi) = (z.initial, z.initial);
            for &(_, o) in &z.trans {
                lo = lo.min(o);
                hi = hi.max(o);
            }
            3 * NS_PER_DAY + (hi - lo) as i128 * SEC
        };
        // real zones twice: through the table provider and through the library's own provider reading the same TZif files
        let passes = if zone_class(z) == "real" { 2 } else { 1 };
        for pass in 0..passes {
        prov.use_fs.set(pass == 1);
        let zc = if pass == 1 { "real,tzdb-provider" } else { zone_class(z) };
        let mut pts = probe_instants(z, &mut rng, 2, per_zone / 3, per_zone / 6);
        if pass == 1 {
            pts.retain(|t| t.abs() < TABLE_HORIZON - 3_000 * NS_PER_DAY);
            rep.add("tzdb-provider/instants", pts.len() as u64);
        }
        for t1 in pts {
            let v = gen_duration(&mut rng);
            let reject = rng.chance(1, 4);
            let t2 = match rng.below(9) {
                0 => t1 + *rng.pick(&[1i128, -1, SEC, -SEC]),
                1 => t1 + rng.range128(-3 * 3600 * SEC, 3 * 3600 * SEC),
                2 => t1 + rng.range128(22 * 3600 * SEC, 26 * 3600 * SEC) * if rng.bool() { 1 } else { -1 },
                3 => t1 + rng.range128(-3 * NS_PER_DAY, 3 * NS_PER_DAY),
                4 => t1 + rng.range128(27 * NS_PER_DAY, 32 * NS_PER_DAY) * if rng.bool() { 1 } else { -1 },
                5 => t1 + rng.range128(360 * NS_PER_DAY, 370 * NS_PER_DAY) * if rng.bool() { 1 } else { -1 },
                6 if !z.trans.is_empty() => {
                    // another instant near (another) transition of the same zone
                    let (tt, _) = z.trans[rng.below(z.trans.len() as u64) as usize];
                    tt as i128 * SEC + rng.range128(-NS_PER_DAY, NS_PER_DAY)
                }
                7 => t1 + rng.range128(-40_000 * NS_PER_DAY, 40_000 * NS_PER_DAY),
                _ => t1 + rng.range128(-400 * NS_PER_DAY, 400 * NS_PER_DAY),
            };
            let lu_date = *rng.pick(&DATE_UNITS);
            let lu_time = *rng.pick(&TIME_UNITS);
            let tod_pick = rng.range128(0, NS_PER_DAY);
            if !rep.begin() {
                continue;
            }
            if t1.abs() > MAXI || (pass == 1 && t2.abs() >= TABLE_HORIZON) {
                continue;
            }
            evals += 1;
            let near = |t: i128| z.trans.iter().any(|(tt, _)| ((*tt as i128 * SEC) - t).abs() <= NS_PER_DAY);
            let Out::Ok(zdt1) = call(|| ZonedDateTime::try_new(t1, iso.clone(), tz.clone())) else {
                rep.harness_error(format!("cannot construct zdt at {t1}"));
                continue;
            };
            // ---------------- A. add / subtract
            if let Out::Ok(d) = call(|| dur10(v)) {
                for negate in [false, true] {
                    let exp = model_zadd(z, t1, &v, negate, reject);
                    let ov = Some(if reject { ArithmeticOverflow::Reject } else { ArithmeticOverflow::Constrain });
                    let got = call(|| if negate { zdt1.subtract_with_provider(&d, ov, &prov) } else { zdt1.add_with_provider(&d, ov, &prov) }).map(|r| r.epoch_nanoseconds().as_i128());
                    let land_near = matches!(exp, Exp::Ok(r) if near(r));
                    let shape = format!("({zc},{},{},{})", if date_part_zero(&v) { "time-only" } else { "date-units" }, if near(t1) { "from-near-transition" } else { "from-far" }, if land_near { "lands-near-transition" } else { "lands-far" });
                    let case = json!({"zone": z.name, "instant": t1.to_string(), "duration": show10(&v), "op": if negate { "subtract" } else { "add" }, "overflow": if reject { "reject" } else { "constrain" }});
                    match (&exp, &got) {
                        (Exp::Undecided(w), _) => rep.hit(&format!("undecided/{w}")),
                        (_, g) if g.is_broken() => rep.inconclusive("C14.add", &g.show_with(|_| String::new())),
                        (Exp::Ok(e), Out::Ok(g)) if e == g => {}
                        (Exp::Range, Out::Err(ErrorKind::Range, _)) => {}
                        _ => rep.violation("C14.add", if negate { "ZonedDateTime::subtract" } else { "ZonedDateTime::add" }, &shape, case, got.show(), format!("{exp:?}")),
                    }
                    if land_near || near(t1) {
                        rep.nontrivial(fp!(1u64, zi, t1 as u64, negate, v[3].to_bits(), v[4].to_bits(), v[1].to_bits()));
                    }
                    rep.hit("add/evaluated");
                }
            }
            // ---------------- B. until / since
            if t2.abs() <= MAXI {
                if let Out::Ok(zdt2) = call(|| ZonedDateTime::try_new(t2, iso.clone(), tz.clone())) {
                    let straddle = {
                        let (a, b) = (t1.min(t2), t1.max(t2));
                        z.trans.iter().any(|(tt, _)| {
                            let x = *tt as i128 * SEC;
                            x > a && x <= b
                        })
                    };
                    let (l1, l2) = (local_of(z, t1), local_of(z, t2));
                    let reversed = ((l2.rem_euclid(NS_PER_DAY)) - (l1.rem_euclid(NS_PER_DAY))).signum() == -(t2 - t1).signum();
                    let shape_base = format!("{zc},{},{}", if straddle { "straddles-transition" } else { "no-transition" }, if reversed { "time-of-day-reversed" } else { "time-of-day-ordered" });
                    if straddle {
                        rep.nontrivial(fp!(2u64, zi, t1 as u64, t2 as u64));
                        if reversed {
                            rep.hit("diff/straddle+reversed");
                        }
                    }
                    // time largest unit: exact elapsed time
                    {
                        let exp_u = dur::fields_f64(0, 0, 0, dur::balance(t2 - t1, lu_time));
                        let exp_s = dur::fields_f64(0, 0, 0, dur::balance(t1 - t2, lu_time));
                        for (since, exp) in [(false, exp_u), (true, exp_s)] {
                            let got = call(|| if since { zdt1.since_with_provider(&zdt2, diff_largest(lu_time), &prov) } else { zdt1.until_with_provider(&zdt2, diff_largest(lu_time), &prov) }).map(|d| dur_fields(&d));
                            match &got {
                                Out::Ok(g) if *g == exp => {}
                                g if g.is_broken() => rep.inconclusive("C14.diff_time", &g.show_with(|_| String::new())),
                                _ => rep.violation("C14.diff_time", if since { "ZonedDateTime::since" } else { "ZonedDateTime::until" }, &format!("({shape_base},{})", unit_name(lu_time)), json!({"zone": z.name, "a": t1.to_string(), "b": t2.to_string(), "largest": unit_name(lu_time)}), got.show(), show10(&exp)),
                            }
                        }
                        // default options: largest unit hour
                        let exp = dur::fields_f64(0, 0, 0, dur::balance(t2 - t1, Unit::Hour));
                        let got = call(|| zdt1.until_with_provider(&zdt2, Default::default(), &prov)).map(|d| dur_fields(&d));
                        if !got.is_broken() && got.as_ok() != Some(&exp) {
                            rep.violation("C14.diff_time", "ZonedDateTime::until(default)", &format!("({shape_base})"), json!({"zone": z.name, "a": t1.to_string(), "b": t2.to_string()}), got.show(), show10(&exp));
                        }
                    }
                    // date largest unit
                    {
                        let m = model_zdiff(z, t1, t2, lu_date);
                        let got_u = call(|| zdt1.until_with_provider(&zdt2, diff_largest(lu_date), &prov));
                        let got_s = call(|| zdt1.since_with_provider(&zdt2, diff_largest(lu_date), &prov));
                        let case = || json!({"zone": z.name, "a": t1.to_string(), "b": t2.to_string(), "largest": unit_name(lu_date), "wall_a": crate::mon::c13::model_fmt_local(l1), "wall_b": crate::mon::c13::model_fmt_local(l2)});
                        let shape = format!("({shape_base},{})", unit_name(lu_date));
                        match &m {
                            ZDiff::Undecided(w) => rep.hit(&format!("undecided/{w}")),
                            ZDiff::Range => {
                                for (nm, g) in [("ZonedDateTime::until", &got_u), ("ZonedDateTime::since", &got_s)] {
                                    if !g.is_broken() && !g.is_range_err() {
                                        rep.violation("C14.diff_date", nm, &shape, case(), g.show_with(|d| show10(&dur_fields(d))), "RangeError".into());
                                    }
                                }
                            }
                            ZDiff::Fields(f, td) => {
                                let exp_s = neg10(f);
                                for (nm, g, e) in [("ZonedDateTime::until", &got_u, f), ("ZonedDateTime::since", &got_s, &exp_s)] {
                                    match g {
                                        Out::Ok(d) if dur_fields(d) == *e => {}
                                        g if g.is_broken() => rep.inconclusive("C14.diff_date", &g.show_with(|_| String::new())),
                                        _ => rep.violation("C14.diff_date", nm, &shape, case(), g.show_with(|d| show10(&dur_fields(d))), show10(e)),
                                    }
                                }
                                if td.abs() >= time_part_bound {
                                    rep.harness_error(format!("model time part {td} not shorter than a local day ({} {t1} {t2})", z.name));
                                }
                            }
                        }
                        // laws on the implementation's own output (until only)
                        if let (Out::Ok(d), false) = (&got_u, matches!(m, ZDiff::Undecided(_))) {
                            let fv = dur_fields(d);
                            let pos = fv.iter().any(|x| *x > 0.0);
                            let neg = fv.iter().any(|x| *x < 0.0);
                            if pos && neg {
                                rep.violation("C14.law_sign", "ZonedDateTime::until", &shape, case(), show10(&fv), "sign-uniform fields".into());
                            }
                            let mut tf = fv;
                            tf[0] = 0.0;
                            tf[1] = 0.0;
                            tf[2] = 0.0;
                            tf[3] = 0.0;
                            if dur::time_total(&tf).abs() >= time_part_bound {
                                rep.violation("C14.law_time_part", "ZonedDateTime::until", &shape, case(), show10(&fv), "time part shorter than the local day".into());
                            }
                            let back = call(|| zdt1.add_with_provider(d, None, &prov)).map(|r| r.epoch_nanoseconds().as_i128());
                            // The specified algorithm measures the time part from the *compatible* resolution of the receiver's
                            // wall-clock time; when the receiver is the later occurrence of a repeated time and the date part
                            // of the result is zero, add() does not re-resolve and lands one overlap later (see KNOWN_FINDINGS).
                            let rep_recv = {
                                let c = z.ref_instants_of(l1);
                                c.len() > 1 && c[0] != t1
                            };
                            let zero_date = fv[0] == 0.0 && fv[1] == 0.0 && fv[2] == 0.0 && fv[3] == 0.0;
                            match &back {
                                Out::Ok(b) if *b == t2 => {}
                                b if b.is_broken() => rep.inconclusive("C14.law_inverse", &b.show_with(|_| String::new())),
                                _ if rep_recv && zero_date && l1.div_euclid(NS_PER_DAY) != l2.div_euclid(NS_PER_DAY) => rep.violation("C14.law_inverse", "add(until)", "receiver-is-later-occurrence-of-repeated-time,zero-date-part,other-date", case(), format!("until={} add -> {}", show10(&fv), back.show()), format!("Ok({t2})")),
                                _ => rep.violation("C14.law_inverse", "add(until)", &shape, case(), format!("until={} add -> {}", show10(&fv), back.show()), format!("Ok({t2})")),
                            }
                            rep.hit("diff/laws_evaluated");
                        }
                    }
                }
            }
            // ---------------- C. start of day, hours in day, with_plain_time
            {
                let l1 = local_of(z, t1);
                let day = l1.div_euclid(NS_PER_DAY) as i64;
                let s0 = model_start_of_day(z, day);
                let s1 = model_start_of_day(z, day + 1);
                let case = || {
                    let near: Vec<String> = z.trans.iter().enumerate().filter(|(_, (tt, _))| ((*tt as i128 * SEC) - t1).abs() <= 3 * NS_PER_DAY).map(|(i, (tt, o))| format!("{tt}:{}->{o}", if i == 0 { z.initial } else { z.trans[i - 1].1 })).collect();
                    json!({"zone": z.name, "instant": t1.to_string(), "wall": crate::mon::c13::model_fmt_local(l1), "transitions_within_3_days": near})
                };
                let day_len = match (&s0, &s1) {
                    (Exp::Ok(a), Exp::Ok(b)) => Some(b - a),
                    _ => None,
                };
                let kind = match day_len {
                    Some(l) if l == NS_PER_DAY => "24h-day",
                    Some(l) if l % (3600 * SEC) == 0 => "whole-hour-odd-day",
                    Some(_) => "fractional-day",
                    None => "undetermined-day",
                };
                let shape = format!("({zc},{kind})");
                let got = call(|| zdt1.start_of_day_with_provider(&prov)).map(|r| r.epoch_nanoseconds().as_i128());
                match (&s0, &got) {
                    (Exp::Undecided(w), _) => rep.hit(&format!("undecided/{w}")),
                    (_, g) if g.is_broken() => rep.inconclusive("C14.start_of_day", &g.show_with(|_| String::new())),
                    (Exp::Ok(e), Out::Ok(g)) if e == g => {}
                    (Exp::Range, Out::Err(ErrorKind::Range, _)) => {}
                    _ => rep.violation("C14.start_of_day", "ZonedDateTime::start_of_day", &shape, case(), got.show(), format!("{s0:?}")),
                }
                if let Some(len) = day_len {
                    let exp = len as f64 / 3.6e12;
                    let got = call(|| zdt1.hours_in_day_with_provider(&prov)).map(|h| h as f64);
                    match &got {
                        // faithful rounding (1 ulp) of the exact quotient, as for Duration::total (C09)
                        Out::Ok(g) if (*g - exp).abs() <= exp * 2.3e-16 => {}
                        g if g.is_broken() => rep.inconclusive("C14.hours_in_day", &g.show_with(|_| String::new())),
                        _ => rep.violation("C14.hours_in_day", "ZonedDateTime::hours_in_day", &shape, case(), got.show(), format!("{exp}")),
                    }
                    if len != NS_PER_DAY {
                        rep.hit(&format!("day/{kind}"));
                        rep.nontrivial(fp!(3u64, zi, day as u64));
                    }
                }
                // with_plain_time: the wall clock of that date at the given time, compatible
                let target = day as i128 * NS_PER_DAY + tod_pick;
                if target > -DT_LIMIT && target < DT_LIMIT {
                    let exp = model_disambiguate(z, target, Disambiguation::Compatible);
                    let got = call(|| zdt1.with_plain_time_and_provider(ptime(tod_pick)?, &prov)).map(|r| r.epoch_nanoseconds().as_i128());
                    match (&exp, &got) {
                        (Exp::Undecided(w), _) => rep.hit(&format!("undecided/{w}")),
                        (_, g) if g.is_broken() => rep.inconclusive("C14.with_plain_time", &g.show_with(|_| String::new())),
                        (Exp::Ok(e), Out::Ok(g)) if e == g => {}
                        (Exp::Range, Out::Err(ErrorKind::Range, _)) => {}
                        _ => rep.violation("C14.with_plain_time", "ZonedDateTime::with_plain_time", &format!("({zc})"), case(), got.show(), format!("{exp:?}")),
                    }
                }
            }
            // ---------------- D. Duration total / round / compare relative to the zoned date-time
            if let Out::Ok(d) = call(|| dur10(v)) {
                if let Exp::Ok(end) = model_zadd(z, t1, &v, false, false) {
                    let elapsed = end - t1;
                    let rel = || Some(RelativeTo::ZonedDateTime(zdt1.clone()));
                    let shape = format!("({zc},{},{})", if date_part_zero(&v) { "time-only" } else { "date-units" }, if near(t1) || near(end) { "near-transition" } else { "far" });
                    let case = || json!({"zone": z.name, "relative_to": t1.to_string(), "duration": show10(&v)});
                    // total in a time unit = exact elapsed time / unit
                    let un = unit_ns(lu_time).unwrap_or(1);
                    let got = call(|| d.total_with_provider(lu_time, rel(), &prov)).map(|x| x.as_inner());
                    let exact_q = elapsed as f64 / un as f64; // both below 2^53 * small factors: check within 1 ulp
                    match &got {
                        Out::Ok(g) if (*g - exact_q).abs() <= exact_q.abs() * 2.3e-16 + f64::MIN_POSITIVE => {}
                        g if g.is_broken() => rep.inconclusive("C14.duration_total", &g.show_with(|_| String::new())),
                        _ => rep.violation("C14.duration_total", "Duration::total(zoned relativeTo)", &format!("({shape},{})", unit_name(lu_time)), case(), got.show(), format!("{exact_q}")),
                    }
                    // round to a time largest unit, nanosecond precision = balanced exact elapsed time
                    let exp = dur::fields_f64(0, 0, 0, dur::balance(elapsed, lu_time));
                    let got = call(|| d.round_with_provider(round_opts(Some(lu_time), Some(Unit::Nanosecond), None, None), rel(), &prov)).map(|r| dur_fields(&r));
                    match &got {
                        Out::Ok(g) if *g == exp => {}
                        g if g.is_broken() => rep.inconclusive("C14.duration_round", &g.show_with(|_| String::new())),
                        _ => rep.violation("C14.duration_round", "Duration::round(zoned relativeTo)", &format!("({shape},{})", unit_name(lu_time)), case(), got.show(), show10(&exp)),
                    }
                    // compare with the same elapsed time expressed in hours +- 1 ns
                    for delta in [-1i128, 0, 1] {
                        let other_total = elapsed + delta;
                        let of = dur::fields_f64(0, 0, 0, dur::balance(other_total, Unit::Hour));
                        if let Out::Ok(od) = call(|| dur10(of)) {
                            let exp = elapsed.cmp(&other_total);
                            let got = call(|| d.compare_with_provider(&od, rel(), &prov));
                            match &got {
                                Out::Ok(g) if *g == exp => {}
                                g if g.is_broken() => rep.inconclusive("C14.duration_compare", &g.show_with(|_| String::new())),
                                _ => rep.violation("C14.duration_compare", "Duration::compare(zoned relativeTo)", &format!("({shape},{})", match exp { Ordering::Less => "less", Ordering::Equal => "equal", Ordering::Greater => "greater" }), case(), got.show(), format!("{exp:?}")),
                            }
                        }
                    }
                    rep.hit("duration_relative/evaluated");
                }
            }
            if evals % 10_007 == 1 {
                rep.sample(&format!("e{evals}"), || json!({"zone": z.name, "a": t1.to_string(), "b": t2.to_string(), "duration": show10(&v)}));
            }
        }
        }
        prov.use_fs.set(false);
    }
    // evaluations = judged groups of calls (add + subtract, the difference laws, the day clauses, the relative-duration
    // clauses), not receivers
    rep.evaluations += evals + rep.get("add/evaluated") + rep.get("diff/laws_evaluated") + rep.get("duration_relative/evaluated");
    rep.add("cases", evals);
    for c in ["cases", "add/evaluated", "diff/laws_evaluated", "diff/straddle+reversed", "duration_relative/evaluated", "day/whole-hour-odd-day"] {
        rep.require(c);
    }
}
