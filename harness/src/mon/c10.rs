//! C10 - each operation accepts exactly the option combinations Temporal allows; defaults resolve as specified.
//!
//! Complete matrix: operation x largestUnit {absent, auto, 10 units} x smallestUnit {absent, auto, 10 units}
//! x increment {absent + 24 values} x mode {absent + 9 modes} x operands {distinct, identical}.
//! Oracle: a table-driven model of GetDifferenceSettings and the per-operation round/toString rules;
//! for accepted cells whose result the exact models decide, the resolved defaults are observed in the value.

use crate::core::*;
use crate::refmodel::dur::{balance, fields_f64};
use crate::refmodel::round::{round_int, Mode, ALL_MODES};
use crate::util::*;
use serde_json::json;
use temporal_rs::error::ErrorKind;
use temporal_rs::options::{ArithmeticOverflow, RelativeTo, ToStringRoundingOptions, Unit};
use temporal_rs::parsers::Precision;
use temporal_rs::{Calendar, Instant, PlainDate, PlainYearMonth, TimeZone, ZonedDateTime};

const UNITS10: [Unit; 10] = UNITS;
const INCS: [u32; 24] = [1, 2, 3, 4, 5, 6, 7, 8, 10, 12, 15, 20, 24, 25, 30, 59, 60, 100, 500, 999, 1000, 1001, 86_400, 1_000_000_000];

#[derive(Clone, Copy, PartialEq, Debug)]
enum Group {
    Date,
    Time,
    DateTime,
}

fn in_group(u: Unit, g: Group) -> bool {
    match g {
        Group::Date => u.is_date_unit(),
        Group::Time => u.is_time_unit(),
        Group::DateTime => u != Unit::Auto,
    }
}

fn max_increment(u: Unit) -> Option<u32> {
    match u {
        Unit::Hour => Some(24),
        Unit::Minute | Unit::Second => Some(60),
        Unit::Millisecond | Unit::Microsecond | Unit::Nanosecond => Some(1000),
        _ => None,
    }
}

#[derive(Clone, Copy)]
struct DiffSpec {
    name: &'static str,
    group: Group,
    disallowed: &'static [Unit],
    fallback_smallest: Unit,
    default_largest: Unit,
}

/// GetDifferenceSettings: Ok((largest, smallest, increment)) or Err(()) = RangeError.
fn diff_model(s: &DiffSpec, largest: Option<Unit>, smallest: Option<Unit>, inc: Option<u32>) -> Result<(Unit, Unit, u32), ()> {
    let lu = match largest {
        None | Some(Unit::Auto) => None,
        Some(u) => {
            if !in_group(u, s.group) || s.disallowed.contains(&u) {
                return Err(());
            }
            Some(u)
        }
    };
    let inc = inc.unwrap_or(1);
    let su = match smallest {
        None => s.fallback_smallest,
        Some(Unit::Auto) => return Err(()),
        Some(u) => {
            if !in_group(u, s.group) || s.disallowed.contains(&u) {
                return Err(());
            }
            u
        }
    };
    let lu = lu.unwrap_or(s.default_largest.max(su));
    if lu < su {
        return Err(());
    }
    if let Some(m) = max_increment(su) {
        if inc >= m || m % inc != 0 {
            return Err(());
        }
    }
    Ok((lu, su, inc))
}

fn opt_units() -> Vec<Option<Unit>> {
    let mut v = vec![None, Some(Unit::Auto)];
    v.extend(UNITS10.iter().map(|u| Some(*u)));
    v
}

fn opt_incs() -> Vec<Option<u32>> {
    let mut v = vec![None];
    v.extend(INCS.iter().map(|i| Some(*i)));
    v
}

fn opt_modes() -> Vec<Option<Mode>> {
    let mut v = vec![None];
    v.extend(ALL_MODES.iter().map(|m| Some(*m)));
    v
}

fn on(u: Option<Unit>) -> &'static str {
    match u {
        None => "absent",
        Some(u) => unit_name(u),
    }
}

fn inc_class(i: Option<u32>) -> String {
    match i {
        None => "absent".into(),
        Some(i) => i.to_string(),
    }
}

struct Ctx {
    evals: u64,
    accepted: u64,
    rejected: u64,
    value_checked: u64,
}

#[allow(clippy::too_many_arguments)]
fn judge_accept(rep: &mut Report, cx: &mut Ctx, opname: &str, cell: &str, model_ok: bool, kind: Option<Result<(), ErrorKind>>, case: serde_json::Value) -> bool {
    cx.evals += 1;
    match kind {
        None => {
            rep.inconclusive("C10.accept", "panic");
            false
        }
        Some(Err(ErrorKind::Assert)) => {
            rep.inconclusive("C10.accept", "assert");
            false
        }
        Some(r) => {
            if model_ok {
                cx.accepted += 1;
            } else {
                cx.rejected += 1;
            }
            match (&r, model_ok) {
                (Ok(()), true) => true,
                (Err(ErrorKind::Range), false) => false,
                (Ok(()), false) => {
                    rep.violation("C10.accept", opname, &format!("{cell}/accepted-invalid"), case, "Ok".into(), "Err(RangeError)".into());
                    false
                }
                (Err(k), true) => {
                    rep.violation("C10.accept", opname, &format!("{cell}/rejected-valid"), case, format!("Err({k})"), "Ok".into());
                    false
                }
                (Err(k), false) => {
                    rep.violation("C10.accept", opname, &format!("{cell}/wrong-error-kind"), case, format!("Err({k})"), "Err(RangeError)".into());
                    false
                }
            }
        }
    }
}

/// The increment constructors themselves: valid exactly when 1 <= truncate(value) <= 10^9 (both ends inclusive). Returns
/// false when a valid increment cannot be constructed - the rest of the workload builds its options from them.
fn increment_constructors(rep: &mut Report) -> bool {
    use temporal_rs::options::RoundingIncrement;
    let mut usable = true;
    for v in [0u32, 1, 2, 7, 999_999_999, 1_000_000_000, 1_000_000_001, u32::MAX] {
        if !rep.begin() {
            continue;
        }
        let valid = (1..=1_000_000_000).contains(&v);
        let got = call(|| RoundingIncrement::try_new(v)).map(|x| x.get());
        match (&got, valid) {
            (Out::Ok(g), true) if *g == v => {}
            (Out::Err(ErrorKind::Range, _), false) => {}
            _ if got.is_broken() => rep.inconclusive("C10.accept", "panic"),
            _ => {
                usable &= !valid;
                rep.violation("C10.accept", "RoundingIncrement::try_new", &format!("({},{})", if v >= 1_000_000_000 { "at-or-above-1e9" } else { "small" }, if valid { "rejected-valid" } else { "accepted-invalid" }), json!({"increment": v}), got.show(), if valid { format!("Ok({v})") } else { "Err(RangeError)".into() });
            }
        }
    }
    for v in [0.0f64, 0.5, 0.999_999, 1.0, 1.5, 2.9, 1e9 - 0.5, 1e9, 1e9 + 0.5, 1e9 + 1.0, 4e9, -1.0, -0.5, f64::INFINITY, f64::NAN] {
        if !rep.begin() {
            continue;
        }
        let t = v.trunc();
        let valid = v.is_finite() && (1.0..=1e9).contains(&t);
        let got = call(|| RoundingIncrement::try_from(v)).map(|x| x.get());
        match (&got, valid) {
            (Out::Ok(g), true) if *g as f64 == t => {}
            (Out::Err(ErrorKind::Range, _), false) => {}
            _ if got.is_broken() => rep.inconclusive("C10.accept", "panic"),
            _ => rep.violation("C10.accept", "RoundingIncrement::try_from(f64)", &format!("({})", if valid { "rejected-valid-or-wrong-value" } else { "accepted-invalid" }), json!({"increment": format!("{v}")}), got.show(), if valid { format!("Ok({t})") } else { "Err(RangeError)".into() }),
        }
    }
    rep.hit("increment/constructors-checked");
    usable
}

pub fn run(rep: &mut Report) {
    if !increment_constructors(rep) {
        rep.notes.push("a valid increment cannot be constructed: the rest of the C10 workload, which builds its options from increments, was not run".into());
        rep.evaluations += 23;
        return;
    }
    let prov = NoZones;
    let iso = Calendar::default();
    let mut cx = Ctx { evals: 0, accepted: 0, rejected: 0, value_checked: 0 };
    let ou = opt_units();
    let oi = opt_incs();
    let om = opt_modes();

    // operands (local ns / ns of day / days)
    let t_a: i128 = 3 * 3_600_000_000_000 + 15 * 60_000_000_000 + 10_100_200_300; // 03:15:10.100200300
    let t_b: i128 = 8 * 3_600_000_000_000 + 1; // 08:00:00.000000001
    let i_a: i128 = 1_600_000_000_123_456_789;
    let i_b: i128 = i_a + 4 * 86_400_000_000_000 + 17_099_899_799_701; // 4 d 04:44:59.899799701
    let d_a: i64 = 18_276; // 2020-01-15
    let d_b: i64 = 18_276 + 430; // 2021-03-20
    let dt_a: i128 = d_a as i128 * DAY_NS + t_a;
    let dt_b: i128 = (d_a as i128 + 4) * DAY_NS + t_b; // 4 d 04:44:49.8997997

    let specs = [
        DiffSpec { name: "PlainDate", group: Group::Date, disallowed: &[], fallback_smallest: Unit::Day, default_largest: Unit::Day },
        DiffSpec { name: "PlainDateTime", group: Group::DateTime, disallowed: &[], fallback_smallest: Unit::Nanosecond, default_largest: Unit::Day },
        DiffSpec { name: "PlainTime", group: Group::Time, disallowed: &[], fallback_smallest: Unit::Nanosecond, default_largest: Unit::Hour },
        DiffSpec { name: "PlainYearMonth", group: Group::Date, disallowed: &[Unit::Week, Unit::Day], fallback_smallest: Unit::Month, default_largest: Unit::Year },
        DiffSpec { name: "Instant", group: Group::Time, disallowed: &[], fallback_smallest: Unit::Nanosecond, default_largest: Unit::Second },
        DiffSpec { name: "ZonedDateTime", group: Group::DateTime, disallowed: &[], fallback_smallest: Unit::Nanosecond, default_largest: Unit::Hour },
    ];

    let mut cell_no = 0u64;
    // ------------------------------------------------------------------ until / since
    for spec in &specs {
        for since in [false, true] {
            let opname = format!("{}::{}", spec.name, if since { "since" } else { "until" });
            for &lu in &ou {
                for &su in &ou {
                    for &inc in &oi {
                        cell_no += 1;
                        if !rep.cfg.mine(cell_no) {
                            continue;
                        }
                        for &mode in &om {
                            for identical in [false, true] {
                                if !rep.begin() {
                                    continue;
                                }
                                let model = diff_model(spec, lu, su, inc);
                                // an increment of 1e9 calendar units/days walks out of the representable range while
                                // computing (a RangeError of the computation, not of the option rules): not judged
                                if let (Ok((_, rs, 1_000_000_000)), false) = (&model, identical) {
                                    if rs.is_date_unit() {
                                        rep.hit("undecided/increment_leaves_range");
                                        continue;
                                    }
                                }
                                let st = diff_settings(lu, su, mode.map(|m| m.to_lib()), inc);
                                let cell = format!("({},{},{},{})", on(lu), on(su), inc_class(inc), if mode.is_some() { "mode" } else { "nomode" });
                                let case = json!({"op": opname, "largest": on(lu), "smallest": on(su), "inc": inc, "mode": mode.map(|m| m.name()), "identical_operands": identical});
                                let r = call(|| match spec.name {
                                    "PlainDate" => {
                                        let (a, b) = (pdate_from_days(d_a)?, pdate_from_days(if identical { d_a } else { d_b })?);
                                        if since { a.since(&b, st) } else { a.until(&b, st) }
                                    }
                                    "PlainDateTime" => {
                                        let (a, b) = (pdt_from_local(dt_a)?, pdt_from_local(if identical { dt_a } else { dt_b })?);
                                        if since { a.since(&b, st) } else { a.until(&b, st) }
                                    }
                                    "PlainTime" => {
                                        let (a, b) = (ptime(t_a)?, ptime(if identical { t_a } else { t_b })?);
                                        if since { a.since(&b, st) } else { a.until(&b, st) }
                                    }
                                    "PlainYearMonth" => {
                                        let a = PlainYearMonth::new_with_overflow(2020, 1, None, iso.clone(), ArithmeticOverflow::Reject)?;
                                        let b = if identical { a.clone() } else { PlainYearMonth::new_with_overflow(2021, 3, None, iso.clone(), ArithmeticOverflow::Reject)? };
                                        if since { a.since(&b, st) } else { a.until(&b, st) }
                                    }
                                    "Instant" => {
                                        let (a, b) = (Instant::try_new(i_a)?, Instant::try_new(if identical { i_a } else { i_b })?);
                                        if since { a.since(&b, st) } else { a.until(&b, st) }
                                    }
                                    _ => {
                                        let a = ZonedDateTime::try_new(i_a, iso.clone(), TimeZone::default())?;
                                        let b = ZonedDateTime::try_new(if identical { i_a } else { i_b }, iso.clone(), TimeZone::default())?;
                                        if since { a.since_with_provider(&b, st, &prov) } else { a.until_with_provider(&b, st, &prov) }
                                    }
                                });
                                let kind = match &r {
                                    Out::Ok(_) => Some(Ok(())),
                                    Out::Err(k, _) => Some(Err(*k)),
                                    Out::Panic(..) => None,
                                };
                                let accepted = judge_accept(rep, &mut cx, &opname, &cell, model.is_ok(), kind, case.clone());
                                // ---- value clause: resolved defaults visible in the result
                                if let (true, Ok((rl, rs, rinc)), Out::Ok(g)) = (accepted, model, &r) {
                                    let m = mode.unwrap_or(Mode::Trunc);
                                    let exact: Option<(i128, Unit)> = if identical {
                                        Some((0, rl))
                                    } else {
                                        match spec.name {
                                            "PlainTime" => Some((if since { t_a - t_b } else { t_b - t_a }, rl)),
                                            "Instant" => Some((if since { i_a - i_b } else { i_b - i_a }, rl)),
                                            "ZonedDateTime" if rl <= Unit::Hour => Some((if since { i_a - i_b } else { i_b - i_a }, rl)),
                                            "PlainDateTime" if rl <= Unit::Day && rs <= Unit::Day => Some((if since { dt_a - dt_b } else { dt_b - dt_a }, rl)),
                                            "PlainDate" if rl == Unit::Day && rs == Unit::Day => Some(((if since { d_a - d_b } else { d_b - d_a }) as i128 * DAY_NS, rl)),
                                            _ => None,
                                        }
                                    };
                                    if let Some((d, rl)) = exact {
                                        let step = rinc as i128 * unit_ns(rs).unwrap_or(DAY_NS);
                                        let (rounded, _) = round_int(d, step, m);
                                        let exp = fields_f64(0, 0, 0, balance(rounded, rl));
                                        cx.value_checked += 1;
                                        if dur_fields(g) != exp {
                                            rep.violation("C10.resolve", &opname, &cell, case, format!("{:?}", dur_fields(g)), format!("{exp:?} (largest {} smallest {} inc {rinc} mode {})", unit_name(rl), unit_name(rs), m.name()));
                                        }
                                    } else if spec.name == "PlainYearMonth" && rs == Unit::Month && rinc == 1 {
                                        let exp = match rl {
                                            Unit::Year => [1., 2., 0., 0., 0., 0., 0., 0., 0., 0.],
                                            _ => [0., 14., 0., 0., 0., 0., 0., 0., 0., 0.],
                                        };
                                        let exp: Vec<f64> = exp.iter().map(|x| if since && *x != 0.0 { -*x } else { *x }).collect();
                                        cx.value_checked += 1;
                                        if dur_fields(g).to_vec() != exp {
                                            rep.violation("C10.resolve", &opname, &cell, case, format!("{:?}", dur_fields(g)), format!("{exp:?}"));
                                        }
                                    }
                                }
                            }
                        }
                    }
                }
            }
        }
    }

    // ------------------------------------------------------------------ round: PlainTime / PlainDateTime / Instant
    for &su in &ou {
        for &inc in &oi {
            cell_no += 1;
            if !rep.cfg.mine(cell_no) {
                continue;
            }
            for &mode in &om {
                if !rep.begin() {
                    continue;
                }
                let m = mode.unwrap_or(Mode::HalfExpand);
                let i = inc.unwrap_or(1);
                // PlainTime::round takes a mandatory unit: `absent` is not expressible
                if let Some(u) = su {
                    let ok = u.is_time_unit() && max_increment(u).map(|mx| i < mx && mx % i == 0) == Some(true);
                    let r = call(|| ptime(t_a)?.round(u, inc.map(|x| x as f64), mode.map(|x| x.to_lib())));
                    let kind = match &r {
                        Out::Ok(_) => Some(Ok(())),
                        Out::Err(k, _) => Some(Err(*k)),
                        Out::Panic(..) => None,
                    };
                    let cell = format!("({},{})", on(su), inc_class(inc));
                    let case = json!({"op": "PlainTime::round", "smallest": on(su), "inc": inc, "mode": mode.map(|x| x.name())});
                    if judge_accept(rep, &mut cx, "PlainTime::round", &cell, ok, kind, case.clone()) {
                        let exp = round_int(t_a, i as i128 * unit_ns(u).unwrap(), m).0.rem_euclid(DAY_NS);
                        cx.value_checked += 1;
                        if let Out::Ok(g) = &r {
                            if ptime_ns(g) != exp {
                                rep.violation("C10.resolve", "PlainTime::round", &cell, case, fmt_ns_of_day(ptime_ns(g)), fmt_ns_of_day(exp));
                            }
                        }
                    }
                }
                // PlainDateTime::round: smallest required, time unit or day; day only with increment 1
                {
                    let ok = match su {
                        Some(Unit::Day) => i == 1,
                        Some(u) if u.is_time_unit() => max_increment(u).map(|mx| i < mx && mx % i == 0) == Some(true),
                        _ => false,
                    };
                    let r = call(|| pdt_from_local(dt_a)?.round(round_opts(None, su, mode.map(|x| x.to_lib()), inc)));
                    let kind = match &r {
                        Out::Ok(_) => Some(Ok(())),
                        Out::Err(k, _) => Some(Err(*k)),
                        Out::Panic(..) => None,
                    };
                    let cell = format!("({},{})", on(su), inc_class(inc));
                    let case = json!({"op": "PlainDateTime::round", "smallest": on(su), "inc": inc, "mode": mode.map(|x| x.name())});
                    if judge_accept(rep, &mut cx, "PlainDateTime::round", &cell, ok, kind, case.clone()) {
                        let step = i as i128 * unit_ns(su.unwrap()).unwrap();
                        let day = dt_a.div_euclid(DAY_NS);
                        let exp = day * DAY_NS + round_int(dt_a.rem_euclid(DAY_NS), step, m).0;
                        cx.value_checked += 1;
                        if let Out::Ok(g) = &r {
                            if pdt_local_ns(g) != exp {
                                rep.violation("C10.resolve", "PlainDateTime::round", &cell, case, pdt_local_ns(g).to_string(), exp.to_string());
                            }
                        }
                    }
                }
                // Instant::round: smallest required, time unit, increment divides the day length (inclusive)
                {
                    let ok = match su {
                        Some(u) if u.is_time_unit() => {
                            let day_len = (DAY_NS / unit_ns(u).unwrap()) as u64;
                            (i as u64) <= day_len && day_len % (i as u64) == 0
                        }
                        _ => false,
                    };
                    let r = call(|| Instant::try_new(i_a)?.round(round_opts(None, su, mode.map(|x| x.to_lib()), inc)));
                    let kind = match &r {
                        Out::Ok(_) => Some(Ok(())),
                        Out::Err(k, _) => Some(Err(*k)),
                        Out::Panic(..) => None,
                    };
                    let cell = format!("({},{})", on(su), inc_class(inc));
                    let case = json!({"op": "Instant::round", "smallest": on(su), "inc": inc, "mode": mode.map(|x| x.name())});
                    if judge_accept(rep, &mut cx, "Instant::round", &cell, ok, kind, case.clone()) {
                        let exp = round_int(i_a, i as i128 * unit_ns(su.unwrap()).unwrap(), m).0;
                        cx.value_checked += 1;
                        if let Out::Ok(g) = &r {
                            if g.as_i128() != exp {
                                rep.violation("C10.resolve", "Instant::round", &cell, case, g.as_i128().to_string(), exp.to_string());
                            }
                        }
                    }
                }
            }
        }
    }

    // ------------------------------------------------------------------ Duration::round with / without relativeTo
    // duration PT28H13M37.5S (calendar-free) and P1Y2M10DT5H (calendar units)
    let durs: [([f64; 10], &str); 2] = [([0., 0., 0., 0., 28., 13., 37., 500., 0., 0.], "time"), ([1., 2., 0., 10., 5., 0., 0., 0., 0., 0.], "calendar")];
    for (fields, dname) in durs {
        let existing = crate::refmodel::dur::default_largest(&fields);
        let has_cal = fields[0] != 0.0 || fields[1] != 0.0 || fields[2] != 0.0;
        for rel in [false, true] {
            for &lu in &ou {
                for &su in &ou {
                    for &inc in &oi {
                        cell_no += 1;
                        if !rep.cfg.mine(cell_no) {
                            continue;
                        }
                        for &mode in &om {
                            if !rep.begin() {
                                continue;
                            }
                            let i = inc.unwrap_or(1);
                            // model: three-valued (None = not judged)
                            let model: Option<Result<(Unit, Unit), ()>> = (|| {
                                if lu.is_none() && su.is_none() {
                                    return Some(Err(()));
                                }
                                if su == Some(Unit::Auto) {
                                    return Some(Err(()));
                                }
                                let s = su.unwrap_or(Unit::Nanosecond);
                                let l = match lu {
                                    None | Some(Unit::Auto) => existing.max(s),
                                    Some(u) => u,
                                };
                                if l < s {
                                    return Some(Err(()));
                                }
                                if let Some(mx) = max_increment(s) {
                                    if i >= mx || mx % i != 0 {
                                        return Some(Err(()));
                                    }
                                }
                                if !rel && (has_cal || l.is_calendar_unit()) {
                                    return Some(Err(()));
                                }
                                // later specification text adds a rule for increment > 1 on date smallest units
                                // when largest != smallest: not one of the rule families of the property -> undecided
                                if i > 1 && s.is_date_unit() && l != s {
                                    return None;
                                }
                                if i == 1_000_000_000 && s.is_date_unit() {
                                    return None;
                                }
                                Some(Ok((l, s)))
                            })();
                            let relative = if rel { Some(RelativeTo::PlainDate(PlainDate::try_new(2020, 1, 15, iso.clone()).expect("date"))) } else { None };
                            let r = call(|| dur10(fields)?.round_with_provider(round_opts(lu, su, mode.map(|x| x.to_lib()), inc), relative, &prov));
                            let kind = match &r {
                                Out::Ok(_) => Some(Ok(())),
                                Out::Err(k, _) => Some(Err(*k)),
                                Out::Panic(..) => None,
                            };
                            let opname = format!("Duration::round({dname},{})", if rel { "relativeTo=date" } else { "no-relativeTo" });
                            let cell = format!("({},{},{},{})", on(lu), on(su), inc_class(inc), if mode.is_some() { "mode" } else { "nomode" });
                            let case = json!({"op": opname, "duration": format!("{fields:?}"), "largest": on(lu), "smallest": on(su), "inc": inc, "mode": mode.map(|x| x.name())});
                            match model {
                                None => {
                                    rep.hit("undecided/duration_round_increment_on_date_unit");
                                }
                                Some(mres) => {
                                    let accepted = judge_accept(rep, &mut cx, &opname, &cell, mres.is_ok(), kind, case.clone());
                                    if let (true, Ok((l, s)), Out::Ok(g), false) = (accepted, mres, &r, has_cal) {
                                        if l <= Unit::Day && s <= Unit::Day {
                                            let total = crate::refmodel::dur::time_total(&fields);
                                            let m = mode.unwrap_or(Mode::HalfExpand);
                                            let (rounded, _) = round_int(total, i as i128 * unit_ns(s).unwrap(), m);
                                            let exp = fields_f64(0, 0, 0, balance(rounded, l));
                                            cx.value_checked += 1;
                                            if dur_fields(g) != exp {
                                                rep.violation("C10.resolve", &opname, &cell, case, format!("{:?}", dur_fields(g)), format!("{exp:?}"));
                                            }
                                        }
                                    }
                                }
                            }
                        }
                    }
                }
            }
        }
        // total(unit)
        for &u in &ou {
            let Some(u) = u else { continue };
            for rel in [false, true] {
                cell_no += 1;
                if !rep.cfg.mine(cell_no) || !rep.begin() {
                    continue;
                }
                let ok = u != Unit::Auto && (rel || !(has_cal || u.is_calendar_unit()));
                let relative = if rel { Some(RelativeTo::PlainDate(PlainDate::try_new(2020, 1, 15, iso.clone()).expect("date"))) } else { None };
                let r = call(|| dur10(fields)?.total_with_provider(u, relative, &prov));
                let kind = match &r {
                    Out::Ok(_) => Some(Ok(())),
                    Out::Err(k, _) => Some(Err(*k)),
                    Out::Panic(..) => None,
                };
                let opname = format!("Duration::total({dname},{})", if rel { "relativeTo=date" } else { "no-relativeTo" });
                judge_accept(rep, &mut cx, &opname, &format!("({})", unit_name(u)), ok, kind, json!({"op": opname, "unit": unit_name(u)}));
            }
        }
    }

    // ------------------------------------------------------------------ toString precision options
    let precs: Vec<(Precision, &str)> = vec![(Precision::Auto, "auto"), (Precision::Digit(0), "0"), (Precision::Digit(3), "3"), (Precision::Digit(9), "9"), (Precision::Digit(10), "10"), (Precision::Digit(255), "255")];
    for (pi, (_, pname)) in precs.iter().enumerate() {
        for &su in &ou {
            cell_no += 1;
            if !rep.cfg.mine(cell_no) {
                continue;
            }
            for &mode in &om {
                if !rep.begin() {
                    continue;
                }
                let mk = || ToStringRoundingOptions { precision: match pi { 0 => Precision::Auto, 1 => Precision::Digit(0), 2 => Precision::Digit(3), 3 => Precision::Digit(9), 4 => Precision::Digit(10), _ => Precision::Digit(255) }, smallest_unit: su, rounding_mode: mode.map(|m| m.to_lib()) };
                // smallestUnit wins over fractionalSecondDigits; it must be minute..nanosecond; digits must be 0..=9
                let unit_ok = matches!(su, None | Some(Unit::Minute) | Some(Unit::Second) | Some(Unit::Millisecond) | Some(Unit::Microsecond) | Some(Unit::Nanosecond));
                let digits_ok = su.is_some() || pi <= 3;
                let ok = unit_ok && digits_ok;
                let dur_ok = ok && su != Some(Unit::Minute);
                let cell = format!("({},{})", pname, on(su));
                let mut judge = |rep: &mut Report, cx: &mut Ctx, name: &str, k: Option<Result<(), ErrorKind>>, okv: bool| {
                    judge_accept(rep, cx, name, &cell, okv, k, json!({"op": name, "digits": pname, "smallest": on(su), "mode": mode.map(|m| m.name())}));
                };
                let to_kind = |r: &Out<String>| match r {
                    Out::Ok(_) => Some(Ok(())),
                    Out::Err(k, _) => Some(Err(*k)),
                    Out::Panic(..) => None,
                };
                let r = call(|| ptime(t_a)?.to_ixdtf_string(mk()));
                judge(rep, &mut cx, "PlainTime::to_ixdtf_string", to_kind(&r), ok);
                let r = call(|| pdt_from_local(dt_a)?.to_ixdtf_string(mk(), temporal_rs::options::DisplayCalendar::Auto));
                judge(rep, &mut cx, "PlainDateTime::to_ixdtf_string", to_kind(&r), ok);
                let r = call(|| Instant::try_new(i_a)?.to_ixdtf_string_with_provider(None, mk(), &prov));
                judge(rep, &mut cx, "Instant::to_ixdtf_string", to_kind(&r), ok);
                let r = call(|| {
                    ZonedDateTime::try_new(i_a, iso.clone(), TimeZone::default())?.to_ixdtf_string_with_provider(temporal_rs::options::DisplayOffset::Auto, temporal_rs::options::DisplayTimeZone::Auto, temporal_rs::options::DisplayCalendar::Auto, mk(), &prov)
                });
                judge(rep, &mut cx, "ZonedDateTime::to_ixdtf_string", to_kind(&r), ok);
                let r = call(|| dur10([0., 0., 0., 0., 28., 13., 37., 500., 0., 0.])?.as_temporal_string(mk()));
                judge(rep, &mut cx, "Duration::as_temporal_string", to_kind(&r), dur_ok);
            }
        }
    }

    rep.evaluations += cx.evals;
    rep.nontrivial_direct(cx.evals);
    rep.add("cells/evaluated", cx.evals);
    rep.add("cells/model_accepts", cx.accepted);
    rep.add("cells/model_rejects", cx.rejected);
    rep.add("cells/value_checked", cx.value_checked);
    rep.exhaustive = Some(true);
    rep.sample("cell", || json!({"op": "PlainTime::until", "largest": "absent", "smallest": "minute", "inc": 15, "mode": "absent", "model": "accept; resolved largest=hour, mode=trunc"}));
    rep.require("cells/model_accepts");
    rep.require("cells/model_rejects");
    rep.require("cells/value_checked");
}
