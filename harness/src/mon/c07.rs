//! C07 - rounding picks the neighbouring multiple prescribed by the mode.
//!
//! Oracle: refmodel::round (exact integers / rationals). Workloads: exhaustive residue-class
//! sweep through the hooks (integer and float instantiation of the crate's rounder), and the
//! public entry points: PlainTime/PlainDateTime/Instant::round, until/since with
//! smallestUnit/increment/mode, toString with fractional-digit precision.

use crate::core::*;
use crate::fp;
use crate::refmodel::civil::{MAX_INSTANT, NS_PER_DAY};
use crate::refmodel::round::*;
use crate::util::*;
use serde_json::json;
use temporal_rs::options::{ToStringRoundingOptions, Unit};
use temporal_rs::parsers::Precision;
use temporal_rs::{Calendar, Instant, PlainDateTime, TimeZone, ZonedDateTime};

const TIME_UNITS: [Unit; 6] = [Unit::Hour, Unit::Minute, Unit::Second, Unit::Millisecond, Unit::Microsecond, Unit::Nanosecond];

pub fn unit_max(u: Unit) -> u32 {
    match u {
        Unit::Hour => 24,
        Unit::Minute | Unit::Second => 60,
        _ => 1000,
    }
}

pub fn divisors_below(m: u32) -> Vec<u32> {
    (1..m).filter(|d| m % d == 0).collect()
}

fn shape(unit: &str, s: i128, pos: Pos, x: i128) -> String {
    format!(
        "({unit},{},{},{})",
        if s % 2 == 0 { "even" } else { "odd" },
        pos.name(),
        if x < 0 { "neg" } else { "nonneg" }
    )
}

/// Offsets within one step S that hit every position class.
pub fn offsets(s: i128, rng: &mut Rng) -> Vec<i128> {
    let mut v = vec![0, 1, s / 2 - 1, s / 2, (s + 1) / 2, s / 2 + 1, s - 1, rng.range128(0, s - 1)];
    v.retain(|o| (0..s).contains(o));
    v.dedup();
    v
}

// ---------------------------------------------------------------------------------------
// (a) hook sweep

fn hook_sweep(rep: &mut Report) {
    let mut evals = 0u64;
    let mut ties = 0u64;
    let mut nonexact = 0u64;
    // integer instantiation: inc 1..=64 and a few others, x in [-3 inc, 3 inc]
    let mut incs: Vec<i128> = (1..=64).collect();
    incs.extend([100, 125, 1000, 999_999_937]);
    let big: [i128; 4] = [1_000_000_000, 60_000_000_000, 3_600_000_000_000, 86_400_000_000_000];
    for (idx, &inc) in incs.iter().chain(big.iter()).enumerate() {
        if !rep.cfg.mine(idx as u64) {
            continue;
        }
        let xs: Vec<i128> = if inc <= 1000 {
            (-3 * inc..=3 * inc).collect()
        } else {
            let mut v = Vec::new();
            for k in -3..=3i128 {
                for r in [0, 1, inc / 2 - 1, inc / 2, (inc + 1) / 2, inc / 2 + 1, inc - 1] {
                    v.push(k * inc + r);
                }
            }
            v
        };
        for &x in &xs {
            for m in ALL_MODES {
                if !rep.begin() {
                    continue;
                }
                evals += 1;
                let (exp, pos) = round_int(x, inc, m);
                if pos != Pos::Exact {
                    nonexact += 1;
                }
                if pos == Pos::Tie {
                    ties += 1;
                }
                let got = call_inf(|| temporal_rs::verif_hooks::round_i128(x, inc as u128, m.to_lib()));
                match got {
                    Out::Ok(Some(g)) if g == exp => {}
                    Out::Panic(..) => rep.inconclusive("C07.nearest", "panic"),
                    other => rep.violation(
                        "C07.nearest",
                        "hook.round_i128",
                        &shape("int", inc, pos, x),
                        json!({"x": x.to_string(), "inc": inc.to_string(), "mode": m.name()}),
                        other.show(),
                        exp.to_string(),
                    ),
                }
            }
        }
    }
    // float instantiation: inc 1..=12, x = n/64 (exact dyadics incl. exact ties)
    for inc in 1..=12i128 {
        if !rep.cfg.mine(1000 + inc as u64) {
            continue;
        }
        for n in -64 * 3 * inc..=64 * 3 * inc {
            let x = n as f64 / 64.0;
            for m in ALL_MODES {
                if !rep.begin() {
                    continue;
                }
                evals += 1;
                let (exp, pos) = round_rat(n, 64, inc, m);
                if pos != Pos::Exact {
                    nonexact += 1;
                }
                if pos == Pos::Tie {
                    ties += 1;
                }
                let got = call_inf(|| temporal_rs::verif_hooks::round_f64(x, inc as u128, m.to_lib()));
                match got {
                    Out::Ok(Some(g)) if g == exp => {}
                    Out::Panic(..) => rep.inconclusive("C07.nearest", "panic"),
                    other => rep.violation(
                        "C07.nearest",
                        "hook.round_f64",
                        &shape("f64", inc, pos, n),
                        json!({"x": x, "inc": inc.to_string(), "mode": m.name()}),
                        other.show(),
                        exp.to_string(),
                    ),
                }
            }
        }
    }
    rep.evaluations += evals;
    rep.nontrivial_direct(nonexact);
    rep.add("hook/evaluations", evals);
    rep.add("hook/ties", ties);
    rep.add("hook/nonexact", nonexact);
    rep.sample("hook", || json!({"op": "hook.round_i128", "x": "-7", "inc": "5", "mode": "halfEven", "expected": round_int(-7, 5, Mode::HalfEven).0.to_string()}));
}

// ---------------------------------------------------------------------------------------
// (b) public entry points

fn note(rep: &mut Report, t: &mut Tally, op: &str, pos: Pos, key: u64) {
    t.evals += 1;
    if pos == Pos::Tie {
        t.ties += 1;
        rep.hit(&format!("ties/{op}"));
    }
    if pos != Pos::Exact {
        rep.nontrivial(key);
    }
}

fn time_round(rep: &mut Report, t: &mut Tally) {
    let mut rng = rep.cfg.rng("time_round");
    let nrand = rep.cfg.budget(300_000, 40_000_000);
    let mut cell = 0u64;
    for u in TIME_UNITS {
        let uns = unit_ns(u).unwrap();
        for inc in divisors_below(unit_max(u)) {
            let s = inc as i128 * uns;
            for m in ALL_MODES {
                cell += 1;
                let mine = rep.cfg.mine(cell);
                let offs = offsets(s, &mut rng);
                for o in offs {
                    for _ in 0..2 {
                        let k = rng.range128(0, NS_PER_DAY / s - 1);
                        if !mine || !rep.begin() {
                            continue;
                        }
                        one_time_round(rep, t, u, inc, m, k * s + o);
                    }
                }
            }
        }
    }
    for _ in 0..nrand {
        let u = *rng.pick(&TIME_UNITS);
        let incs = divisors_below(unit_max(u));
        let inc = *rng.pick(&incs);
        let m = *rng.pick(&ALL_MODES);
        let ns = rng.range128(0, NS_PER_DAY - 1);
        if rep.begin() {
            one_time_round(rep, t, u, inc, m, ns);
        }
    }
}

fn one_time_round(rep: &mut Report, t: &mut Tally, u: Unit, inc: u32, m: Mode, ns: i128) {
    let s = inc as i128 * unit_ns(u).unwrap();
    let (exp, pos) = round_int(ns, s, m);
    let exp = exp.rem_euclid(NS_PER_DAY);
    note(rep, t, "PlainTime::round", pos, fp!(10u64, ns as u64, s as u64, m as u64));
    let r = call(|| ptime(ns)?.round(u, Some(inc as f64), Some(m.to_lib())));
    // halfEven ties: "the even multiple" counted from midnight (property C05 wording) or within the
    // enclosing unit (the specification's RoundTime) differ when unit_max/inc is odd; both are accepted.
    let alt = even_origin_alternative(u, inc, m, pos, ns, s).map(|a| a.rem_euclid(NS_PER_DAY));
    if alt.is_some() {
        rep.hit("halfeven_origin_ambiguous");
    }
    match r {
        Out::Ok(g) if ptime_ns(&g) == exp || Some(ptime_ns(&g)) == alt => {}
        Out::Panic(..) | Out::Err(temporal_rs::error::ErrorKind::Assert, _) => rep.inconclusive("C07.nearest", "panic"),
        other => rep.violation(
            "C07.nearest",
            "PlainTime::round",
            &shape(unit_name(u), s, pos, ns),
            json!({"time": fmt_ns_of_day(ns), "unit": unit_name(u), "inc": inc, "mode": m.name()}),
            other.map(|g| fmt_ns_of_day(ptime_ns(&g))).show(),
            fmt_ns_of_day(exp),
        ),
    }
    rep.sample(&format!("tr{}", unit_name(u)), || json!({"op": "PlainTime::round", "time": fmt_ns_of_day(ns), "unit": unit_name(u), "inc": inc, "mode": m.name(), "expected": fmt_ns_of_day(exp)}));
}

/// For a halfEven tie of a wall-clock time: the other neighbour, when the parity of the lower multiple
/// depends on whether multiples are counted from midnight or from the start of the enclosing unit.
fn even_origin_alternative(u: Unit, inc: u32, m: Mode, pos: Pos, tod: i128, s: i128) -> Option<i128> {
    if m != Mode::HalfEven || pos != Pos::Tie || u == Unit::Day {
        return None;
    }
    if (unit_max(u) / inc) % 2 == 0 {
        return None;
    }
    let lo = tod.div_euclid(s) * s;
    let (r, _) = round_int(tod, s, m);
    Some(if r == lo { lo + s } else { lo })
}

pub const DT_LIMIT: i128 = MAX_INSTANT + NS_PER_DAY; // exclusive on both sides

fn datetime_round(rep: &mut Report, t: &mut Tally) {
    let mut rng = rep.cfg.rng("dt_round");
    let nrand = rep.cfg.budget(300_000, 40_000_000);
    let mut units: Vec<(Unit, Vec<u32>)> = TIME_UNITS.iter().map(|u| (*u, divisors_below(unit_max(*u)))).collect();
    units.push((Unit::Day, vec![1]));
    let mut cell = 0u64;
    let pick_day = |rng: &mut Rng| -> i128 {
        match rng.below(6) {
            0 => rng.range(-100_000_000, -99_999_990) as i128,
            1 => rng.range(99_999_990, 100_000_000) as i128,
            2 => rng.range(-3, 3) as i128,
            _ => rng.range(-100_000_000, 100_000_000) as i128,
        }
    };
    for (u, incs) in &units {
        let uns = unit_ns(*u).unwrap();
        for &inc in incs {
            let s = inc as i128 * uns;
            for m in ALL_MODES {
                cell += 1;
                let mine = rep.cfg.mine(cell);
                for o in offsets(s, &mut rng) {
                    let k = rng.range128(0, NS_PER_DAY / s - 1);
                    let last = NS_PER_DAY / s - 1; // the last step of the day: rounding up carries into the next day
                    for kk in [k, last] {
                        let day = pick_day(&mut rng);
                        if !mine || !rep.begin() {
                            continue;
                        }
                        one_dt_round(rep, t, *u, inc, m, day * NS_PER_DAY + kk * s + o);
                    }
                }
            }
        }
    }
    for _ in 0..nrand {
        let (u, incs) = rng.pick(&units).clone();
        let inc = *rng.pick(&incs);
        let m = *rng.pick(&ALL_MODES);
        let local = pick_day(&mut rng) * NS_PER_DAY + rng.range128(0, NS_PER_DAY - 1);
        if rep.begin() {
            one_dt_round(rep, t, u, inc, m, local);
        }
    }
}

fn one_dt_round(rep: &mut Report, t: &mut Tally, u: Unit, inc: u32, m: Mode, local: i128) {
    dt_round_case(rep, t, "C07.nearest", u, inc, m, local)
}

pub struct Tally {
    pub evals: u64,
    pub ties: u64,
}

/// One PlainDateTime::round case against the exact oracle (shared with C05).
pub fn dt_round_case(rep: &mut Report, t: &mut Tally, clause: &str, u: Unit, inc: u32, m: Mode, local: i128) {
    if local <= -DT_LIMIT || local >= DT_LIMIT {
        return;
    }
    let s = inc as i128 * unit_ns(u).unwrap();
    let day = local.div_euclid(NS_PER_DAY);
    let tod = local.rem_euclid(NS_PER_DAY);
    let (r, pos) = round_int(tod, s, m);
    let exp = day * NS_PER_DAY + r;
    let exp_ok = exp > -DT_LIMIT && exp < DT_LIMIT;
    note(rep, t, "PlainDateTime::round", pos, fp!(11u64, local as u64, (local >> 64) as u64, s as u64, m as u64));
    if r == NS_PER_DAY {
        rep.hit("dt_round/carry_into_next_day");
    }
    if !exp_ok {
        rep.hit("dt_round/leaves_range");
    }
    let res = call(|| pdt_from_local(local)?.round(round_opts(None, Some(u), Some(m.to_lib()), Some(inc))));
    let case = || json!({"datetime_local_ns": local.to_string(), "unit": unit_name(u), "inc": inc, "mode": m.name()});
    let alt = even_origin_alternative(u, inc, m, pos, tod, s).map(|a| day * NS_PER_DAY + a);
    if alt.is_some() {
        rep.hit("halfeven_origin_ambiguous");
    }
    match (&res, exp_ok) {
        (Out::Ok(g), true) if pdt_local_ns(g) == exp || Some(pdt_local_ns(g)) == alt => {}
        (Out::Ok(g), false) if Some(pdt_local_ns(g)) == alt && alt.map(|a| a > -DT_LIMIT && a < DT_LIMIT) == Some(true) => {}
        (Out::Err(temporal_rs::error::ErrorKind::Range, _), true) if alt.map(|a| a <= -DT_LIMIT || a >= DT_LIMIT) == Some(true) => {}
        (Out::Err(temporal_rs::error::ErrorKind::Range, _), false) => {}
        (Out::Panic(..), _) | (Out::Err(temporal_rs::error::ErrorKind::Assert, _), _) => rep.inconclusive(clause, "panic"),
        _ => rep.violation(
            clause,
            "PlainDateTime::round",
            &format!("{}{}", shape(unit_name(u), s, pos, local), if exp_ok { "" } else { "/leaves-range" }),
            case(),
            res.map(|g| pdt_local_ns(&g).to_string()).show(),
            if exp_ok { exp.to_string() } else { "Err(RangeError)".into() },
        ),
    }
    rep.sample(&format!("dtr{}", unit_name(u)), || json!({"op": "PlainDateTime::round", "case": case(), "expected_local_ns": exp.to_string()}));
}

fn instant_incs(u: Unit, rng: &mut Rng) -> Vec<u32> {
    let day_len: u64 = (NS_PER_DAY / unit_ns(u).unwrap()) as u64;
    let mut v: Vec<u32> = Vec::new();
    if day_len <= 100_000 {
        for d in 1..=day_len {
            if day_len % d == 0 {
                v.push(d as u32);
            }
        }
    } else {
        // sample divisors 2^a 3^b 5^c of the day length that fit RoundingIncrement (<= 1e9)
        for _ in 0..60 {
            let mut d: u64 = 1;
            for (p, maxe) in [(2u64, 16u32), (3, 3), (5, 11)] {
                let e = rng.below(maxe as u64 + 1) as u32;
                for _ in 0..e {
                    if d * p <= 1_000_000_000 && day_len % (d * p) == 0 {
                        d *= p;
                    }
                }
            }
            v.push(d as u32);
        }
        v.extend([1, 3, 5, 125, 1_000_000_000u32.min(day_len as u32)]);
        v.retain(|d| day_len % (*d as u64) == 0);
        v.sort();
        v.dedup();
    }
    v
}

fn pick_instant(rng: &mut Rng) -> i128 {
    match rng.below(6) {
        0 => MAX_INSTANT - rng.range128(0, 2 * NS_PER_DAY),
        1 => -MAX_INSTANT + rng.range128(0, 2 * NS_PER_DAY),
        2 => rng.range128(-3 * NS_PER_DAY, 3 * NS_PER_DAY),
        _ => rng.range128(-MAX_INSTANT, MAX_INSTANT),
    }
}

fn instant_round(rep: &mut Report, t: &mut Tally) {
    let mut rng = rep.cfg.rng("instant_round");
    let nrand = rep.cfg.budget(300_000, 40_000_000);
    let mut cells: Vec<(Unit, u32)> = Vec::new();
    for u in TIME_UNITS {
        for inc in instant_incs(u, &mut rng) {
            cells.push((u, inc));
        }
    }
    let mut cell = 0u64;
    for &(u, inc) in &cells {
        let s = inc as i128 * unit_ns(u).unwrap();
        for m in ALL_MODES {
            cell += 1;
            let mine = rep.cfg.mine(cell);
            for o in offsets(s, &mut rng) {
                let base = pick_instant(&mut rng).div_euclid(s) * s;
                if !mine || !rep.begin() {
                    continue;
                }
                one_instant_round(rep, t, u, inc, m, base + o);
            }
        }
    }
    for _ in 0..nrand {
        let (u, inc) = *rng.pick(&cells);
        let m = *rng.pick(&ALL_MODES);
        let ns = pick_instant(&mut rng);
        if rep.begin() {
            one_instant_round(rep, t, u, inc, m, ns);
        }
    }
}

fn one_instant_round(rep: &mut Report, t: &mut Tally, u: Unit, inc: u32, m: Mode, ns: i128) {
    if ns.abs() > MAX_INSTANT {
        return;
    }
    let s = inc as i128 * unit_ns(u).unwrap();
    let (exp, pos) = round_int(ns, s, m);
    let exp_ok = exp.abs() <= MAX_INSTANT;
    note(rep, t, "Instant::round", pos, fp!(12u64, ns as u64, (ns >> 64) as u64, s as u64, m as u64));
    let res = call(|| Instant::try_new(ns)?.round(round_opts(None, Some(u), Some(m.to_lib()), Some(inc))));
    let case = || json!({"instant_ns": ns.to_string(), "unit": unit_name(u), "inc": inc, "mode": m.name()});
    match (&res, exp_ok) {
        (Out::Ok(g), true) if g.as_i128() == exp => {}
        (Out::Err(temporal_rs::error::ErrorKind::Range, _), false) => {}
        (Out::Panic(..), _) | (Out::Err(temporal_rs::error::ErrorKind::Assert, _), _) => rep.inconclusive("C07.nearest", "panic"),
        _ => rep.violation(
            "C07.nearest",
            "Instant::round",
            &format!("{}{}", shape(unit_name(u), s, pos, ns), if exp_ok { "" } else { "/leaves-range" }),
            case(),
            res.map(|g| g.as_i128().to_string()).show(),
            if exp_ok { exp.to_string() } else { "Err(RangeError)".into() },
        ),
    }
    rep.sample(&format!("ir{}", unit_name(u)), || json!({"op": "Instant::round", "case": case(), "expected": exp.to_string()}));
}

// ---- until / since with smallestUnit / increment / mode

#[derive(Clone, Copy, PartialEq)]
enum DiffKind {
    Time,
    DateTime,
    Instant,
}

fn diffs(rep: &mut Report, t: &mut Tally) {
    let mut rng = rep.cfg.rng("diffs");
    let nrand = rep.cfg.budget(600_000, 60_000_000);
    let mut cells: Vec<(Unit, u32)> = Vec::new();
    for u in TIME_UNITS {
        for inc in divisors_below(unit_max(u)) {
            cells.push((u, inc));
        }
    }
    let kinds = [DiffKind::Time, DiffKind::DateTime, DiffKind::Instant];
    let mut cell = 0u64;
    for &(u, inc) in &cells {
        let s = inc as i128 * unit_ns(u).unwrap();
        for m in ALL_MODES {
            for kind in kinds {
                for since in [false, true] {
                    cell += 1;
                    let mine = rep.cfg.mine(cell);
                    for o in offsets(s, &mut rng) {
                        let neg = rng.bool();
                        // target difference d = +-(k*s + o)
                        let kmax = match kind {
                            DiffKind::Time => (NS_PER_DAY - 1) / s - 1,
                            _ => (40 * NS_PER_DAY) / s,
                        }
                        .max(0);
                        let k = rng.range128(0, kmax);
                        let d = if neg { -(k * s + o) } else { k * s + o };
                        let a = match kind {
                            DiffKind::Time => {
                                if d >= 0 {
                                    rng.range128(0, NS_PER_DAY - 1 - d)
                                } else {
                                    rng.range128(-d, NS_PER_DAY - 1)
                                }
                            }
                            _ => rng.range128(-MAX_INSTANT + 41 * NS_PER_DAY, MAX_INSTANT - 41 * NS_PER_DAY),
                        };
                        if !mine || !rep.begin() {
                            continue;
                        }
                        one_diff(rep, t, kind, since, u, inc, m, a, a + d, rng.below(3));
                    }
                }
            }
        }
    }
    for _ in 0..nrand {
        let (u, inc) = *rng.pick(&cells);
        let m = *rng.pick(&ALL_MODES);
        let kind = *rng.pick(&kinds);
        let since = rng.bool();
        let (a, b) = match kind {
            DiffKind::Time => (rng.range128(0, NS_PER_DAY - 1), rng.range128(0, NS_PER_DAY - 1)),
            _ => {
                let a = pick_instant(&mut rng);
                let b = if rng.bool() { pick_instant(&mut rng) } else { (a + rng.range128(-3 * NS_PER_DAY, 3 * NS_PER_DAY)).clamp(-MAX_INSTANT, MAX_INSTANT) };
                (a, b)
            }
        };
        let lsel = rng.below(3);
        if rep.begin() {
            one_diff(rep, t, kind, since, u, inc, m, a, b, lsel);
        }
    }
    // PlainDate: smallest unit day with increment k (largest day): plain integer rounding of the day count
    let ndate = rep.cfg.budget(100_000, 5_000_000);
    for _ in 0..ndate {
        let inc = match rng.below(4) {
            0 => rng.range(1, 12) as u32,
            1 => rng.range(1, 400) as u32,
            2 => *rng.pick(&[7u32, 30, 365, 1000, 99_999]),
            _ => rng.range(1, 100_000) as u32,
        };
        let m = *rng.pick(&ALL_MODES);
        let since = rng.bool();
        let ka = rng.range(-90_000_000, 90_000_000);
        let span = match rng.below(3) {
            0 => rng.range(-3 * inc as i64, 3 * inc as i64),
            1 => rng.range(-1_000_000, 1_000_000),
            _ => {
                let k = rng.range(-50, 50);
                k * inc as i64 + *rng.pick(&[0i64, 1, inc as i64 / 2, (inc as i64 + 1) / 2, inc as i64 - 1])
            }
        };
        let kb = (ka + span).clamp(-100_000_000, 100_000_000);
        if !rep.begin() {
            continue;
        }
        let d = if since { ka - kb } else { kb - ka } as i128;
        let (exp, pos) = round_int(d, inc as i128, m);
        note(rep, t, "PlainDate::until/since(day)", pos, fp!(14u64, ka as u64, kb as u64, inc, m as u64, since));
        let res = call(|| {
            let a = pdate_from_days(ka)?;
            let b = pdate_from_days(kb)?;
            let st = diff_settings(Some(Unit::Day), Some(Unit::Day), Some(m.to_lib()), Some(inc));
            if since {
                a.since(&b, st)
            } else {
                a.until(&b, st)
            }
        });
        let exp_f = [0., 0., 0., exp as f64, 0., 0., 0., 0., 0., 0.];
        match &res {
            Out::Ok(g) if dur_fields(g) == exp_f => {}
            Out::Panic(..) | Out::Err(temporal_rs::error::ErrorKind::Assert, _) => rep.inconclusive("C07.nearest", "panic"),
            _ => rep.violation(
                "C07.nearest",
                if since { "PlainDate::since" } else { "PlainDate::until" },
                &shape("day", inc as i128, pos, d),
                json!({"ka": ka, "kb": kb, "inc": inc, "mode": m.name()}),
                res.map(|g| format!("{:?}", dur_fields(&g))).show(),
                format!("{exp_f:?}"),
            ),
        }
    }
}

#[allow(clippy::too_many_arguments)]
fn one_diff(rep: &mut Report, t: &mut Tally, kind: DiffKind, since: bool, u: Unit, inc: u32, m: Mode, a: i128, b: i128, lsel: u64) {
    let s = inc as i128 * unit_ns(u).unwrap();
    // a.until(b) rounds (b - a); a.since(b) rounds (a - b); both with the *given* mode (that is what
    // "since applies the mode as if negated [to the negated difference]" amounts to)
    let d = if since { a - b } else { b - a };
    let (exp, pos) = round_int(d, s, m);
    let opname = match (kind, since) {
        (DiffKind::Time, false) => "PlainTime::until",
        (DiffKind::Time, true) => "PlainTime::since",
        (DiffKind::DateTime, false) => "PlainDateTime::until",
        (DiffKind::DateTime, true) => "PlainDateTime::since",
        (DiffKind::Instant, false) => "Instant::until",
        (DiffKind::Instant, true) => "Instant::since",
    };
    note(rep, t, opname, pos, fp!(13u64, a as u64, b as u64, (a >> 64) as u64, s as u64, m as u64, since));
    // largest unit: default / hour / the smallest unit itself
    let largest = match lsel {
        0 => None,
        1 => Some(Unit::Hour),
        _ => Some(u),
    };
    let st = diff_settings(largest, Some(u), Some(m.to_lib()), Some(inc));
    let res = call(|| match kind {
        DiffKind::Time => {
            let (x, y) = (ptime(a)?, ptime(b)?);
            if since {
                x.since(&y, st)
            } else {
                x.until(&y, st)
            }
        }
        DiffKind::DateTime => {
            let (x, y) = (pdt_from_local(a)?, pdt_from_local(b)?);
            if since {
                x.since(&y, st)
            } else {
                x.until(&y, st)
            }
        }
        DiffKind::Instant => {
            let (x, y) = (Instant::try_new(a)?, Instant::try_new(b)?);
            if since {
                x.since(&y, st)
            } else {
                x.until(&y, st)
            }
        }
    });
    let case = || json!({"a": a.to_string(), "b": b.to_string(), "unit": unit_name(u), "inc": inc, "mode": m.name(), "largest": largest.map(unit_name)});
    // expected fields: the exact rounded total balanced to the resolved largest unit, each field converted
    // to the nearest double (durations hold float64 fields; above 2^53 a field is the nearest double)
    let default_largest = match kind {
        DiffKind::Time => Unit::Hour,
        DiffKind::DateTime => Unit::Day,
        DiffKind::Instant => Unit::Second,
    };
    let resolved_largest = match largest {
        Some(l) => l,
        None => default_largest.max(u),
    };
    let exp_fields = crate::refmodel::dur::fields_f64(0, 0, 0, crate::refmodel::dur::balance(exp, resolved_largest));
    match &res {
        Out::Ok(g) if dur_fields(g) == exp_fields => {}
        Out::Panic(..) | Out::Err(temporal_rs::error::ErrorKind::Assert, _) => rep.inconclusive("C07.nearest", "panic"),
        _ => rep.violation(
            "C07.nearest",
            opname,
            &shape(unit_name(u), s, pos, d),
            case(),
            res.map(|g| format!("{:?}", dur_fields(&g))).show(),
            format!("{exp_fields:?} (total_ns={exp})"),
        ),
    }
    rep.sample(opname, || json!({"op": opname, "case": case(), "exact_diff_ns": d.to_string(), "expected_total_ns": exp.to_string()}));
}

// ---- until / since of plain dates with a calendar smallest unit and an increment
//
// The value being rounded is the exact (rational) number of weeks / months / years between the dates, counted from the
// receiver as the specification does; the two neighbouring multiples and the choice between them come from the
// add-and-remeasure model of C08 (refmodel::relround), which uses exact rationals.
fn calendar_diffs(rep: &mut Report, t: &mut Tally) {
    use crate::refmodel::civil::*;
    use crate::refmodel::relround::{round_relative, RelErr};
    let mut rng = rep.cfg.rng("calendar-diffs");
    let n = rep.cfg.budget(160_000, 8_000_000);
    for _ in 0..n {
        let sub = rng.u64();
        if !rep.begin() {
            continue;
        }
        let mut r = Rng::new(sub, "calendar-diff", 0);
        let day0 = if r.chance(1, 6) { r.range(-99_000_000, 99_000_000) } else { r.range(-30_000, 60_000) };
        let (y0, m0, _) = civil_from_days(day0);
        // month ends, leap days and the 1st are where the month lengths on the two sides differ
        let day0 = if r.chance(1, 3) { days_from_civil(y0, m0, *r.pick(&[1u8, 28, 29, 30, 31]).min(&dim(y0, m0))) } else { day0 };
        let span = *r.pick(&[40i64, 400, 1_500, 40_000]);
        let day1 = day0 + r.range(-span, span);
        let smallest = *r.pick(&[Unit::Week, Unit::Month, Unit::Month, Unit::Year]);
        let largest = match smallest {
            Unit::Week => *r.pick(&[Unit::Week, Unit::Month, Unit::Year]),
            Unit::Month => *r.pick(&[Unit::Month, Unit::Year]),
            _ => Unit::Year,
        };
        let inc = *r.pick(&[1u32, 2, 2, 3, 4, 5, 6, 7, 10, 12, 25]);
        let m = *r.pick(&ALL_MODES);
        let since = r.bool();
        // a third of the time as year-months: both ends snapped to the first of their month, units month / year
        let as_ym = r.chance(1, 3) && smallest != Unit::Week && largest != Unit::Week;
        let (day0, day1) = if as_ym {
            let (ya, ma, _) = civil_from_days(day0);
            let (yb, mb, _) = civil_from_days(day1);
            (days_from_civil(ya, ma, 1), days_from_civil(yb, mb, 1))
        } else {
            (day0, day1)
        };
        let (Out::Ok(a), Out::Ok(b)) = (call(|| pdate_from_days(day0)), call(|| pdate_from_days(day1))) else { continue };
        // since(): the negated difference rounded with the mirrored mode, negated again
        let delta = (day1 - day0) as f64;
        let v = [0.0, 0.0, 0.0, if since { -delta } else { delta }, 0.0, 0.0, 0.0, 0.0, 0.0, 0.0];
        let exp = if since {
            // receiver.since(other) = -(other measured from receiver, rounded with the negated mode)
            round_relative(day0, &[0.0, 0.0, 0.0, delta, 0.0, 0.0, 0.0, 0.0, 0.0, 0.0], largest, smallest, inc as i128, m.mirrored()).map(|f| {
                let mut g = f;
                for x in g.iter_mut() {
                    if *x != 0.0 {
                        *x = -*x;
                    }
                }
                g
            })
        } else {
            round_relative(day0, &v, largest, smallest, inc as i128, m)
        };
        let st = diff_settings(Some(largest), Some(smallest), Some(m.to_lib()), Some(inc));
        let opname = match (as_ym, since) {
            (false, true) => "PlainDate::since",
            (false, false) => "PlainDate::until",
            (true, true) => "PlainYearMonth::since",
            (true, false) => "PlainYearMonth::until",
        };
        let got = if as_ym {
            call(|| {
                let (x, y) = (a.to_plain_year_month()?, b.to_plain_year_month()?);
                if since {
                    x.since(&y, st)
                } else {
                    x.until(&y, st)
                }
            })
        } else {
            call(|| if since { a.since(&b, st) } else { a.until(&b, st) })
        }
        .map(|d| dur_fields(&d));
        t.evals += 1;
        let (ya, ma, da) = civil_from_days(day0);
        let (yb, mb, db) = civil_from_days(day1);
        let case = || json!({"receiver": format!("{}-{:02}-{:02}", fmt_year(ya), ma, da), "other": format!("{}-{:02}-{:02}", fmt_year(yb), mb, db), "largest": unit_name(largest), "smallest": unit_name(smallest), "inc": inc, "mode": m.name()});
        let shape = format!("({}->{},{}{},{})", unit_name(largest), unit_name(smallest), if inc > 1 { "inc>1" } else { "inc=1" }, if day1 < day0 { ",backwards" } else { "" }, if da >= 28 { "month-end-receiver" } else { "plain-receiver" });
        match (&exp, &got) {
            (Err(RelErr::Undecided(_)), _) => rep.hit("calendar-diff/undecided"),
            (_, g) if g.is_broken() => rep.inconclusive("C07.nearest", "panic"),
            (Ok(e), Out::Ok(g)) if e == g => {
                rep.hit("calendar-diff/agreed");
                rep.nontrivial(fp!(31u64, day0 as u64, day1 as u64, inc as u64, m as u64, since, smallest as u64, largest as u64));
            }
            (Err(RelErr::Range), Out::Err(temporal_rs::error::ErrorKind::Range, _)) => rep.hit("calendar-diff/range"),
            _ => rep.violation("C07.nearest", opname, &shape, case(), got.show_with(|g| format!("{g:?}")), format!("{exp:?}")),
        }
        rep.sample(&format!("cd{}{}", unit_name(smallest), since), || json!({"op": opname, "case": case(), "expected": format!("{exp:?}")}));
    }
}

// ---- toString with fractional-digit precision / smallestUnit

/// Reads `[-]PT[nH][nM][n[.f]S]` (what a time-only duration prints as): (signed total ns, number of fraction digits).
fn read_time_duration(text: &str) -> Option<(i128, i32)> {
    let (neg, rest) = match text.strip_prefix('-') {
        Some(r) => (true, r),
        None => (false, text),
    };
    let rest = rest.strip_prefix("PT")?;
    let (mut total, mut digits, mut num, mut frac, mut in_frac, mut any, mut last) = (0i128, 0i32, 0i128, 0i128, false, false, 0u8);
    let mut fd = 0i32;
    for c in rest.bytes() {
        match c {
            b'0'..=b'9' => {
                if in_frac {
                    frac = frac * 10 + (c - b'0') as i128;
                    fd += 1;
                } else {
                    num = num.checked_mul(10)?.checked_add((c - b'0') as i128)?;
                }
                any = true;
            }
            b'.' if !in_frac => in_frac = true,
            b'H' | b'M' | b'S' => {
                let order = match c {
                    b'H' => 1,
                    b'M' => 2,
                    _ => 3,
                };
                if !any || order <= last || (in_frac && c != b'S') || fd > 9 {
                    return None;
                }
                last = order;
                let unit = match c {
                    b'H' => 3_600_000_000_000i128,
                    b'M' => 60_000_000_000,
                    _ => 1_000_000_000,
                };
                total = total.checked_add(num.checked_mul(unit)?)?;
                if in_frac {
                    total += frac * 10i128.pow((9 - fd) as u32);
                    digits = fd;
                }
                num = 0;
                frac = 0;
                in_frac = false;
                any = false;
            }
            _ => return None,
        }
    }
    if any || in_frac || last == 0 {
        return None;
    }
    if neg && total == 0 {
        return None;
    }
    Some((if neg { -total } else { total }, digits))
}

fn tostring(rep: &mut Report, t: &mut Tally) {
    let mut rng = rep.cfg.rng("tostring");
    let nrand = rep.cfg.budget(400_000, 40_000_000);
    let prov = NoZones;
    let tzs: Vec<TimeZone> = ["+00:00", "+05:30", "-03:30", "+14:00", "-12:00", "+00:01"]
        .iter()
        .map(|s| TimeZone::try_from_identifier_str(s).expect("offset zone"))
        .collect();
    let tz_off_ns: Vec<i128> = [0i128, 330, -210, 840, -720, 1].iter().map(|m| m * 60_000_000_000).collect();
    // precision cells: Digit(0..=9), Minute, and the smallestUnit spellings
    #[derive(Clone, Copy)]
    enum P {
        Digit(u8),
        Minute,
        Unit(Unit),
    }
    let mut precs: Vec<P> = (0..=9).map(P::Digit).collect();
    for u in [Unit::Minute, Unit::Second, Unit::Millisecond, Unit::Microsecond, Unit::Nanosecond] {
        precs.push(P::Unit(u));
    }
    let step_of = |p: P| -> (i128, i32) {
        // (rounding step in ns, expected number of fraction digits; -1 = no seconds)
        match p {
            P::Digit(d) => (10i128.pow(9 - d as u32), d as i32),
            P::Minute | P::Unit(Unit::Minute) => (60_000_000_000, -1),
            P::Unit(Unit::Second) => (1_000_000_000, 0),
            P::Unit(Unit::Millisecond) => (1_000_000, 3),
            P::Unit(Unit::Microsecond) => (1_000, 6),
            P::Unit(_) => (1, 9),
        }
    };
    let opts_of = |p: P, m: Mode| -> ToStringRoundingOptions {
        match p {
            P::Digit(d) => ToStringRoundingOptions { precision: Precision::Digit(d), smallest_unit: None, rounding_mode: Some(m.to_lib()) },
            P::Minute => ToStringRoundingOptions { precision: Precision::Minute, smallest_unit: None, rounding_mode: Some(m.to_lib()) },
            P::Unit(u) => ToStringRoundingOptions { precision: Precision::Auto, smallest_unit: Some(u), rounding_mode: Some(m.to_lib()) },
        }
    };
    let pname = |p: P| -> String {
        match p {
            P::Digit(d) => format!("digits={d}"),
            P::Minute => "precision=minute".into(),
            P::Unit(u) => format!("smallestUnit={}", unit_name(u)),
        }
    };
    let total = {
        let mut n = 0u64;
        for _ in &precs {
            n += 9 * 4 * 8;
        }
        n
    } + nrand;
    let _ = total;
    let mut cell = 0u64;
    let run_one = |rep: &mut Report, t: &mut Tally, rng: &mut Rng, p: P, m: Mode, kind: u64, off: Option<i128>, directed: bool| {
        let (s, nd) = step_of(p);
        let o = match off {
            Some(o) => o,
            None => rng.range128(0, s - 1),
        };
        let _ = directed;
        let case_base = |v: String| json!({"value": v, "precision": pname(p), "mode": m.name()});
        match kind {
            0 => {
                // PlainTime
                let k = rng.range128(0, NS_PER_DAY / s - 1);
                let ns = (if rng.chance(1, 4) { NS_PER_DAY / s - 1 } else { k }) * s + o;
                let (r, pos) = round_int(ns, s, m);
                let exp = r.rem_euclid(NS_PER_DAY);
                note(rep, t, "PlainTime::to_ixdtf_string", pos, fp!(20u64, ns as u64, s as u64, m as u64));
                let res = call(|| ptime(ns)?.to_ixdtf_string(opts_of(p, m)));
                let ok = match &res {
                    Out::Ok(text) => {
                        let b = text.as_bytes();
                        let mut i = 0;
                        matches!(read_time(b, &mut i), Some((g, gd)) if i == b.len() && g == exp && gd == nd)
                    }
                    _ => false,
                };
                if res.is_broken() {
                    rep.inconclusive("C07.nearest", "panic");
                } else if !ok {
                    rep.violation("C07.nearest", "PlainTime::to_ixdtf_string", &shape(&pname(p), s, pos, ns), case_base(fmt_ns_of_day(ns)), res.show(), format!("{} with {} fraction digits", fmt_ns_of_day(exp), nd));
                }
                rep.sample(&format!("ts0{}", pname(p)), || json!({"op": "PlainTime::to_ixdtf_string", "case": case_base(fmt_ns_of_day(ns)), "expected": fmt_ns_of_day(exp)}));
            }
            1 => {
                // PlainDateTime
                let day = rng.range(-99_999_999, 99_999_999) as i128;
                let k = rng.range128(0, NS_PER_DAY / s - 1);
                let tod = (if rng.chance(1, 4) { NS_PER_DAY / s - 1 } else { k }) * s + o;
                let local = day * NS_PER_DAY + tod;
                let (r, pos) = round_int(tod, s, m);
                let exp = day * NS_PER_DAY + r;
                note(rep, t, "PlainDateTime::to_ixdtf_string", pos, fp!(21u64, local as u64, (local >> 64) as u64, s as u64, m as u64));
                let res = call(|| pdt_from_local(local)?.to_ixdtf_string(opts_of(p, m), temporal_rs::options::DisplayCalendar::Auto));
                let ok = match &res {
                    Out::Ok(text) => matches!(read_datetime(text), Some((g, gd, i)) if i == text.len() && g == exp && gd == nd),
                    _ => false,
                };
                if res.is_broken() {
                    rep.inconclusive("C07.nearest", "panic");
                } else if !ok {
                    rep.violation("C07.nearest", "PlainDateTime::to_ixdtf_string", &shape(&pname(p), s, pos, local), case_base(local.to_string()), res.show(), format!("local_ns={exp} with {nd} fraction digits"));
                }
            }
            2 => {
                // Instant at UTC
                let base = rng.range128(-MAX_INSTANT + NS_PER_DAY, MAX_INSTANT - NS_PER_DAY).div_euclid(s) * s;
                let ns = base + o;
                let (exp, pos) = round_int(ns, s, m);
                note(rep, t, "Instant::to_ixdtf_string", pos, fp!(22u64, ns as u64, (ns >> 64) as u64, s as u64, m as u64));
                let res = call(|| Instant::try_new(ns)?.to_ixdtf_string_with_provider(None, opts_of(p, m), &prov));
                let ok = match &res {
                    Out::Ok(text) => matches!(read_datetime(text), Some((g, gd, i)) if &text[i..] == "Z" && g == exp && gd == nd),
                    _ => false,
                };
                if res.is_broken() {
                    rep.inconclusive("C07.nearest", "panic");
                } else if !ok {
                    rep.violation("C07.nearest", "Instant::to_ixdtf_string", &shape(&pname(p), s, pos, ns), case_base(ns.to_string()), res.show(), format!("utc_ns={exp} with {nd} fraction digits and Z"));
                }
                rep.sample(&format!("ts2{}", pname(p)), || json!({"op": "Instant::to_ixdtf_string", "case": case_base(ns.to_string()), "expected_utc_ns": exp.to_string()}));
            }
            4 => {
                // Duration (time fields only, either sign): the signed total is rounded, not its magnitude
                if matches!(p, P::Minute | P::Unit(Unit::Minute)) {
                    return;
                }
                let kmax = *rng.pick(&[3i128, 3_600, 86_400 * 400, 4_000_000_000]) * 1_000_000_000 / s;
                let k = rng.range128(0, kmax.max(1));
                let mag = k * s + o;
                let total = if rng.bool() { -mag } else { mag };
                let (exp, pos) = round_int(total, s, m);
                note(rep, t, "Duration::as_temporal_string", pos, fp!(24u64, total as u64, (total >> 64) as u64, s as u64, m as u64));
                // spread the magnitude over the time fields (sometimes unbalanced: all of it in the seconds / nanoseconds field)
                let sg = if total < 0 { -1.0 } else { 1.0 };
                let a = total.abs();
                let v: [f64; 10] = match rng.below(3) {
                    0 if a < (1i128 << 53) => [0.0, 0.0, 0.0, 0.0, 0.0, 0.0, 0.0, 0.0, 0.0, sg * a as f64],
                    1 if a % 1_000 == 0 && a / 1_000 < (1i128 << 53) => [0.0, 0.0, 0.0, 0.0, 0.0, 0.0, 0.0, 0.0, sg * (a / 1_000) as f64, 0.0],
                    _ => [0.0, 0.0, 0.0, 0.0, sg * (a / 3_600_000_000_000) as f64, sg * (a / 60_000_000_000 % 60) as f64, sg * (a / 1_000_000_000 % 60) as f64, sg * (a / 1_000_000 % 1000) as f64, sg * (a / 1000 % 1000) as f64, sg * (a % 1000) as f64],
                };
                let res = call(|| dur10(v)?.as_temporal_string(opts_of(p, m)));
                let ok = match &res {
                    Out::Ok(text) => matches!(read_time_duration(text), Some((g, gd)) if g == exp && gd == nd.max(0)),
                    _ => false,
                };
                if res.is_broken() {
                    rep.inconclusive("C07.nearest", "panic");
                } else if !ok {
                    rep.violation("C07.nearest", "Duration::as_temporal_string", &shape(&pname(p), s, pos, total), case_base(format!("{v:?}")), res.show(), format!("a duration of {exp} ns printed with {} fraction digits", nd.max(0)));
                }
                rep.sample(&format!("ts4{}", pname(p)), || json!({"op": "Duration::as_temporal_string", "case": case_base(format!("{v:?}")), "expected_total_ns": exp.to_string()}));
            }
            _ => {
                // ZonedDateTime over a fixed offset
                let zi = rng.below(tzs.len() as u64) as usize;
                let base = rng.range128(-MAX_INSTANT + 2 * NS_PER_DAY, MAX_INSTANT - 2 * NS_PER_DAY).div_euclid(s) * s;
                let ns = base + o;
                let (r, pos) = round_int(ns, s, m);
                let exp_local = r + tz_off_ns[zi];
                note(rep, t, "ZonedDateTime::to_ixdtf_string", pos, fp!(23u64, ns as u64, (ns >> 64) as u64, s as u64, m as u64, zi));
                let tz = tzs[zi].clone();
                let res = call(|| {
                    ZonedDateTime::try_new(ns, Calendar::default(), tz)?.to_ixdtf_string_with_provider(
                        temporal_rs::options::DisplayOffset::Auto,
                        temporal_rs::options::DisplayTimeZone::Auto,
                        temporal_rs::options::DisplayCalendar::Auto,
                        opts_of(p, m),
                        &prov,
                    )
                });
                let ok = match &res {
                    Out::Ok(text) => matches!(read_datetime(text), Some((g, gd, _)) if g == exp_local && gd == nd),
                    _ => false,
                };
                if res.is_broken() {
                    rep.inconclusive("C07.nearest", "panic");
                } else if !ok {
                    rep.violation("C07.nearest", "ZonedDateTime::to_ixdtf_string", &shape(&pname(p), s, pos, ns), case_base(format!("{ns} in zone #{zi}")), res.show(), format!("local_ns={exp_local} with {nd} fraction digits"));
                }
            }
        }
    };
    for &p in &precs {
        let (s, _) = step_of(p);
        for m in ALL_MODES {
            for kind in 0..5u64 {
                cell += 1;
                let mine = rep.cfg.mine(cell);
                for o in offsets(s, &mut rng) {
                    // keep RNG consumption identical whether or not the case is selected
                    let mut sub = Rng::new(rng.u64(), "ts", 0);
                    if !mine || !rep.begin() {
                        continue;
                    }
                    run_one(rep, t, &mut sub, p, m, kind, Some(o), true);
                }
            }
        }
    }
    for _ in 0..nrand {
        let p = *rng.pick(&precs);
        let m = *rng.pick(&ALL_MODES);
        let kind = rng.below(5);
        let mut sub = Rng::new(rng.u64(), "ts", 1);
        if rep.begin() {
            run_one(rep, t, &mut sub, p, m, kind, None, false);
        }
    }
}

pub fn run(rep: &mut Report) {
    hook_sweep(rep);
    let mut t = Tally { evals: 0, ties: 0 };
    time_round(rep, &mut t);
    datetime_round(rep, &mut t);
    instant_round(rep, &mut t);
    diffs(rep, &mut t);
    calendar_diffs(rep, &mut t);
    tostring(rep, &mut t);
    rep.evaluations += t.evals;
    rep.add("public/evaluations", t.evals);
    rep.add("public/ties", t.ties);
    rep.exhaustive = Some(false);
    rep.extra.insert("hook_sweep_exhaustive".into(), json!(true));
    rep.require("public/evaluations");
    rep.require("public/ties");
    let _ = PlainDateTime::default();
}
