//! C08 - rounding / totalling / comparing a duration relative to a plain date is "add it and re-measure exactly".
//!
//! Oracle: refmodel::relround (exact integer / rational arithmetic over the C04 date model) plus laws evaluated on the
//! implementation's own output: re-measuring `relativeTo -> relativeTo + result` with the same largest unit returns the
//! result (top-heavy balance), the result is sign-uniform, and mirrored rounding of the negated duration negates it.

use crate::core::*;
use crate::fp;
use crate::mon::c04::gen_day;
use crate::refmodel::civil::*;
use crate::refmodel::dur;
use crate::refmodel::relround::*;
use crate::refmodel::round::{Mode, ALL_MODES};
use crate::util::*;
use serde_json::json;
use temporal_rs::error::ErrorKind;
use temporal_rs::options::{RelativeTo, Unit};
use temporal_rs::{Calendar, PlainDate};

const UNITS10: [Unit; 10] = [Unit::Year, Unit::Month, Unit::Week, Unit::Day, Unit::Hour, Unit::Minute, Unit::Second, Unit::Millisecond, Unit::Microsecond, Unit::Nanosecond];

fn neg10(v: &[f64; 10]) -> [f64; 10] {
    let mut o = *v;
    for x in o.iter_mut() {
        if *x != 0.0 {
            *x = -*x;
        }
    }
    o
}

fn gen_duration(rng: &mut Rng) -> [f64; 10] {
    let mut v = [0.0f64; 10];
    match rng.below(10) {
        0 => {
            // the shapes named by the property
            v[1] = 11.0;
            v[3] = rng.range(15, 31) as f64;
        }
        1 => {
            v[1] = rng.range(1, 30) as f64;
            v[3] = rng.range(1, 45) as f64;
        }
        2 => {
            v[2] = rng.range(0, 8) as f64;
            v[3] = rng.range(1, 20) as f64;
        }
        3 => {
            v[0] = rng.range(0, 4) as f64;
            v[1] = rng.range(0, 14) as f64;
            v[2] = rng.range(0, 6) as f64;
            v[3] = rng.range(0, 40) as f64;
        }
        4 => v[3] = *rng.pick(&[1.0, 6.0, 7.0, 27.0, 28.0, 29.0, 30.0, 31.0, 59.0, 60.0, 364.0, 365.0, 366.0, 730.0, 1461.0]),
        5 => v[1] = *rng.pick(&[1.0, 5.0, 6.0, 11.0, 12.0, 13.0, 23.0, 24.0, 25.0, 120.0]),
        6 => {
            v[0] = rng.range(0, 30) as f64;
            v[3] = rng.range(0, 400) as f64;
        }
        7 => {
            v[0] = rng.range(0, 3) as f64;
            v[1] = rng.range(0, 12) as f64;
        }
        8 => v[0] = rng.range(1, 2000) as f64,
        _ => {
            v[1] = rng.range(0, 40) as f64;
            v[2] = rng.range(0, 60) as f64;
        }
    }
    match rng.below(6) {
        0 | 1 => {}
        2 => v[4] = rng.range(1, 100) as f64,
        3 => {
            v[4] = rng.range(0, 24) as f64;
            v[5] = rng.range(0, 60) as f64;
            v[6] = rng.range(0, 60) as f64;
        }
        4 => {
            v[4] = *rng.pick(&[11.0, 12.0, 13.0, 23.0, 24.0, 25.0, 36.0, 47.0, 48.0]);
            v[5] = *rng.pick(&[0.0, 29.0, 30.0, 31.0, 59.0]);
        }
        _ => {
            v[6] = rng.range(0, 200_000) as f64;
            v[7] = rng.range(0, 2000) as f64;
            v[9] = rng.range(0, 2000) as f64;
        }
    }
    if rng.bool() {
        v = neg10(&v);
    }
    v
}

fn pick_options(rng: &mut Rng) -> (Unit, Unit, u32) {
    let si = rng.below(10) as usize;
    let li = rng.below(si as u64 + 1) as usize;
    let (largest, smallest) = (UNITS10[li], UNITS10[si]);
    let inc: u32 = if si <= 3 {
        if li == si {
            *rng.pick(&[1u32, 1, 2, 3, 5, 7, 10])
        } else {
            1
        }
    } else {
        let divs: &[u32] = match smallest {
            Unit::Hour => &[1, 2, 3, 4, 6, 8, 12],
            Unit::Minute | Unit::Second => &[1, 2, 3, 4, 5, 6, 10, 12, 15, 20, 30],
            _ => &[1, 2, 4, 5, 8, 10, 20, 25, 40, 50, 100, 125, 200, 250, 500],
        };
        *rng.pick(divs)
    };
    (largest, smallest, inc)
}

fn show10(v: &[f64; 10]) -> String {
    format!("{v:?}")
}

fn f64_of(num: i128, den: i128) -> f64 {
    let q = num / den;
    let r = num % den;
    q as f64 + (r as f64 / den as f64)
}

pub fn run(rep: &mut Report) {
    let mut rng = rep.cfg.rng("c08");
    let iso = Calendar::default();
    let n = rep.cfg.budget(1_600_000, 60_000_000);
    let mut evals = 0u64;
    for _ in 0..n {
        let day0 = match rng.below(6) {
            0 => days_from_civil(rng.range(1999, 2025), *rng.pick(&[1u8, 3, 5, 7, 8, 10, 12]), 31),
            1 => days_from_civil(*rng.pick(&[2016i64, 2020, 2024, 2000, 1600]), 2, 29),
            2 => days_from_civil(rng.range(1900, 2100), rng.range(1, 12) as u8, *rng.pick(&[1u8, 28, 29, 30])),
            _ => gen_day(&mut rng),
        };
        let v = gen_duration(&mut rng);
        let v2 = if rng.chance(1, 3) { v } else { gen_duration(&mut rng) };
        let opts: Vec<(Unit, Unit, u32, Mode)> = (0..4)
            .map(|_| {
                let (l, s, i) = pick_options(&mut rng);
                (l, s, i, *rng.pick(&ALL_MODES))
            })
            .collect();
        let total_units = [*rng.pick(&UNITS10), *rng.pick(&UNITS10[..4])];
        if !rep.begin() {
            continue;
        }
        evals += 1;
        let (y, m, d) = civil_from_days(day0);
        let Out::Ok(rel_date) = call(|| PlainDate::try_new(y as i32, m, d, iso.clone())) else { continue };
        let rel = || Some(RelativeTo::PlainDate(rel_date.clone()));
        let Out::Ok(dur) = call(|| dur10(v)) else { continue };
        let month_end = d >= 28;
        let has_md = v[1] != 0.0 && v[3] != 0.0;
        let dshape = format!("{}{}{}", if v[0] != 0.0 || v[1] != 0.0 || v[2] != 0.0 { "calendar" } else { "days" }, if v[4..].iter().any(|x| *x != 0.0) { "+time" } else { "" }, if v.iter().any(|x| *x < 0.0) { ",negative" } else { "" });
        let base_case = json!({"relative_to": format!("{}-{:02}-{:02}", fmt_year(y), m, d), "duration": show10(&v)});
        // ---------------- round
        for (largest, smallest, inc, mode) in &opts {
            rep.hit("round/requests");
            let exp = round_relative(day0, &v, *largest, *smallest, *inc as i128, *mode);
            let got = call(|| dur.round_with_provider(round_opts(Some(*largest), Some(*smallest), Some(mode.to_lib()), Some(*inc)), rel(), &NoZones)).map(|r| dur_fields(&r));
            let shape = format!("({dshape},{}->{}{},{})", unit_name(*largest), unit_name(*smallest), if *inc > 1 { ",inc>1" } else { "" }, if month_end { "month-end-anchor" } else { "plain-anchor" });
            let case = || {
                let mut c = base_case.clone();
                c["largest"] = json!(unit_name(*largest));
                c["smallest"] = json!(unit_name(*smallest));
                c["increment"] = json!(inc);
                c["mode"] = json!(mode.name());
                c
            };
            match (&exp, &got) {
                (Err(RelErr::Undecided(w)), _) => {
                    rep.hit(&format!("undecided/{w}"));
                    if w.starts_with("destination") {
                        let k = rep.get("undecided/destination outside the bracket (specification assertion)");
                        if k <= 3 {
                            rep.sample(&format!("assert{k}"), || {
                                let mut c = case();
                                c["library"] = json!(got.show_with(show10));
                                c
                            });
                        }
                    }
                }
                (_, g) if g.is_broken() => rep.inconclusive("C08.round", &g.kind_str()),
                (Ok(e), Out::Ok(g)) if e == g => {}
                (Err(RelErr::Range), Out::Err(ErrorKind::Range, _)) => {}
                _ => rep.violation("C08.round", "Duration::round(plain relativeTo)", &shape, case(), got.show_with(show10), match &exp {
                    Ok(e) => show10(e),
                    Err(e) => format!("{e:?}"),
                }),
            }
            if let Ok(e) = &exp {
                if *e != v {
                    rep.nontrivial(fp!(1u64, day0 as u64, v[1].to_bits(), v[3].to_bits(), v[4].to_bits(), *inc, mode.name().len(), unit_name(*smallest).len(), unit_name(*largest).len()));
                }
                // carried into a larger unit than the rounded one?
                let si = UNITS10.iter().position(|u| u == smallest).unwrap_or(9);
                if si > 0 && si <= 3 && e[si] == 0.0 && e[..si].iter().any(|x| *x != 0.0) && v[si] != 0.0 {
                    rep.hit("round/bubbled-or-balanced-up");
                }
            }
            // laws on the implementation's own output
            if let (Out::Ok(g), false) = (&got, matches!(exp, Err(RelErr::Undecided(_)))) {
                let pos = g.iter().any(|x| *x > 0.0);
                let neg = g.iter().any(|x| *x < 0.0);
                if pos && neg {
                    rep.violation("C08.law_sign", "Duration::round(plain relativeTo)", &shape, case(), show10(g), "sign-uniform".into());
                }
                // top-heavy: re-measuring relativeTo -> relativeTo + result with the same largest unit gives the result
                // (not a law when adding is not invertible: anchors after the 28th clamp at month ends, and a difference
                // never contains weeks unless weeks are the largest unit)
                let invertible = d <= 28 && (g[2] == 0.0 || *largest == Unit::Week);
                if !invertible {
                    rep.hit("round/law_balanced_not_applicable");
                } else if let Ok(again) = round_relative(day0, g, *largest, Unit::Nanosecond, 1, Mode::Trunc) {
                    if again != *g {
                        rep.violation("C08.law_balanced", "Duration::round(plain relativeTo)", &shape, case(), show10(g), format!("re-measured: {}", show10(&again)));
                    }
                }
                // mirrored rounding of the negated duration
                if let Out::Ok(nd) = call(|| dur10(neg10(&v))) {
                    let gm = call(|| nd.round_with_provider(round_opts(Some(*largest), Some(*smallest), Some(mode.mirrored().to_lib()), Some(*inc)), rel(), &NoZones)).map(|r| dur_fields(&r));
                    let em = round_relative(day0, &neg10(&v), *largest, *smallest, *inc as i128, mode.mirrored());
                    // not a law in general (month lengths differ on the two sides of the anchor): judged against the model only
                    match (&em, &gm) {
                        (Err(RelErr::Undecided(_)), _) => {}
                        (_, g2) if g2.is_broken() => rep.inconclusive("C08.round", &g2.kind_str()),
                        (Ok(e), Out::Ok(g2)) if e == g2 => {}
                        (Err(RelErr::Range), Out::Err(ErrorKind::Range, _)) => {}
                        _ => rep.violation("C08.round", "Duration::round(plain relativeTo, negated)", &shape, case(), gm.show_with(show10), format!("{em:?}")),
                    }
                }
                rep.hit("round/laws_evaluated");
            }
        }
        // ---------------- total
        for unit in total_units {
            let exp = total_relative(day0, &v, unit);
            let got = call(|| dur.total_with_provider(unit, rel(), &NoZones)).map(|x| x.as_inner());
            let shape = format!("({dshape},{},{})", unit_name(unit), if month_end && has_md { "month-end-anchor,months+days" } else if month_end { "month-end-anchor" } else { "plain-anchor" });
            let case = || {
                let mut c = base_case.clone();
                c["unit"] = json!(unit_name(unit));
                c
            };
            match (&exp, &got) {
                (Err(RelErr::Undecided(w)), _) => rep.hit(&format!("undecided/{w}")),
                (_, g) if g.is_broken() => rep.inconclusive("C08.total", &g.kind_str()),
                (Ok((nu, de)), Out::Ok(g)) => {
                    let e = f64_of(*nu, *de);
                    let tol = e.abs() * 4.5e-16 + f64::MIN_POSITIVE;
                    if (g - e).abs() > tol {
                        let close = (g - e).abs() <= e.abs() * 1e-9;
                        rep.violation(if close { "C08.total_exact" } else { "C08.total" }, "Duration::total(plain relativeTo)", &shape, case(), format!("{g:?}"), format!("{e:?} = {nu}/{de}"));
                    }
                    if nu % de != 0 {
                        rep.nontrivial(fp!(2u64, day0 as u64, v[1].to_bits(), v[3].to_bits(), unit_name(unit).len()));
                    }
                }
                (Err(RelErr::Range), Out::Err(ErrorKind::Range, _)) => {}
                _ => rep.violation("C08.total", "Duration::total(plain relativeTo)", &shape, case(), got.show(), format!("{exp:?}")),
            }
            rep.hit("total/evaluated");
        }
        // ---------------- compare
        if let Out::Ok(dur2) = call(|| dur10(v2)) {
            let exp = compare_relative(day0, &v, &v2);
            let got = call(|| dur.compare_with_provider(&dur2, rel(), &NoZones));
            let case = || {
                let mut c = base_case.clone();
                c["other"] = json!(show10(&v2));
                c
            };
            match (&exp, &got) {
                (Err(RelErr::Undecided(w)), _) => rep.hit(&format!("undecided/{w}")),
                (_, g) if g.is_broken() => rep.inconclusive("C08.compare", &g.kind_str()),
                (Ok(e), Out::Ok(g)) if e == g => {}
                (Err(RelErr::Range), Out::Err(ErrorKind::Range, _)) => {}
                _ => rep.violation("C08.compare", "Duration::compare(plain relativeTo)", &format!("({dshape},{})", if month_end { "month-end-anchor" } else { "plain-anchor" }), case(), got.show(), format!("{exp:?}")),
            }
            rep.hit("compare/evaluated");
        }
        if evals % 10_007 == 1 {
            rep.sample(&format!("e{evals}"), || base_case.clone());
        }
        let _ = dur::is_valid(&v);
    }
    // evaluations = judged calls (four rounding requests, two totals and one comparison per case), not cases
    rep.evaluations += rep.get("round/requests") + rep.get("total/evaluated") + rep.get("compare/evaluated");
    rep.add("cases", evals);
    for c in ["cases", "round/laws_evaluated", "round/bubbled-or-balanced-up", "total/evaluated", "compare/evaluated"] {
        rep.require(c);
    }
}
