//! C05 - PlainDateTime add / subtract / until / since / round compose date and exact time.
//!
//! Oracle: exact ns-of-day carry + refmodel::date (AddDateTime), DifferenceISODateTime transcription,
//! laws on the implementation's own output, and the exact rounding oracle shared with C07.

use crate::core::*;
use crate::fp;
use crate::mon::c04::{gen_date_duration, gen_day};
use crate::mon::c07::{divisors_below, dt_round_case, offsets, unit_max, Tally, DT_LIMIT};
use crate::refmodel::civil::*;
use crate::refmodel::date::*;
use crate::refmodel::dur::{self, balance, fields_f64};
use crate::refmodel::round::ALL_MODES;
use crate::util::*;
use serde_json::json;
use temporal_rs::error::ErrorKind;
use temporal_rs::options::{ArithmeticOverflow, Unit};

const ALL_UNITS: [Unit; 10] = [Unit::Year, Unit::Month, Unit::Week, Unit::Day, Unit::Hour, Unit::Minute, Unit::Second, Unit::Millisecond, Unit::Microsecond, Unit::Nanosecond];

fn gen_tod(rng: &mut Rng) -> i128 {
    match rng.below(8) {
        0 => 0,
        1 => NS_PER_DAY - 1,
        2 => 3_723_004_005_006,
        3 => rng.range128(0, 1_000_000_000),
        4 => NS_PER_DAY - 1 - rng.range128(0, 1_000_000_000),
        5 => rng.range128(0, 86_399) * 1_000_000_000,
        _ => rng.range128(0, NS_PER_DAY - 1),
    }
}

/// local ns of a hostile date-time inside the representable range
pub fn gen_local(rng: &mut Rng) -> i128 {
    loop {
        let l = gen_day(rng) as i128 * NS_PER_DAY + gen_tod(rng);
        if l > -DT_LIMIT && l < DT_LIMIT {
            return l;
        }
    }
}

/// AddDateTime on local nanoseconds. Returns the local ns of the result.
pub fn model_add(local: i128, fields: &[f64; 10], negate: bool, reject: bool) -> Result<i128, DateErr> {
    let s: i128 = if negate { -1 } else { 1 };
    let day = local.div_euclid(NS_PER_DAY);
    let tod = local.rem_euclid(NS_PER_DAY);
    let mut tf = *fields;
    tf[3] = 0.0;
    let tt = s * dur::time_total(&tf);
    let sum = tod + tt;
    let carry = sum.div_euclid(NS_PER_DAY);
    let new_tod = sum.rem_euclid(NS_PER_DAY);
    let start = civil_from_days(day as i64);
    let days_field = s * dur::exact(fields[3]) + carry;
    // the adjusted date duration must itself be a valid duration (days within the duration limits)
    if (days_field * NS_PER_DAY).abs() >= dur::MAX_TIME_NS_EXCL {
        return Err(DateErr::Range);
    }
    let (y, m, d) = add_date(start, s * dur::exact(fields[0]), s * dur::exact(fields[1]), s * dur::exact(fields[2]), days_field, 0, reject)?;
    let res = days_from_civil(y, m, d) as i128 * NS_PER_DAY + new_tod;
    if res <= -DT_LIMIT || res >= DT_LIMIT {
        return Err(DateErr::Range);
    }
    Ok(res)
}

/// DifferenceISODateTime + balancing for the largest unit: the ten expected fields.
pub fn model_diff(a: i128, b: i128, largest: Unit) -> [f64; 10] {
    let (da, ta) = (a.div_euclid(NS_PER_DAY), a.rem_euclid(NS_PER_DAY));
    let (db, tb) = (b.div_euclid(NS_PER_DAY), b.rem_euclid(NS_PER_DAY));
    let mut time = tb - ta;
    let time_sign = time.signum();
    let date_sign = (db - da).signum();
    let mut adj = db;
    if time_sign != 0 && time_sign == -date_sign {
        adj += time_sign;
        time -= time_sign * NS_PER_DAY;
    }
    let date_largest = if largest < Unit::Day { Unit::Day } else { largest };
    let (y, mo, w, d) = diff_date(civil_from_days(da as i64), civil_from_days(adj as i64), date_largest);
    if largest < Unit::Day {
        let total = time + d as i128 * NS_PER_DAY;
        fields_f64(0, 0, 0, balance(total, largest))
    } else {
        let bal = balance(time, Unit::Hour);
        let mut f = fields_f64(y as i128, mo as i128, w as i128, bal);
        f[3] = d as f64;
        f
    }
}

fn neg10(v: &[f64; 10]) -> [f64; 10] {
    let mut o = *v;
    for x in o.iter_mut() {
        if *x != 0.0 {
            *x = -*x;
        }
    }
    o
}

pub fn run(rep: &mut Report) {
    let mut rng = rep.cfg.rng("c05");
    let n_add = rep.cfg.budget(1_000_000, 100_000_000);
    let n_diff = rep.cfg.budget(1_000_000, 100_000_000);
    let n_round = rep.cfg.budget(500_000, 60_000_000);
    let mut evals = 0u64;

    // ------------------------------------------------------------------ add / subtract
    for it in 0..n_add {
        let local = gen_local(&mut rng);
        let mut fields = gen_date_duration(&mut rng);
        // add a full time part (sign-uniform) most of the time
        if rng.chance(3, 4) {
            let sign = if fields.iter().any(|x| *x < 0.0) {
                -1.0
            } else if fields.iter().any(|x| *x > 0.0) {
                1.0
            } else if rng.bool() {
                1.0
            } else {
                -1.0
            };
            match rng.below(6) {
                // a time part worth about a multiple of 2^31 days (valid: up to 2^53 s): the carry into days does not fit in 32 bits
                5 => {
                    let days = *rng.pick(&[1i64 << 31, 1 << 32, 3 << 31, 5 << 32, 24 << 32]) + rng.range(-3, 3);
                    if rng.bool() {
                        fields[4] = sign * (days * 24 + rng.range(0, 23)) as f64;
                    } else {
                        fields[6] = sign * (days * 86_400 + rng.range(0, 86_399)) as f64;
                    }
                }
                0 => fields[9] = sign * rng.range128(0, 2 * NS_PER_DAY) as f64,
                1 => {
                    fields[4] = sign * rng.range(0, 50) as f64;
                    fields[5] = sign * rng.range(0, 120) as f64;
                    fields[6] = sign * rng.range(0, 120) as f64;
                    fields[7] = sign * rng.range(0, 2000) as f64;
                    fields[8] = sign * rng.range(0, 2000) as f64;
                    fields[9] = sign * rng.range(0, 2000) as f64;
                }
                2 => fields[9] = sign * ((NS_PER_DAY - local.rem_euclid(NS_PER_DAY)) + rng.range128(-1, 1)).max(0) as f64, // lands on/around next midnight
                3 => fields[9] = sign * (local.rem_euclid(NS_PER_DAY) + rng.range128(-1, 1)).max(0) as f64,                 // lands on/around this midnight (for negative)
                _ => fields[6] = sign * rng.range128(0, 400 * 86_400) as f64,
            }
            if !dur::is_valid(&fields) {
                continue;
            }
        }
        let reject = rng.bool();
        if !rep.begin() {
            continue;
        }
        evals += 1;
        let d = match call(|| dur10(fields)) {
            Out::Ok(d) => d,
            _ => {
                rep.inconclusive("C05.ctor", "duration-rejected");
                continue;
            }
        };
        let ov = if reject { ArithmeticOverflow::Reject } else { ArithmeticOverflow::Constrain };
        let case = || json!({"datetime_local_ns": local.to_string(), "duration": format!("{fields:?}"), "overflow": if reject {"reject"} else {"constrain"}});
        for (sub, name) in [(false, "PlainDateTime::add"), (true, "PlainDateTime::subtract")] {
            let exp = model_add(local, &fields, sub, reject);
            let r = call(|| {
                let a = pdt_from_local(local)?;
                if sub {
                    a.subtract(&d, Some(ov))
                } else {
                    a.add(&d, Some(ov))
                }
            });
            let tod = local.rem_euclid(NS_PER_DAY);
            let mut tf = fields;
            tf[3] = 0.0;
            let tt = dur::time_total(&tf) * if sub { -1 } else { 1 };
            let carry = (tod + tt).div_euclid(NS_PER_DAY);
            let feat = if exp.is_err() {
                "out-of-range-or-rejected"
            } else if carry != 0 && (fields[0] != 0.0 || fields[1] != 0.0) {
                "carry+calendar"
            } else if carry != 0 {
                "carry"
            } else {
                "no-carry"
            };
            if carry != 0 {
                rep.hit("add/time_carries_days");
                rep.nontrivial(fp!(1u64, local as u64, (local >> 64) as u64, tt as u64, fields[0] as i64, fields[1] as i64, fields[3] as i64, sub));
            }
            match (&r, &exp) {
                (Out::Ok(g), Ok(e)) if pdt_local_ns(g) == *e => {}
                (Out::Err(ErrorKind::Range, _), Err(_)) => {}
                _ if r.is_broken() => rep.inconclusive("C05.add", "panic-or-assert"),
                _ => rep.violation("C05.add", name, &format!("({},{})", if reject { "reject" } else { "constrain" }, feat), case(), r.map(|g| pdt_local_ns(&g).to_string()).show(), format!("{exp:?}")),
            }
        }
        if it % 200_003 == 0 {
            rep.sample(&format!("add{it}"), || json!({"op": "PlainDateTime::add", "case": case(), "expected_local_ns": format!("{:?}", model_add(local, &fields, false, reject))}));
        }
    }

    // ------------------------------------------------------------------ until / since
    for it in 0..n_diff {
        let a = gen_local(&mut rng);
        let b = match rng.below(8) {
            0 => a,
            1 => a + rng.range128(-2 * NS_PER_DAY, 2 * NS_PER_DAY),
            2 => {
                // date order opposite to time-of-day order (the borrow branch)
                let dd = rng.range(1, 400) as i128 * if rng.bool() { 1 } else { -1 };
                let ta = a.rem_euclid(NS_PER_DAY);
                let tb = if dd > 0 { rng.range128(0, ta.max(1) - 0).min(ta.saturating_sub(1).max(0)) } else { rng.range128(ta, NS_PER_DAY - 1) };
                (a.div_euclid(NS_PER_DAY) + dd) * NS_PER_DAY + tb
            }
            3 => a + rng.range(27, 32) as i128 * NS_PER_DAY * if rng.bool() { 1 } else { -1 } + rng.range128(-NS_PER_DAY, NS_PER_DAY),
            4 => a + rng.range(360, 370) as i128 * NS_PER_DAY * if rng.bool() { 1 } else { -1 } + rng.range128(-NS_PER_DAY, NS_PER_DAY),
            _ => gen_local(&mut rng),
        };
        let lu = ALL_UNITS[rng.below(10) as usize];
        if b <= -DT_LIMIT || b >= DT_LIMIT || !rep.begin() {
            continue;
        }
        evals += 1;
        let exp = model_diff(a, b, lu);
        let borrow = {
            let (ta, tb) = (a.rem_euclid(NS_PER_DAY), b.rem_euclid(NS_PER_DAY));
            let ds = (b.div_euclid(NS_PER_DAY) - a.div_euclid(NS_PER_DAY)).signum();
            (tb - ta).signum() != 0 && (tb - ta).signum() == -ds
        };
        if borrow {
            rep.hit("diff/borrow_branch");
            rep.nontrivial(fp!(2u64, a as u64, (a >> 64) as u64, b as u64, (b >> 64) as u64, lu as u64));
        }
        let shape = format!("({},{},{})", unit_name(lu), if b < a { "neg" } else { "nonneg" }, if borrow { "borrow" } else { "no-borrow" });
        let case = || json!({"a_local_ns": a.to_string(), "b_local_ns": b.to_string(), "largest": unit_name(lu)});
        let r = call(|| {
            let (pa, pb) = (pdt_from_local(a)?, pdt_from_local(b)?);
            let u = pa.until(&pb, diff_largest(lu))?;
            let s = pa.since(&pb, diff_largest(lu))?;
            let fwd = pa.add(&u, None).map(|x| pdt_local_ns(&x)).map_err(|e| e.kind());
            Ok((dur_fields(&u), dur_fields(&s), fwd))
        });
        // the inverse law is only meaningful when every field is an exactly representable integer:
        // a field above 2^53 is the nearest double of the exact value (as in the specification)
        let safe = exp.iter().all(|x| x.abs() < 9_007_199_254_740_992.0);
        if !safe {
            rep.hit("inverse/skipped_field_above_2^53");
        }
        match &r {
            Out::Ok((u, s, fwd)) => {
                if *u != exp {
                    rep.violation("C05.until", "PlainDateTime::until", &shape, case(), format!("{u:?}"), format!("{exp:?}"));
                }
                if *s != neg10(u) {
                    rep.violation("C05.since_negation", "PlainDateTime::since", &shape, case(), format!("{s:?}"), format!("{:?}", neg10(u)));
                }
                if safe && *fwd != Ok(b) {
                    rep.violation("C05.inverse", "PlainDateTime::add(until)", &shape, case(), format!("{fwd:?}"), b.to_string());
                }
                let sg = (b - a).signum() as f64;
                if u.iter().any(|x| *x != 0.0 && x.signum() != sg) {
                    rep.violation("C05.sign_uniform", "PlainDateTime::until", &shape, case(), format!("{u:?}"), "all fields share the sign of the span".into());
                }
                if lu >= Unit::Day {
                    let t = dur::time_total(&[0., 0., 0., 0., u[4], u[5], u[6], u[7], u[8], u[9]]);
                    if t.abs() >= NS_PER_DAY {
                        rep.violation("C05.time_part_lt_day", "PlainDateTime::until", &shape, case(), format!("{u:?}"), "|time part| < 24 h".into());
                    }
                }
            }
            Out::Err(k, m) => rep.violation("C05.until", "PlainDateTime::until/since/add", &format!("{shape}/error"), case(), format!("Err({k}: {m})"), format!("{exp:?}")),
            Out::Panic(..) => rep.inconclusive("C05.until", "panic"),
        }
        if it % 200_003 == 0 {
            rep.sample(&format!("diff{it}"), || json!({"op": "PlainDateTime::until", "case": case(), "expected": format!("{exp:?}")}));
        }
    }

    // ------------------------------------------------------------------ round (exact oracle shared with C07)
    let mut t = Tally { evals: 0, ties: 0 };
    let mut units: Vec<(Unit, Vec<u32>)> = [Unit::Hour, Unit::Minute, Unit::Second, Unit::Millisecond, Unit::Microsecond, Unit::Nanosecond].iter().map(|u| (*u, divisors_below(unit_max(*u)))).collect();
    units.push((Unit::Day, vec![1]));
    for _ in 0..n_round {
        let (u, incs) = rng.pick(&units).clone();
        let inc = *rng.pick(&incs);
        let m = *rng.pick(&ALL_MODES);
        let s = inc as i128 * unit_ns(u).unwrap();
        let day = match rng.below(4) {
            0 => MAX_DAY as i128,
            1 => MIN_DAY as i128,
            _ => gen_day(&mut rng) as i128,
        };
        let offs = offsets(s, &mut rng);
        let o = *rng.pick(&offs);
        let k = if rng.chance(1, 3) { NS_PER_DAY / s - 1 } else { rng.range128(0, NS_PER_DAY / s - 1) };
        if rep.begin() {
            dt_round_case(rep, &mut t, "C05.round", u, inc, m, day * NS_PER_DAY + k * s + o);
        }
    }
    evals += t.evals;
    rep.evaluations += evals;
    rep.add("cases", evals);
    rep.add("round/ties", t.ties);
    rep.require("cases");
    rep.require("add/time_carries_days");
    rep.require("diff/borrow_branch");
    rep.require("dt_round/carry_into_next_day");
    rep.require("dt_round/leaves_range");
}
