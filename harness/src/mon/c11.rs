//! C11 - formatting then parsing returns the same value; the output is canonical.
//!
//! Oracle: parse(format(v)) == v, format(parse(format(v))) == format(v), and an independent
//! canonical writer must produce the same text byte for byte.

use crate::core::*;
use crate::fp;
use crate::mon::c04::gen_day;
use crate::mon::c05::gen_local;
use crate::refmodel::civil::*;
use crate::refmodel::dur;
use crate::util::*;
use serde_json::json;
use std::str::FromStr;
use temporal_rs::options::*;
use temporal_rs::parsers::Precision;
use temporal_rs::provider::TransitionDirection;
use temporal_rs::{Calendar, Duration, Instant, MonthCode, PlainDate, PlainDateTime, PlainMonthDay, PlainTime, PlainYearMonth, TimeZone, UtcOffset, ZonedDateTime};

pub const CALENDARS: [&str; 18] = [
    "iso8601", "buddhist", "chinese", "coptic", "dangi", "ethioaa", "ethiopic", "gregory", "hebrew", "indian", "islamic", "islamic-civil", "islamic-tbla", "islamic-umalqura", "japanese", "persian", "roc", "japanext",
];

fn date_text(k: i64) -> String {
    let (y, m, d) = civil_from_days(k);
    format!("{}-{:02}-{:02}", fmt_year(y), m, d)
}

/// HH:MM:SS[.fraction]: auto = minimal digits, Some(n) = exactly n digits.
fn time_text(tod: i128, digits: Option<u8>) -> String {
    let (h, mi, s, ms, us, ns) = split_ns_of_day(tod);
    let sub = ms as u32 * 1_000_000 + us as u32 * 1_000 + ns as u32;
    let mut out = format!("{h:02}:{mi:02}:{s:02}");
    match digits {
        None => {
            if sub != 0 {
                let f = format!("{sub:09}");
                out.push('.');
                out.push_str(f.trim_end_matches('0'));
            }
        }
        Some(0) => {}
        Some(n) => {
            let f = format!("{sub:09}");
            out.push('.');
            out.push_str(&f[..n as usize]);
        }
    }
    out
}

fn offset_text(minutes: i64) -> String {
    format!("{}{:02}:{:02}", if minutes < 0 { '-' } else { '+' }, minutes.abs() / 60, minutes.abs() % 60)
}

fn cal_annotation(cal: &str, d: DisplayCalendar) -> String {
    match d {
        DisplayCalendar::Never => String::new(),
        DisplayCalendar::Auto => {
            if cal == "iso8601" {
                String::new()
            } else {
                format!("[u-ca={cal}]")
            }
        }
        DisplayCalendar::Always => format!("[u-ca={cal}]"),
        DisplayCalendar::Critical => format!("[!u-ca={cal}]"),
    }
}

/// Canonical duration text (TemporalDurationToString, precision auto) from ten exact fields.
pub fn duration_text(v: &[f64; 10]) -> String {
    let neg = v.iter().any(|x| *x < 0.0);
    let a: Vec<i128> = v.iter().map(|x| dur::exact(x.abs())).collect();
    let sec_total = a[6] * 1_000_000_000 + a[7] * 1_000_000 + a[8] * 1_000 + a[9];
    let mut date = String::new();
    for (i, c) in [(0, 'Y'), (1, 'M'), (2, 'W'), (3, 'D')] {
        if a[i] != 0 {
            date.push_str(&format!("{}{}", a[i], c));
        }
    }
    let mut time = String::new();
    if a[4] != 0 {
        time.push_str(&format!("{}H", a[4]));
    }
    if a[5] != 0 {
        time.push_str(&format!("{}M", a[5]));
    }
    let all_zero_above = a[0] == 0 && a[1] == 0 && a[2] == 0 && a[3] == 0 && a[4] == 0 && a[5] == 0;
    if sec_total != 0 || all_zero_above {
        let (s, f) = (sec_total / 1_000_000_000, sec_total % 1_000_000_000);
        time.push_str(&s.to_string());
        if f != 0 {
            time.push('.');
            time.push_str(format!("{f:09}").trim_end_matches('0'));
        }
        time.push('S');
    }
    let mut out = String::new();
    if neg {
        out.push('-');
    }
    out.push('P');
    out.push_str(&date);
    if !time.is_empty() {
        out.push('T');
        out.push_str(&time);
    }
    out
}

fn check_text(rep: &mut Report, op: &str, feature: &str, case: serde_json::Value, got: &Out<String>, exp: &str) -> bool {
    match got {
        Out::Ok(t) if t == exp => true,
        _ if got.is_broken() => {
            rep.inconclusive("C11.canonical", "panic");
            false
        }
        _ => {
            rep.violation("C11.canonical", op, feature, case, got.show(), exp.to_string());
            false
        }
    }
}

macro_rules! enum_roundtrip {
    ($rep:expr, $evals:expr, $ty:ty, $name:expr, [$(($v:expr, $s:expr)),+ $(,)?], $cmp:expr) => {{
        $(
            if $rep.begin() {
                $evals += 1;
                let v: $ty = $v;
                let text = call_inf(|| v.to_string());
                match &text {
                    Out::Ok(t) => {
                        if t != $s {
                            $rep.violation("C11.enum_text", $name, $s, json!({"variant": $s}), t.clone(), $s.to_string());
                        }
                        let back = call_inf(|| <$ty>::from_str(t).ok());
                        let same = match &back { Out::Ok(Some(b)) => $cmp(b, &v), _ => false };
                        if !same {
                            $rep.violation("C11.enum_roundtrip", $name, $s, json!({"variant": $s, "printed": t}), format!("{:?}", back.as_ok().map(|b| b.is_some())), "Some(same variant)".into());
                        }
                        // the specification's spelling itself must parse to this variant
                        let spec = call_inf(|| <$ty>::from_str($s).ok());
                        let same = match &spec { Out::Ok(Some(b)) => $cmp(b, &v), _ => false };
                        if !same {
                            $rep.violation("C11.enum_parse", $name, $s, json!({"text": $s}), "not parsed to the variant".into(), "Some(same variant)".into());
                        }
                    }
                    _ => $rep.inconclusive("C11.enum_text", "panic"),
                }
                $rep.nontrivial_direct(1);
            }
        )+
    }};
}

pub fn run(rep: &mut Report) {
    let prov = NoZones;
    let mut rng = rep.cfg.rng("c11");
    let n = rep.cfg.budget(1_500_000, 100_000_000);
    let mut evals = 0u64;

    // ------------------------------------------------------------------ enums and small identifier types
    if rep.cfg.shard == 0 {
        let same_dbg = |a: &dyn std::fmt::Debug, b: &dyn std::fmt::Debug| format!("{a:?}") == format!("{b:?}");
        enum_roundtrip!(rep, evals, Unit, "Unit", [(Unit::Auto, "auto"), (Unit::Year, "year"), (Unit::Month, "month"), (Unit::Week, "week"), (Unit::Day, "day"), (Unit::Hour, "hour"), (Unit::Minute, "minute"), (Unit::Second, "second"), (Unit::Millisecond, "millisecond"), (Unit::Microsecond, "microsecond"), (Unit::Nanosecond, "nanosecond")], |a: &Unit, b: &Unit| a == b);
        enum_roundtrip!(rep, evals, RoundingMode, "RoundingMode", [(RoundingMode::Ceil, "ceil"), (RoundingMode::Floor, "floor"), (RoundingMode::Expand, "expand"), (RoundingMode::Trunc, "trunc"), (RoundingMode::HalfCeil, "halfCeil"), (RoundingMode::HalfFloor, "halfFloor"), (RoundingMode::HalfExpand, "halfExpand"), (RoundingMode::HalfTrunc, "halfTrunc"), (RoundingMode::HalfEven, "halfEven")], |a: &RoundingMode, b: &RoundingMode| same_dbg(a, b));
        enum_roundtrip!(rep, evals, ArithmeticOverflow, "ArithmeticOverflow", [(ArithmeticOverflow::Constrain, "constrain"), (ArithmeticOverflow::Reject, "reject")], |a: &ArithmeticOverflow, b: &ArithmeticOverflow| a == b);
        enum_roundtrip!(rep, evals, DurationOverflow, "DurationOverflow", [(DurationOverflow::Constrain, "constrain"), (DurationOverflow::Balance, "balance")], |a: &DurationOverflow, b: &DurationOverflow| same_dbg(a, b));
        enum_roundtrip!(rep, evals, Disambiguation, "Disambiguation", [(Disambiguation::Compatible, "compatible"), (Disambiguation::Earlier, "earlier"), (Disambiguation::Later, "later"), (Disambiguation::Reject, "reject")], |a: &Disambiguation, b: &Disambiguation| a == b);
        enum_roundtrip!(rep, evals, OffsetDisambiguation, "OffsetDisambiguation", [(OffsetDisambiguation::Use, "use"), (OffsetDisambiguation::Prefer, "prefer"), (OffsetDisambiguation::Ignore, "ignore"), (OffsetDisambiguation::Reject, "reject")], |a: &OffsetDisambiguation, b: &OffsetDisambiguation| a == b);
        enum_roundtrip!(rep, evals, DisplayCalendar, "DisplayCalendar", [(DisplayCalendar::Auto, "auto"), (DisplayCalendar::Always, "always"), (DisplayCalendar::Never, "never"), (DisplayCalendar::Critical, "critical")], |a: &DisplayCalendar, b: &DisplayCalendar| a == b);
        enum_roundtrip!(rep, evals, DisplayOffset, "DisplayOffset", [(DisplayOffset::Auto, "auto"), (DisplayOffset::Never, "never")], |a: &DisplayOffset, b: &DisplayOffset| a == b);
        enum_roundtrip!(rep, evals, DisplayTimeZone, "DisplayTimeZone", [(DisplayTimeZone::Auto, "auto"), (DisplayTimeZone::Never, "never"), (DisplayTimeZone::Critical, "critical")], |a: &DisplayTimeZone, b: &DisplayTimeZone| a == b);
        enum_roundtrip!(rep, evals, TransitionDirection, "TransitionDirection", [(TransitionDirection::Next, "next"), (TransitionDirection::Previous, "previous")], |a: &TransitionDirection, b: &TransitionDirection| a == b);
        // month codes
        for m in 1..=13u8 {
            for leap in [false, true] {
                if leap && m == 13 {
                    continue;
                }
                if !rep.begin() {
                    continue;
                }
                evals += 1;
                let s = format!("M{m:02}{}", if leap { "L" } else { "" });
                let r = call(|| MonthCode::from_str(&s)).map(|c| (c.as_str().to_string(), c.to_month_integer(), c.is_leap_month()));
                match &r {
                    Out::Ok((t, n, l)) if *t == s && *n == m && *l == leap => {}
                    _ if r.is_broken() => rep.inconclusive("C11.month_code", "panic"),
                    _ => rep.violation("C11.month_code", "MonthCode::from_str/as_str", &s, json!({"code": s}), r.show(), format!("({s}, {m}, {leap})")),
                }
                rep.nontrivial_direct(1);
            }
        }
        // UTC offsets: every whole minute
        for mins in -1439..=1439i64 {
            if !rep.begin() {
                continue;
            }
            evals += 1;
            let s = offset_text(mins);
            let r = call(|| {
                let o = UtcOffset::from_str(&s)?;
                let t = o.to_string()?;
                let tz = TimeZone::try_from_identifier_str(&s)?;
                let id = tz.identifier()?;
                let tz2 = TimeZone::try_from_str(&s)?;
                Ok((t, id, tz2 == tz))
            });
            // "-00:00" is not a canonical spelling: the canonical text of offset zero is +00:00
            match &r {
                Out::Ok((t, id, same)) if *t == s && *id == s && *same => {}
                _ if r.is_broken() => rep.inconclusive("C11.utc_offset", "panic"),
                _ => rep.violation("C11.utc_offset", "UtcOffset/TimeZone offset identifier", if mins < 0 { "negative" } else { "nonneg" }, json!({"offset": s}), r.show(), format!("({s}, {s}, true)")),
            }
            rep.nontrivial_direct(1);
        }
        // named zone identifiers and calendars
        for id in ["UTC", "America/New_York", "Europe/Isle_of_Man", "Etc/GMT+12", "Asia/Ho_Chi_Minh", "America/Argentina/ComodRivadavia"] {
            if !rep.begin() {
                continue;
            }
            evals += 1;
            let r = call(|| {
                let tz = TimeZone::try_from_identifier_str(id)?;
                let tz2 = TimeZone::try_from_str(id)?;
                Ok((tz.identifier()?, tz == tz2))
            });
            match &r {
                Out::Ok((t, same)) if t == id && *same => {}
                _ if r.is_broken() => rep.inconclusive("C11.tz_identifier", "panic"),
                _ => rep.violation("C11.tz_identifier", "TimeZone::try_from_identifier_str/identifier", "named", json!({"id": id}), r.show(), format!("({id}, true)")),
            }
            rep.nontrivial_direct(1);
        }
        for cal in CALENDARS {
            if !rep.begin() {
                continue;
            }
            evals += 1;
            let upper = cal.to_ascii_uppercase();
            let mixed: String = cal.chars().enumerate().map(|(i, c)| if i % 2 == 0 { c.to_ascii_uppercase() } else { c }).collect();
            let r = call(|| {
                let c = Calendar::from_str(cal)?;
                let id = c.identifier();
                let c2 = Calendar::from_str(id)?;
                let c3 = Calendar::from_utf8(upper.as_bytes())?;
                let c4 = Calendar::from_str(&mixed)?;
                Ok((id.to_string(), c2.identifier() == id, c3.identifier() == id, c4.identifier() == id))
            });
            match &r {
                // islamic-rgsa is an alias the library may not know; everything else must round trip to itself
                Out::Ok((_id, a, b, c)) if *a && *b && *c => {
                    if let Out::Ok((id, ..)) = &r {
                        if id != cal && cal != "japanext-never" {
                            rep.hit("calendar/identifier_canonicalised");
                            rep.violation("C11.calendar_id", "Calendar::from_str/identifier", cal, json!({"id": cal}), id.clone(), cal.to_string());
                        }
                    }
                }
                Out::Err(..) if cal == "japanext-never" => {}
                _ if r.is_broken() => rep.inconclusive("C11.calendar_id", "panic"),
                _ => rep.violation("C11.calendar_id", "Calendar::from_str/identifier", cal, json!({"id": cal}), r.show(), "round trip, case-insensitive".into()),
            }
            rep.nontrivial_direct(1);
        }
    }

    // ------------------------------------------------------------------ values
    let displays = [DisplayCalendar::Auto, DisplayCalendar::Always, DisplayCalendar::Never, DisplayCalendar::Critical];
    let offsets: [i64; 9] = [0, 330, -210, 840, -720, 1, -1, -59, 765];
    for it in 0..n {
        let kind = it % 8;
        // one value in six sits in a year at a year-format boundary
        let boundary = rng.chance(1, 6);
        let by = *rng.pick(&[9999i64, 10_000, 0, -1, 1, 999, 1000, 9998, 10_001]);
        let bk = days_from_civil(by, rng.range(1, 12) as u8, rng.range(1, 28) as u8) + if rng.chance(1, 4) { [0i64, 364, -1][rng.below(3) as usize] } else { 0 };
        let k = if boundary { bk } else { gen_day(&mut rng) };
        let tod = match rng.below(6) {
            0 => 0,
            1 => rng.range128(0, 86_399) * 1_000_000_000,
            2 => rng.range128(0, 86_399) * 1_000_000_000 + [100_000_000i128, 120_000_000, 123_000_000, 123_400_000, 123_450_000, 123_456_000, 123_456_700, 123_456_780, 123_456_789][rng.below(9) as usize],
            3 => NS_PER_DAY - 1,
            _ => rng.range128(0, NS_PER_DAY - 1),
        };
        let cal = CALENDARS[(rng.below(17)) as usize];
        let disp = displays[rng.below(4) as usize];
        let off_i = rng.below(offsets.len() as u64) as usize;
        let local = if boundary { bk as i128 * NS_PER_DAY + tod } else { gen_local(&mut rng) };
        let inst = match if boundary { 9 } else { rng.below(4) } {
            9 => bk as i128 * NS_PER_DAY + tod,
            0 => MAX_INSTANT - rng.range128(0, NS_PER_DAY),
            1 => -MAX_INSTANT + rng.range128(0, NS_PER_DAY),
            _ => rng.range128(-MAX_INSTANT, MAX_INSTANT),
        };
        let dfields = {
            let cf = rng.bool();
            let mut v = if rng.bool() { crate::mon::c09::gen_fields(&mut rng, cf) } else { crate::mon::c04::gen_date_duration(&mut rng) };
            if rng.chance(1, 3) {
                // only sub-second fields / only date fields
                if rng.bool() {
                    for i in 0..7 {
                        v[i] = 0.0;
                    }
                } else {
                    for i in 4..10 {
                        v[i] = 0.0;
                    }
                }
            }
            v
        };
        if !rep.begin() {
            continue;
        }
        evals += 1;
        let sub_digits = {
            let sub = (tod % 1_000_000_000) as u32;
            if sub == 0 { 0 } else { 9 - format!("{sub:09}").len() as u8 + format!("{sub:09}").trim_end_matches('0').len() as u8 }
        };
        match kind {
            0 => {
                // PlainDate, every calendar
                let exp = format!("{}{}", date_text(k), cal_annotation(cal, disp));
                let (y, m, d) = civil_from_days(k);
                let case = || json!({"date": date_text(k), "calendar": cal, "calendarName": format!("{disp:?}")});
                let r = call(|| Ok(PlainDate::try_new(y as i32, m, d, Calendar::from_str(cal)?)?.to_ixdtf_string(disp)));
                if check_text(rep, "PlainDate::to_ixdtf_string", &format!("({},{disp:?})", if (0..=9999).contains(&y) { "4-digit-year" } else { "extended-year" }), case(), &r, &exp) {
                    let keeps = disp != DisplayCalendar::Never || cal == "iso8601";
                    if keeps {
                        let back = call(|| PlainDate::from_str(&exp)).map(|p| (p.iso_year() as i64, p.iso_month(), p.iso_day(), p.calendar().identifier().to_string(), p.to_ixdtf_string(disp)));
                        match &back {
                            Out::Ok((by, bm, bd, bc, again)) if (*by, *bm, *bd) == (y, m, d) && bc == cal && *again == exp => {}
                            _ if back.is_broken() => rep.inconclusive("C11.roundtrip", "panic"),
                            _ => rep.violation("C11.roundtrip", "PlainDate::from_str(to_ixdtf_string)", &format!("({disp:?})"), case(), back.show(), format!("({y},{m},{d},{cal},{exp})")),
                        }
                    }
                }
                if !(0..=9999).contains(&y) {
                    rep.hit("feature/extended_year");
                }
                if y == 9999 || y == 10_000 || y == 0 || y == -1 {
                    rep.hit("feature/year_format_boundary");
                }
                rep.nontrivial(fp!(1u64, k as u64, rng_hash(cal), disp as u64));
            }
            1 => {
                // PlainTime: auto precision, and exact digits that keep the value
                let t = rng.below(3);
                let digits = match t {
                    0 => None,
                    1 => Some(sub_digits.max(rng.range(0, 9) as u8).max(sub_digits)),
                    _ => Some(9),
                };
                let exp = time_text(tod, digits);
                let opts = ToStringRoundingOptions { precision: digits.map(Precision::Digit).unwrap_or(Precision::Auto), smallest_unit: None, rounding_mode: None };
                let case = || json!({"time": fmt_ns_of_day(tod), "digits": digits});
                let r = call(|| ptime(tod)?.to_ixdtf_string(opts));
                if check_text(rep, "PlainTime::to_ixdtf_string", &format!("(fraction-digits-{sub_digits})"), case(), &r, &exp) {
                    let back = call(|| PlainTime::from_str(&exp)).map(|p| ptime_ns(&p));
                    match &back {
                        Out::Ok(b) if *b == tod => {}
                        _ if back.is_broken() => rep.inconclusive("C11.roundtrip", "panic"),
                        _ => rep.violation("C11.roundtrip", "PlainTime::from_str(to_ixdtf_string)", &format!("(fraction-digits-{sub_digits})"), case(), back.show(), tod.to_string()),
                    }
                }
                rep.hit(&format!("feature/fraction_len_{sub_digits}"));
                rep.nontrivial(fp!(2u64, tod as u64, digits.unwrap_or(99)));
            }
            2 => {
                // PlainDateTime
                let day = local.div_euclid(NS_PER_DAY) as i64;
                let t = local.rem_euclid(NS_PER_DAY);
                let exp = format!("{}T{}{}", date_text(day), time_text(t, None), cal_annotation(cal, disp));
                let case = || json!({"local_ns": local.to_string(), "calendar": cal, "calendarName": format!("{disp:?}")});
                let r = call(|| pdt_from_local(local)?.with_calendar(Calendar::from_str(cal)?)?.to_ixdtf_string(ToStringRoundingOptions::default(), disp));
                if check_text(rep, "PlainDateTime::to_ixdtf_string", &format!("({disp:?})"), case(), &r, &exp) && (disp != DisplayCalendar::Never || cal == "iso8601") {
                    let back = call(|| PlainDateTime::from_str(&exp)).map(|p| (pdt_local_ns(&p), p.calendar().identifier().to_string(), p.to_ixdtf_string(ToStringRoundingOptions::default(), disp).ok()));
                    match &back {
                        Out::Ok((b, bc, again)) if *b == local && bc == cal && again.as_deref() == Some(&exp) => {}
                        _ if back.is_broken() => rep.inconclusive("C11.roundtrip", "panic"),
                        _ => rep.violation("C11.roundtrip", "PlainDateTime::from_str(to_ixdtf_string)", &format!("({disp:?})"), case(), back.show(), format!("({local},{cal},{exp})")),
                    }
                }
                rep.nontrivial(fp!(3u64, local as u64, (local >> 64) as u64, rng_hash(cal), disp as u64));
            }
            3 => {
                // PlainYearMonth / PlainMonthDay (ISO)
                let (y, m, d) = civil_from_days(k);
                let in_ym = (y > -271_821 || m >= 4) && (y < 275_760 || m <= 9);
                if in_ym {
                    let exp = match disp {
                        DisplayCalendar::Auto | DisplayCalendar::Never => format!("{}-{:02}", fmt_year(y), m),
                        _ => format!("{}-{:02}-01{}", fmt_year(y), m, cal_annotation("iso8601", disp)),
                    };
                    let case = || json!({"year_month": format!("{}-{:02}", fmt_year(y), m), "calendarName": format!("{disp:?}")});
                    let r = call(|| Ok(PlainYearMonth::new_with_overflow(y as i32, m, None, Calendar::default(), ArithmeticOverflow::Reject)?.to_ixdtf_string(disp)));
                    if check_text(rep, "PlainYearMonth::to_ixdtf_string", &format!("({disp:?})"), case(), &r, &exp) {
                        let back = call(|| PlainYearMonth::from_str(&exp)).map(|p| (p.iso_year() as i64, p.iso_month(), p.to_ixdtf_string(disp)));
                        match &back {
                            Out::Ok((by, bm, again)) if (*by, *bm) == (y, m) && *again == exp => {}
                            _ if back.is_broken() => rep.inconclusive("C11.roundtrip", "panic"),
                            _ => rep.violation("C11.roundtrip", "PlainYearMonth::from_str(to_ixdtf_string)", &format!("({disp:?})"), case(), back.show(), format!("({y},{m},{exp})")),
                        }
                    }
                    // padded_iso_year_string is the same year text
                    let r = call(|| Ok(PlainYearMonth::new_with_overflow(y as i32, m, None, Calendar::default(), ArithmeticOverflow::Reject)?.padded_iso_year_string()));
                    check_text(rep, "PlainYearMonth::padded_iso_year_string", if (0..=9999).contains(&y) { "4-digit-year" } else { "extended-year" }, case(), &r, &fmt_year(y));
                }
                let dd = d.min(dim(1972, m));
                let exp = match disp {
                    DisplayCalendar::Auto | DisplayCalendar::Never => format!("{m:02}-{dd:02}"),
                    _ => format!("1972-{m:02}-{dd:02}{}", cal_annotation("iso8601", disp)),
                };
                let case = || json!({"month_day": format!("{m:02}-{dd:02}"), "calendarName": format!("{disp:?}")});
                let r = call(|| Ok(PlainMonthDay::new_with_overflow(m, dd, Calendar::default(), ArithmeticOverflow::Reject, None)?.to_ixdtf_string(disp)));
                if check_text(rep, "PlainMonthDay::to_ixdtf_string", &format!("({disp:?})"), case(), &r, &exp) {
                    let back = call(|| PlainMonthDay::from_str(&exp)).map(|p| (p.iso_month(), p.iso_day(), p.to_ixdtf_string(disp)));
                    match &back {
                        Out::Ok((bm, bd, again)) if (*bm, *bd) == (m, dd) && *again == exp => {}
                        _ if back.is_broken() => rep.inconclusive("C11.roundtrip", "panic"),
                        _ => rep.violation("C11.roundtrip", "PlainMonthDay::from_str(to_ixdtf_string)", &format!("({disp:?})"), case(), back.show(), format!("({m},{dd},{exp})")),
                    }
                }
                rep.nontrivial(fp!(4u64, k as u64, disp as u64));
            }
            4 => {
                // Instant: Z, and with an offset zone
                let day = inst.div_euclid(NS_PER_DAY) as i64;
                let t = inst.rem_euclid(NS_PER_DAY);
                let exp = format!("{}T{}Z", date_text(day), time_text(t, None));
                let case = || json!({"instant_ns": inst.to_string()});
                let r = call(|| Instant::try_new(inst)?.to_ixdtf_string_with_provider(None, ToStringRoundingOptions::default(), &prov));
                if check_text(rep, "Instant::to_ixdtf_string", if inst < 0 { "(utc,negative-epoch)" } else { "(utc,nonneg-epoch)" }, case(), &r, &exp) {
                    let back = call(|| Instant::from_str(&exp)).map(|p| p.as_i128());
                    match &back {
                        Out::Ok(b) if *b == inst => {}
                        _ if back.is_broken() => rep.inconclusive("C11.roundtrip", "panic"),
                        _ => rep.violation("C11.roundtrip", "Instant::from_str(to_ixdtf_string)", "utc", case(), back.show(), inst.to_string()),
                    }
                }
                let om = offsets[off_i];
                let l = inst + om as i128 * 60_000_000_000;
                if l.abs() < MAX_INSTANT + NS_PER_DAY {
                    let exp = format!("{}T{}{}", date_text(l.div_euclid(NS_PER_DAY) as i64), time_text(l.rem_euclid(NS_PER_DAY), None), offset_text(om));
                    let r = call(|| {
                        let tz = TimeZone::try_from_identifier_str(&offset_text(om))?;
                        Instant::try_new(inst)?.to_ixdtf_string_with_provider(Some(&tz), ToStringRoundingOptions::default(), &prov)
                    });
                    let feature = format!("(offset,{})", if om < 0 { "negative-offset" } else { "nonneg-offset" });
                    if check_text(rep, "Instant::to_ixdtf_string", &feature, json!({"instant_ns": inst.to_string(), "zone": offset_text(om)}), &r, &exp) {
                        let back = call(|| Instant::from_str(&exp)).map(|p| p.as_i128());
                        match &back {
                            Out::Ok(b) if *b == inst => {}
                            _ if back.is_broken() => rep.inconclusive("C11.roundtrip", "panic"),
                            _ => rep.violation("C11.roundtrip", "Instant::from_str(to_ixdtf_string)", &feature, json!({"instant_ns": inst.to_string(), "text": exp}), back.show(), inst.to_string()),
                        }
                    }
                    if om < 0 {
                        rep.hit("feature/negative_offset");
                    }
                    if om % 60 != 0 {
                        rep.hit("feature/offset_with_minutes");
                    }
                }
                rep.nontrivial(fp!(5u64, inst as u64, (inst >> 64) as u64, om as u64));
            }
            5 | 6 => {
                // ZonedDateTime over offset zones and over the named zone UTC
                let named = kind == 6 && rng_free(it);
                let om = if named { 0 } else { offsets[off_i] };
                let zone_id = if named { "UTC".to_string() } else { offset_text(om) };
                let l = inst + om as i128 * 60_000_000_000;
                if l.abs() >= MAX_INSTANT + NS_PER_DAY - 1 {
                    continue;
                }
                let d_off = if rng.bool() { DisplayOffset::Auto } else { DisplayOffset::Never };
                let d_tz = if rng.bool() { DisplayTimeZone::Auto } else { DisplayTimeZone::Critical };
                let exp = format!(
                    "{}T{}{}[{}{}]{}",
                    date_text(l.div_euclid(NS_PER_DAY) as i64),
                    time_text(l.rem_euclid(NS_PER_DAY), None),
                    if d_off == DisplayOffset::Auto { offset_text(om) } else { String::new() },
                    if d_tz == DisplayTimeZone::Critical { "!" } else { "" },
                    zone_id,
                    cal_annotation(cal, disp)
                );
                let case = || json!({"instant_ns": inst.to_string(), "zone": zone_id, "calendar": cal, "offset": format!("{d_off:?}"), "timeZoneName": format!("{d_tz:?}"), "calendarName": format!("{disp:?}")});
                let r = call(|| {
                    let tz = TimeZone::try_from_identifier_str(&zone_id)?;
                    ZonedDateTime::try_new(inst, Calendar::from_str(cal)?, tz)?.to_ixdtf_string_with_provider(d_off, d_tz, disp, ToStringRoundingOptions::default(), &prov)
                });
                let feature = format!("({},{d_off:?},{d_tz:?},{disp:?})", if named { "named" } else if om < 0 { "negative-offset" } else { "nonneg-offset" });
                // the specification's InterpretISODateTimeOffset refuses a wall-clock *date* more than 1e8 days from
                // the epoch (CheckISODaysRange) even when the instant is valid: those two edge days are not judged
                let local_day = l.div_euclid(NS_PER_DAY);
                let parse_edge = local_day.abs() > 100_000_000;
                if parse_edge {
                    rep.hit("undecided/zdt_local_date_outside_CheckISODaysRange");
                }
                if check_text(rep, "ZonedDateTime::to_ixdtf_string", &feature, case(), &r, &exp) && (disp != DisplayCalendar::Never || cal == "iso8601") && !parse_edge {
                    let back = call(|| ZonedDateTime::from_str_with_provider(&exp, Disambiguation::Reject, OffsetDisambiguation::Reject, &prov)).map(|z| {
                        (z.epoch_nanoseconds().as_i128(), z.timezone().identifier().unwrap_or_default(), z.calendar().identifier().to_string(), z.to_ixdtf_string_with_provider(d_off, d_tz, disp, ToStringRoundingOptions::default(), &prov).ok())
                    });
                    match &back {
                        Out::Ok((b, bz, bc, again)) if *b == inst && *bz == zone_id && bc == cal && again.as_deref() == Some(&exp) => {}
                        _ if back.is_broken() => rep.inconclusive("C11.roundtrip", "panic"),
                        _ => rep.violation("C11.roundtrip", "ZonedDateTime::from_str(to_ixdtf_string)", &feature, case(), back.show(), format!("({inst},{zone_id},{cal},{exp})")),
                    }
                }
                rep.nontrivial(fp!(6u64, inst as u64, (inst >> 64) as u64, om as u64, rng_hash(cal), disp as u64));
            }
            _ => {
                // Duration
                if !dur::is_valid(&dfields) {
                    continue;
                }
                let Out::Ok(d) = call(|| dur10(dfields)) else {
                    rep.inconclusive("C11.ctor", "duration-rejected");
                    continue;
                };
                let exp = duration_text(&dfields);
                let case = || json!({"fields": format!("{dfields:?}")});
                let a: Vec<i128> = dfields.iter().map(|x| dur::exact(*x)).collect();
                let feature = if a[0..7].iter().all(|x| *x == 0) {
                    "only-subsecond"
                } else if a[4..10].iter().all(|x| *x == 0) {
                    "only-date"
                } else if a.iter().any(|x| x.abs() > (1i128 << 53)) {
                    "huge-field"
                } else if a[6] == 0 && (a[7] != 0 || a[8] != 0 || a[9] != 0) {
                    "zero-seconds-with-fraction"
                } else {
                    "mixed"
                };
                let r = call(|| d.as_temporal_string(ToStringRoundingOptions::default()));
                let r2 = call_inf(|| d.to_string());
                if let (Out::Ok(t1), Out::Ok(t2)) = (&r, &r2) {
                    if t1 != t2 {
                        rep.violation("C11.canonical", "Duration Display vs as_temporal_string", feature, case(), t2.clone(), t1.clone());
                    }
                }
                if check_text(rep, "Duration::as_temporal_string", &format!("({feature},{})", if exp.starts_with('-') { "neg" } else { "nonneg" }), case(), &r, &exp) {
                    let back = call(|| Duration::from_str(&exp)).map(|p| dur_fields(&p));
                    // equal once sub-second fields are folded into seconds
                    let fold = |v: &[f64; 10]| -> Vec<i128> {
                        let e: Vec<i128> = v.iter().map(|x| dur::exact(*x)).collect();
                        vec![e[0], e[1], e[2], e[3], e[4], e[5], e[6] * 1_000_000_000 + e[7] * 1_000_000 + e[8] * 1_000 + e[9]]
                    };
                    match &back {
                        Out::Ok(b) if fold(b) == fold(&dfields) => {
                            let again = call(|| dur10(*b)?.as_temporal_string(ToStringRoundingOptions::default()));
                            if !matches!(&again, Out::Ok(t) if *t == exp) {
                                rep.violation("C11.idempotent", "Duration format(parse(format))", feature, case(), again.show(), exp.clone());
                            }
                        }
                        _ if back.is_broken() => rep.inconclusive("C11.roundtrip", "panic"),
                        _ => rep.violation("C11.roundtrip", "Duration::from_str(as_temporal_string)", &format!("({feature})"), json!({"fields": format!("{dfields:?}"), "text": exp}), back.show(), format!("{:?} (sub-second fields folded)", fold(&dfields))),
                    }
                }
                rep.hit(&format!("feature/duration_{feature}"));
                rep.nontrivial(fp!(7u64, a[0] as u64, a[1] as u64, a[3] as u64, a[4] as u64, a[6] as u64, a[9] as u64));
            }
        }
        if it % 100_003 < 8 {
            let kind_name = ["PlainDate", "PlainTime", "PlainDateTime", "YearMonth/MonthDay", "Instant", "ZonedDateTime", "ZonedDateTime", "Duration"][kind as usize];
            rep.sample(&format!("v{}", it % 8), || json!({"kind": kind_name, "date": date_text(k), "time": fmt_ns_of_day(tod), "calendar": cal}));
        }
    }
    evals += zoned_named(rep);
    rep.evaluations += evals;
    rep.add("cases", evals);
    for c in ["cases", "feature/extended_year", "feature/year_format_boundary", "feature/negative_offset", "feature/offset_with_minutes", "feature/fraction_len_0", "feature/fraction_len_9", "feature/duration_only-subsecond", "feature/duration_only-date"] {
        rep.require(c);
    }
}

/// ZonedDateTime in named zones with rules, through the library's own zone data, at instants around the zone's
/// transitions and with every precision / rounding mode: the text must be the canonical form of the ROUNDED instant
/// (wall time and offset both taken at the rounded instant), must equal the text of that rounded instant formatted
/// without further rounding, and must parse back to exactly that instant in the same zone.
fn zoned_named(rep: &mut Report) -> u64 {
    use crate::refmodel::round::{round_int, Mode, ALL_MODES};
    use crate::zones::{load_real, SEC};
    let mut rng = rep.cfg.rng("c11-named");
    let n = rep.cfg.budget(120_000, 6_000_000);
    let fs = temporal_rs::tzdb::FsTzdbProvider::default();
    let real = load_real("/verif/.build/zones.tbl");
    let want = ["America/New_York", "Europe/Dublin", "Europe/London", "Australia/Lord_Howe", "Pacific/Apia", "Asia/Kolkata", "Asia/Kathmandu", "Africa/Casablanca", "America/Sao_Paulo", "Africa/Monrovia", "America/St_Johns", "Pacific/Chatham", "Asia/Tehran", "Europe/Berlin", "America/Havana", "Atlantic/Azores"];
    let zones: Vec<_> = if rep.cfg.thorough() { real.iter().filter(|z| !z.trans.is_empty()).collect() } else { real.iter().filter(|z| want.contains(&z.name.as_str()) && !z.trans.is_empty()).collect() };
    if zones.is_empty() {
        rep.harness_error("no zone tables loaded for the named-zone formatting scenario".into());
        return 0;
    }
    // the exported tables end in 2120
    const HORIZON: i128 = 4_700_000_000 * SEC;
    let mut evals = 0u64;
    for _ in 0..n {
        let sub = rng.u64();
        if !rep.begin() {
            continue;
        }
        evals += 1;
        let mut r = Rng::new(sub, "c11-named-case", 0);
        let z = *r.pick(&zones);
        let (tr, _) = z.trans[r.below(z.trans.len() as u64) as usize];
        let step_sel = *r.pick(&[0u64, 1, 2, 3, 5, 6]);
        let (step, digits, prec, unit): (i128, Option<u8>, Precision, Option<Unit>) = match step_sel {
            0 => (1, None, Precision::Auto, None),
            1 => (SEC, Some(0), Precision::Digit(0), None),
            2 => (1_000_000, Some(3), Precision::Digit(3), None),
            3 => (1_000, Some(6), Precision::Digit(6), None),
            4 => (60 * SEC, None, Precision::Minute, None),
            5 => (SEC, Some(0), Precision::Auto, Some(Unit::Second)),
            _ => (60 * SEC, None, Precision::Auto, Some(Unit::Minute)),
        };
        let minute = step == 60 * SEC;
        let delta = *r.pick(&[-1i128, 0, 1, -step / 2, -step / 2 - 1, -step / 2 + 1, -step + 1, -step, step / 2, step - 1, -3 * step / 2, -SEC / 2, -30 * SEC, 3_600 * SEC - 1]) + if r.chance(1, 5) { r.range128(-2 * step, 2 * step) } else { 0 };
        let t = tr as i128 * SEC + delta;
        if t.abs() >= HORIZON {
            continue;
        }
        let m: Mode = *r.pick(&ALL_MODES);
        let (rounded, _) = round_int(t, step, m);
        let off = z.ref_offset_at(rounded.div_euclid(SEC) as i64);
        let local = rounded + off as i128 * SEC;
        let off_min = round_int(off as i128, 60, Mode::HalfExpand).0 / 60;
        let tod = local.rem_euclid(NS_PER_DAY);
        let time = if minute { let (h, mi, ..) = split_ns_of_day(tod); format!("{h:02}:{mi:02}") } else { time_text(tod, digits) };
        let exp = format!("{}T{}{}[{}]", date_text(local.div_euclid(NS_PER_DAY) as i64), time, offset_text(off_min as i64), z.name);
        let opts = |mode: RoundingMode| ToStringRoundingOptions { precision: prec, smallest_unit: unit, rounding_mode: Some(mode) };
        let crosses = z.ref_offset_at(t.div_euclid(SEC) as i64) != off;
        let feature = format!("(named,{},{})", ["auto", "digits=0", "digits=3", "digits=6", "precision=minute", "smallestUnit=second", "smallestUnit=minute"][step_sel as usize], if crosses { "rounds-across-a-transition" } else if rounded != t { "rounds" } else { "already-a-multiple" });
        let case = || json!({"zone": z.name, "instant_ns": t.to_string(), "rounding_mode": m.name(), "rounded_instant_ns": rounded.to_string()});
        let fmt = |ns: i128, mode: RoundingMode| {
            call(|| {
                let tz = TimeZone::try_from_identifier_str(&z.name)?;
                ZonedDateTime::try_new(ns, Calendar::default(), tz)?.to_ixdtf_string_with_provider(DisplayOffset::Auto, DisplayTimeZone::Auto, DisplayCalendar::Auto, opts(mode), &fs)
            })
        };
        let a = fmt(t, m.to_lib());
        if crosses {
            rep.hit("named/rounds_across_a_transition");
        }
        if !check_text(rep, "ZonedDateTime::to_ixdtf_string(named zone)", &feature, case(), &a, &exp) {
            continue;
        }
        // the same text as the rounded instant formatted with no rounding left to do
        let b = fmt(rounded, RoundingMode::Trunc);
        if !b.is_broken() && b.as_ok() != a.as_ok() {
            rep.violation("C11.canonical", "ZonedDateTime::to_ixdtf_string(named zone) vs the rounded instant's text", &feature, case(), a.show(), b.show());
        }
        // and it reads back as the rounded instant in the same zone
        let back = call(|| ZonedDateTime::from_str_with_provider(&exp, Disambiguation::Reject, OffsetDisambiguation::Reject, &fs)).map(|zd| (zd.epoch_nanoseconds().as_i128(), zd.timezone().identifier().unwrap_or_default()));
        // offsets are printed to the minute: when the wall time is repeated and both readings' offsets round to the printed
        // minute (an overlap of a few seconds between two sub-minute offsets), the text denotes the earlier reading
        // (and with minute precision the seconds of a wall time in a zone with a sub-minute offset are dropped from the text)
        let printed = if minute { local - local.rem_euclid(60 * SEC) } else { local };
        let reads_as = z.ref_instants_of(printed).into_iter().find(|c| round_int((printed - c) / SEC, 60, Mode::HalfExpand).0 / 60 == off_min);
        if reads_as != Some(rounded) {
            rep.hit("named/text_ambiguous_to_the_minute");
        }
        match (&back, reads_as) {
            (Out::Ok((bi, bz)), Some(e)) if *bi == e && *bz == z.name => {}
            (Out::Err(temporal_rs::error::ErrorKind::Range, _), None) => {}
            _ if back.is_broken() => rep.inconclusive("C11.roundtrip", "panic"),
            _ => rep.violation("C11.roundtrip", "ZonedDateTime::from_str(to_ixdtf_string(named zone))", &feature, case(), back.show(), format!("({reads_as:?},{})", z.name)),
        }
        rep.nontrivial(fp!(8u64, t as u64, (t >> 64) as u64, step as u64, m as u64, rng_hash(&z.name)));
        rep.sample(&format!("named{}", step_sel), || json!({"op": "ZonedDateTime::to_ixdtf_string(named zone)", "case": case(), "expected": exp}));
    }
    rep.require("named/rounds_across_a_transition");
    evals
}

fn rng_hash(s: &str) -> u64 {
    hash_str(s)
}

fn rng_free(it: u64) -> bool {
    (it / 8) % 3 == 0
}
