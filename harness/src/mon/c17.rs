//! C17 - with / from_partial use only the supplied fields; constrain clamps, reject errors.
//!
//! Oracle: a reference merge (supplied field else receiver's / default, then regulate) for the ISO calendar.

use crate::core::*;
use crate::fp;
use crate::mon::c04::gen_day;
use crate::refmodel::civil::*;
use crate::util::*;
use serde_json::json;
use temporal_rs::error::ErrorKind;
use temporal_rs::options::ArithmeticOverflow;
use temporal_rs::partial::{PartialDate, PartialDateTime, PartialTime};
use temporal_rs::{Calendar, MonthCode, PlainDate, PlainDateTime, PlainTime, PlainYearMonth};

#[derive(Debug, Clone, PartialEq)]
enum Exp<T> {
    Ok(T),
    Type,
    Range,
    /// the property and the specification disagree or are silent (zero month/day): not judged
    Undecided,
}

#[derive(Clone, Debug, Default)]
struct PD {
    year: Option<i32>,
    month: Option<u8>,
    code: Option<&'static str>,
    day: Option<u8>,
}

const CODES: [&str; 8] = ["M01", "M02", "M06", "M12", "M13", "M05L", "M00", "M99"];
const MONTHS: [u8; 9] = [0, 1, 2, 6, 12, 13, 14, 200, 255];
const DAYS: [u8; 10] = [0, 1, 15, 28, 29, 30, 31, 32, 100, 255];
const YEARS: [i32; 12] = [2021, 2020, 1972, 0, -1, -271_821, 275_760, -271_822, 275_761, i32::MAX, i32::MIN, 1_000_000];

fn code_month(c: &str) -> Option<u8> {
    // valid ISO month codes: M01..M12, no leap suffix
    if c.len() != 3 {
        return None;
    }
    let n: u8 = c[1..].parse().ok()?;
    if (1..=12).contains(&n) {
        Some(n)
    } else {
        None
    }
}

/// Reference merge for ISO dates. `recv` = receiver's (y,m,d) for `with`, None for from_partial.
/// `ym` = year-month mode (day defaults to 1 and a supplied day is ignored for the result's month/year).
fn expect_date(recv: Option<Ymd3>, p: &PD, reject: bool, need_day: bool) -> Exp<Ymd3> {
    let empty = p.year.is_none() && p.month.is_none() && p.code.is_none() && p.day.is_none();
    if recv.is_some() && empty {
        return Exp::Type;
    }
    // required fields
    let year = match (p.year, recv) {
        (Some(y), _) => y as i64,
        (None, Some(r)) => r.0,
        (None, None) => return Exp::Type,
    };
    if p.month.is_none() && p.code.is_none() && recv.is_none() {
        return Exp::Type;
    }
    if need_day && p.day.is_none() && recv.is_none() {
        return Exp::Type;
    }
    if p.month == Some(0) || p.day == Some(0) {
        return Exp::Undecided;
    }
    let month: u8 = match (p.month, p.code) {
        (Some(m), Some(c)) => match code_month(c) {
            None => return Exp::Range,
            Some(n) => {
                if n != m {
                    return Exp::Range;
                }
                n
            }
        },
        (Some(m), None) => {
            if m > 12 {
                if reject {
                    return Exp::Range;
                }
                12
            } else {
                m
            }
        }
        (None, Some(c)) => match code_month(c) {
            None => return Exp::Range,
            Some(n) => n,
        },
        (None, None) => recv.unwrap().1,
    };
    let day_in = match (p.day, recv) {
        (Some(d), _) => d,
        (None, Some(r)) => r.2,
        (None, None) => 1,
    };
    if !(-400_000..=400_000).contains(&year) {
        return Exp::Range;
    }
    let dmax = dim(year, month);
    let day = if day_in > dmax {
        if reject {
            return Exp::Range;
        }
        dmax
    } else {
        day_in
    };
    Exp::Ok((year, month, day))
}

type Ymd3 = (i64, u8, u8);

fn date_in_limits(v: Ymd3) -> bool {
    let k = days_from_civil(v.0, v.1, v.2);
    (MIN_DAY..=MAX_DAY).contains(&k)
}

fn mk_partial(p: &PD) -> PartialDate {
    PartialDate::new()
        .with_year(p.year)
        .with_month(p.month)
        .with_month_code(p.code.and_then(|c| MonthCode::try_from_utf8(c.as_bytes()).ok()))
        .with_day(p.day)
}

fn gen_pd(rng: &mut Rng, subset: u64, recv: Option<Ymd3>) -> PD {
    let mut p = PD::default();
    if subset & 1 != 0 {
        p.year = Some(match rng.below(3) {
            0 => recv.map(|r| r.0 as i32).unwrap_or(2000) + rng.range(-3, 3) as i32,
            _ => *rng.pick(&YEARS),
        });
    }
    if subset & 2 != 0 {
        p.month = Some(*rng.pick(&MONTHS));
    }
    if subset & 4 != 0 {
        p.code = Some(*rng.pick(&CODES));
        // make month and code agree half of the time when both are present
        if subset & 2 != 0 && rng.bool() {
            if let Some(n) = code_month(p.code.unwrap()) {
                p.month = Some(n);
            }
        }
    }
    if subset & 8 != 0 {
        p.day = Some(*rng.pick(&DAYS));
    }
    p
}

// ---- time
const TMAX: [u16; 6] = [23, 59, 59, 999, 999, 999];

fn time_values(i: usize, rng: &mut Rng) -> u16 {
    let hi: u16 = if i < 3 { 255 } else { 65_535 };
    *rng.pick(&[0, 1, TMAX[i] - 1, TMAX[i], TMAX[i] + 1, TMAX[i] + 2, hi / 2, hi])
}

fn expect_time(recv: Option<[u16; 6]>, p: &[Option<u16>; 6], reject: bool) -> Exp<[u16; 6]> {
    if p.iter().all(|x| x.is_none()) {
        return Exp::Type;
    }
    let mut out = [0u16; 6];
    for i in 0..6 {
        let v = p[i].unwrap_or(recv.map(|r| r[i]).unwrap_or(0));
        if v > TMAX[i] {
            if reject {
                return Exp::Range;
            }
            out[i] = TMAX[i];
        } else {
            out[i] = v;
        }
    }
    Exp::Ok(out)
}

fn mk_ptime(p: &[Option<u16>; 6]) -> PartialTime {
    PartialTime::new()
        .with_hour(p[0].map(|x| x as u8))
        .with_minute(p[1].map(|x| x as u8))
        .with_second(p[2].map(|x| x as u8))
        .with_millisecond(p[3])
        .with_microsecond(p[4])
        .with_nanosecond(p[5])
}

fn time_arr(t: &PlainTime) -> [u16; 6] {
    [t.hour() as u16, t.minute() as u16, t.second() as u16, t.millisecond(), t.microsecond(), t.nanosecond()]
}

fn judge<T: PartialEq + std::fmt::Debug>(rep: &mut Report, clause: &str, op: &str, shape: &str, case: serde_json::Value, got: Out<T>, exp: &Exp<T>) {
    match (exp, &got) {
        (Exp::Undecided, _) => rep.hit("undecided/zero_month_or_day"),
        (_, Out::Panic(l, _)) => rep.inconclusive(clause, &format!("panic@{l}")),
        (_, Out::Err(ErrorKind::Assert, _)) => rep.inconclusive(clause, "assert"),
        (Exp::Ok(e), Out::Ok(g)) if e == g => {}
        (Exp::Type, Out::Err(ErrorKind::Type, _)) => {}
        (Exp::Range, Out::Err(ErrorKind::Range, _)) => {}
        _ => {
            let cls = match (exp, &got) {
                (Exp::Ok(_), Out::Ok(_)) => "wrong-value",
                (Exp::Ok(_), _) => "spurious-error",
                (_, Out::Ok(_)) => "accepted",
                _ => "wrong-error-kind",
            };
            rep.violation(clause, op, &format!("({shape},{cls})"), case, got.show(), format!("{exp:?}"));
        }
    }
}

fn subset_name(s: u64, names: &[&str]) -> String {
    let v: Vec<&str> = names.iter().enumerate().filter(|(i, _)| s & (1 << i) != 0).map(|(_, n)| *n).collect();
    if v.is_empty() {
        "none".into()
    } else {
        v.join("+")
    }
}

pub fn run(rep: &mut Report) {
    let iso = Calendar::default();
    let mut rng = rep.cfg.rng("c17");
    let per = rep.cfg.budget(2_000_000, 100_000_000) / 4;
    let mut evals = 0u64;
    let dnames = ["year", "month", "monthCode", "day"];

    // ------------------------------------------------------------------ PlainDate with / from_partial
    for it in 0..per {
        let subset = it % 16;
        let k = gen_day(&mut rng);
        let r = civil_from_days(k);
        let recv: Ymd3 = (r.0, r.1, r.2);
        let p = gen_pd(&mut rng, subset, Some(recv));
        let reject = rng.bool();
        if !rep.begin() {
            continue;
        }
        evals += 1;
        let ov = if reject { ArithmeticOverflow::Reject } else { ArithmeticOverflow::Constrain };
        let shape = format!("{},{}", subset_name(subset, &dnames), if reject { "reject" } else { "constrain" });
        let case = || json!({"receiver": format!("{}-{:02}-{:02}", fmt_year(recv.0), recv.1, recv.2), "partial": format!("{p:?}"), "overflow": if reject {"reject"} else {"constrain"}});
        // with
        let mut exp = expect_date(Some(recv), &p, reject, true);
        if let Exp::Ok(v) = exp {
            if !date_in_limits(v) {
                exp = Exp::Range;
            }
        }
        let got = call(|| PlainDate::try_new(recv.0 as i32, recv.1, recv.2, iso.clone())?.with(mk_partial(&p), Some(ov))).map(|d| (d.iso_year() as i64, d.iso_month(), d.iso_day()));
        if let Exp::Ok(e) = &exp {
            if *e != recv {
                rep.nontrivial(fp!(1u64, k as u64, e.0 as u64, e.1, e.2, subset, reject));
            }
        }
        judge(rep, "C17.date_with", "PlainDate::with", &shape, case(), got, &exp);
        // from_partial
        let mut exp = expect_date(None, &p, reject, true);
        if let Exp::Ok(v) = exp {
            if !date_in_limits(v) {
                exp = Exp::Range;
            }
        }
        let got = call(|| PlainDate::from_partial(mk_partial(&p), Some(ov))).map(|d| (d.iso_year() as i64, d.iso_month(), d.iso_day()));
        judge(rep, "C17.date_from_partial", "PlainDate::from_partial", &shape, case(), got, &exp);
        // identity: applying a value's own fields is the identity
        if it % 8 == 0 {
            let own = PD { year: Some(recv.0 as i32), month: Some(recv.1), code: None, day: Some(recv.2) };
            let got = call(|| {
                let d = PlainDate::try_new(recv.0 as i32, recv.1, recv.2, iso.clone())?;
                let mut pp = mk_partial(&own);
                pp.month_code = Some(d.month_code());
                d.with(pp, Some(ov))
            })
            .map(|d| (d.iso_year() as i64, d.iso_month(), d.iso_day()));
            judge(rep, "C17.identity", "PlainDate::with(own fields)", if reject { "reject" } else { "constrain" }, case(), got, &Exp::Ok(recv));
        }
        // year-month: with / from_partial over year, month, monthCode (+ day supplied: ignored for the visible fields)
        {
            let mut exp = expect_date(Some((recv.0, recv.1, 1)), &PD { day: None, ..p.clone() }, reject, false);
            if subset & 7 == 0 {
                // only `day` (or nothing) supplied: nothing the year-month can use
                exp = if p.day.is_none() { Exp::Type } else { Exp::Undecided };
            }
            if let Exp::Ok(v) = exp {
                let inl = (v.0 > -271_821 || (v.0 == -271_821 && v.1 >= 4)) && (v.0 < 275_760 || (v.0 == 275_760 && v.1 <= 9));
                if !inl || v.0 < -271_821 || v.0 > 275_760 {
                    exp = Exp::Range;
                }
            }
            let exp_ym = match exp {
                Exp::Ok(v) => Exp::Ok((v.0, v.1)),
                Exp::Type => Exp::Type,
                Exp::Range => Exp::Range,
                Exp::Undecided => Exp::Undecided,
            };
            let in_ym_range = (recv.0 > -271_821 || recv.1 >= 4) && (recv.0 < 275_760 || recv.1 <= 9);
            if in_ym_range {
                let got = call(|| PlainYearMonth::new_with_overflow(recv.0 as i32, recv.1, None, iso.clone(), ArithmeticOverflow::Reject)?.with(mk_partial(&p), Some(ov))).map(|d| (d.iso_year() as i64, d.iso_month()));
                // the empty-record TypeError of year-month `with` is judged like the others
                judge(rep, "C17.ym_with", "PlainYearMonth::with", &shape, case(), got, &exp_ym);
            }
            // from_partial: no receiver; a missing year or month is a TypeError before any value is looked at
            let mut exp = expect_date(None, &PD { day: None, ..p.clone() }, reject, false);
            if let Exp::Ok(v) = exp {
                let inl = (v.0 > -271_821 || (v.0 == -271_821 && v.1 >= 4)) && (v.0 < 275_760 || (v.0 == 275_760 && v.1 <= 9));
                if !inl {
                    exp = Exp::Range;
                }
            }
            let exp_ym = match exp {
                Exp::Ok(v) => Exp::Ok((v.0, v.1)),
                Exp::Type => Exp::Type,
                Exp::Range => Exp::Range,
                Exp::Undecided => Exp::Undecided,
            };
            let got = call(|| PlainYearMonth::from_partial(mk_partial(&p), ov)).map(|d| (d.iso_year() as i64, d.iso_month()));
            judge(rep, "C17.ym_from_partial", "PlainYearMonth::from_partial", &shape, case(), got, &exp_ym);
        }
        if it % 100_003 == 0 {
            rep.sample(&format!("d{it}"), || json!({"op": "PlainDate::with", "case": case(), "expected": format!("{:?}", expect_date(Some(recv), &p, reject, true))}));
        }
    }

    // ------------------------------------------------------------------ PlainTime with / from_partial / constructors
    for it in 0..per {
        let subset = it % 64;
        let t0 = rng.range128(0, DAY_NS - 1);
        let (h, mi, s, ms, us, ns) = split_ns_of_day(t0);
        let recv = [h as u16, mi as u16, s as u16, ms, us, ns];
        let mut p: [Option<u16>; 6] = [None; 6];
        for i in 0..6 {
            if subset & (1 << i) != 0 {
                p[i] = Some(time_values(i, &mut rng));
            }
        }
        let reject = rng.bool();
        if !rep.begin() {
            continue;
        }
        evals += 1;
        let ov = if reject { ArithmeticOverflow::Reject } else { ArithmeticOverflow::Constrain };
        let shape = format!("{},{}", subset_name(subset, &["hour", "minute", "second", "ms", "us", "ns"]), if reject { "reject" } else { "constrain" });
        let case = || json!({"receiver": fmt_ns_of_day(t0), "partial": format!("{p:?}"), "overflow": if reject {"reject"} else {"constrain"}});
        let exp = expect_time(Some(recv), &p, reject);
        if let Exp::Ok(e) = &exp {
            if *e != recv {
                rep.nontrivial(fp!(2u64, t0 as u64, e[0], e[1], e[2], e[3], e[4], e[5], subset));
            }
        }
        let got = call(|| ptime(t0)?.with(mk_ptime(&p), Some(ov))).map(|t| time_arr(&t));
        judge(rep, "C17.time_with", "PlainTime::with", &shape, case(), got, &exp);
        let exp = expect_time(None, &p, reject);
        let got = call(|| PlainTime::from_partial(mk_ptime(&p), Some(ov))).map(|t| time_arr(&t));
        judge(rep, "C17.time_from_partial", "PlainTime::from_partial", &shape, case(), got, &exp);
        // constructors with the same value sets (u8 fields cannot exceed 255)
        if subset == 63 {
            let v: Vec<u16> = p.iter().map(|x| x.unwrap()).collect();
            if v[0] <= 255 && v[1] <= 255 && v[2] <= 255 {
                let full: [Option<u16>; 6] = [Some(v[0]), Some(v[1]), Some(v[2]), Some(v[3]), Some(v[4]), Some(v[5])];
                let exp = expect_time(None, &full, reject);
                let got = call(|| PlainTime::new_with_overflow(v[0] as u8, v[1] as u8, v[2] as u8, v[3], v[4], v[5], ov)).map(|t| time_arr(&t));
                judge(rep, "C17.time_ctor", "PlainTime::new_with_overflow", if reject { "reject" } else { "constrain" }, case(), got, &exp);
                let got = call(|| if reject { PlainTime::try_new(v[0] as u8, v[1] as u8, v[2] as u8, v[3], v[4], v[5]) } else { PlainTime::new(v[0] as u8, v[1] as u8, v[2] as u8, v[3], v[4], v[5]) }).map(|t| time_arr(&t));
                judge(rep, "C17.time_ctor", "PlainTime::new/try_new", if reject { "reject" } else { "constrain" }, case(), got, &exp);
            }
        }
        // identity
        if it % 8 == 0 {
            let own: [Option<u16>; 6] = [Some(recv[0]), Some(recv[1]), Some(recv[2]), Some(recv[3]), Some(recv[4]), Some(recv[5])];
            let got = call(|| ptime(t0)?.with(mk_ptime(&own), Some(ov))).map(|t| time_arr(&t));
            judge(rep, "C17.identity", "PlainTime::with(own fields)", if reject { "reject" } else { "constrain" }, case(), got, &Exp::Ok(recv));
        }
    }

    // ------------------------------------------------------------------ PlainDateTime with / from_partial / constructors
    for _it in 0..(2 * per) {
        let dsub = rng.below(16);
        let tsub = rng.below(64);
        let k = gen_day(&mut rng).clamp(MIN_DAY + 1, MAX_DAY);
        let t0 = rng.range128(0, DAY_NS - 1);
        let r = civil_from_days(k);
        let recv: Ymd3 = (r.0, r.1, r.2);
        let (h, mi, s, ms, us, ns) = split_ns_of_day(t0);
        let recv_t = [h as u16, mi as u16, s as u16, ms, us, ns];
        let pd = gen_pd(&mut rng, dsub, Some(recv));
        let mut pt: [Option<u16>; 6] = [None; 6];
        for i in 0..6 {
            if tsub & (1 << i) != 0 {
                pt[i] = Some(time_values(i, &mut rng));
            }
        }
        let reject = rng.bool();
        if !rep.begin() {
            continue;
        }
        evals += 1;
        let ov = if reject { ArithmeticOverflow::Reject } else { ArithmeticOverflow::Constrain };
        let shape = format!("{}|{},{}", subset_name(dsub, &dnames), if tsub == 0 { "no-time" } else if tsub == 63 { "all-time" } else { "some-time" }, if reject { "reject" } else { "constrain" });
        let case = || json!({"receiver_local_ns": (k as i128 * DAY_NS + t0).to_string(), "date_partial": format!("{pd:?}"), "time_partial": format!("{pt:?}"), "overflow": if reject {"reject"} else {"constrain"}});
        let combine = |d: Exp<Ymd3>, t: Exp<[u16; 6]>, d_empty: bool, t_empty: bool, with: bool| -> Exp<(Ymd3, [u16; 6])> {
            if d_empty && t_empty {
                return Exp::Type;
            }
            // `with`: an empty half keeps the receiver's half; from_partial: an empty time half means midnight
            let d = if with && d_empty { Exp::Ok(recv) } else { d };
            let t = if t_empty { Exp::Ok(if with { recv_t } else { [0; 6] }) } else { t };
            match (d, t) {
                (Exp::Undecided, _) | (_, Exp::Undecided) => Exp::Undecided,
                (Exp::Type, _) => Exp::Type,
                (_, Exp::Type) => Exp::Type,
                (Exp::Range, _) | (_, Exp::Range) => Exp::Range,
                (Exp::Ok(d), Exp::Ok(t)) => {
                    let kk = days_from_civil(d.0, d.1, d.2);
                    if !(MIN_DAY..=MAX_DAY).contains(&kk) {
                        return Exp::Range;
                    }
                    let tod = ((t[0] as i128 * 60 + t[1] as i128) * 60 + t[2] as i128) * 1_000_000_000 + t[3] as i128 * 1_000_000 + t[4] as i128 * 1_000 + t[5] as i128;
                    let l = kk as i128 * DAY_NS + tod;
                    if l <= -crate::mon::c07::DT_LIMIT || l >= crate::mon::c07::DT_LIMIT {
                        return Exp::Range;
                    }
                    Exp::Ok((d, t))
                }
            }
        };
        let obs = |d: &PlainDateTime| ((d.iso_year() as i64, d.iso_month(), d.iso_day()), [d.hour() as u16, d.minute() as u16, d.second() as u16, d.millisecond(), d.microsecond(), d.nanosecond()]);
        let exp = combine(expect_date(Some(recv), &pd, reject, true), expect_time(Some(recv_t), &pt, reject), dsub == 0, tsub == 0, true);
        if let Exp::Ok(e) = &exp {
            if e.0 != recv || e.1 != recv_t {
                rep.nontrivial(fp!(3u64, k as u64, t0 as u64, dsub, tsub, reject));
            }
        }
        let got = call(|| {
            let d = pdt_from_local(k as i128 * DAY_NS + t0)?;
            d.with(PartialDateTime::new().with_partial_date(mk_partial(&pd)).with_partial_time(mk_ptime(&pt)), Some(ov))
        })
        .map(|d| obs(&d));
        judge(rep, "C17.datetime_with", "PlainDateTime::with", &shape, case(), got, &exp);
        let exp = combine(expect_date(None, &pd, reject, true), expect_time(None, &pt, reject), dsub == 0, tsub == 0, false);
        // from_partial needs the date half: a record with only time fields misses required fields
        let exp = if dsub == 0 && tsub != 0 { Exp::Type } else { exp };
        let got = call(|| PlainDateTime::from_partial(PartialDateTime::new().with_partial_date(mk_partial(&pd)).with_partial_time(mk_ptime(&pt)), Some(ov))).map(|d| obs(&d));
        judge(rep, "C17.datetime_from_partial", "PlainDateTime::from_partial", &shape, case(), got, &exp);
        // constructors
        if dsub == 15 && tsub == 63 && pd.code.is_some() {
            let (y, m, d) = (pd.year.unwrap(), pd.month.unwrap(), pd.day.unwrap());
            let v: Vec<u16> = pt.iter().map(|x| x.unwrap()).collect();
            if v[0] <= 255 && v[1] <= 255 && v[2] <= 255 {
                let pdc = PD { year: Some(y), month: Some(m), code: None, day: Some(d) };
                let exp = combine(expect_date(None, &pdc, reject, true), expect_time(None, &pt, reject), false, false, false);
                let got = call(|| PlainDateTime::new_with_overflow(y, m, d, v[0] as u8, v[1] as u8, v[2] as u8, v[3], v[4], v[5], iso.clone(), ov)).map(|d| obs(&d));
                judge(rep, "C17.datetime_ctor", "PlainDateTime::new_with_overflow", if reject { "reject" } else { "constrain" }, case(), got, &exp);
                let got = call(|| PlainDate::new_with_overflow(y, m, d, iso.clone(), ov)).map(|d| (d.iso_year() as i64, d.iso_month(), d.iso_day()));
                let mut e = expect_date(None, &pdc, reject, true);
                if let Exp::Ok(v) = e {
                    if !date_in_limits(v) {
                        e = Exp::Range;
                    }
                }
                judge(rep, "C17.date_ctor", "PlainDate::new_with_overflow", if reject { "reject" } else { "constrain" }, case(), got, &e);
            }
        }
    }
    evals += own_fields_in_calendars(rep);
    rep.evaluations += evals;
    rep.add("cases", evals);
    rep.require("cases");
}


/// "Applying a value's own fields to itself is the identity", in calendars other than ISO too: every single own field and the
/// year-identifying pairs (year alone, era + eraYear) applied through PlainDate::with / PlainDateTime::with must give the receiver
/// back, whatever the calendar. The oracle is the receiver itself (its ISO date); no calendar model is needed.
fn own_fields_in_calendars(rep: &mut Report) -> u64 {
    use std::str::FromStr;
    const CALS: [&str; 12] = ["gregory", "japanese", "buddhist", "roc", "coptic", "ethiopic", "ethioaa", "hebrew", "indian", "persian", "islamic-civil", "iso8601"];
    let mut rng = rep.cfg.rng("c17-own-fields");
    let n = rep.cfg.budget(60_000, 3_000_000);
    let mut evals = 0u64;
    for _ in 0..n {
        let sub = rng.u64();
        if !rep.begin() {
            continue;
        }
        evals += 1;
        let mut r = Rng::new(sub, "c17-own", 0);
        let cal_id = *r.pick(&CALS);
        let day = if r.chance(1, 4) { gen_day(&mut r) } else { r.range(-200_000, 200_000) };
        let (y, m, d) = civil_from_days(day);
        let Ok(cal) = Calendar::from_str(cal_id) else { continue };
        let Out::Ok(recv) = call(|| PlainDate::try_new(y as i32, m, d, cal.clone())) else { continue };
        let which = r.below(6);
        let (name, partial): (&str, Option<PartialDate>) = match which {
            0 => ("day", Some(PartialDate::new().with_day(Some(recv.day())))),
            1 => ("year", Some(PartialDate::new().with_year(Some(recv.year())))),
            2 => ("monthCode", Some(PartialDate::new().with_month_code(Some(recv.month_code())))),
            3 => ("month", Some(PartialDate::new().with_month(Some(recv.month())))),
            4 => (
                "era+eraYear",
                match (recv.era(), recv.era_year()) {
                    (Some(e), Some(ey)) => tinystr::TinyAsciiStr::<19>::try_from_utf8(e.as_bytes()).ok().map(|e| PartialDate::new().with_era(Some(e)).with_era_year(Some(ey))),
                    _ => None,
                },
            ),
            _ => ("monthCode+day", Some(PartialDate::new().with_month_code(Some(recv.month_code())).with_day(Some(recv.day())))),
        };
        let Some(partial) = partial else {
            rep.hit("own-fields/no-era-in-this-calendar");
            continue;
        };
        let ov = *r.pick(&[None, Some(ArithmeticOverflow::Constrain), Some(ArithmeticOverflow::Reject)]);
        let case = || json!({"calendar": cal_id, "iso_date": format!("{}-{:02}-{:02}", fmt_year(y), m, d), "field": name, "overflow": format!("{ov:?}")});
        let got = call(|| recv.with(partial.clone(), ov)).map(|x| pdate_days(&x));
        match &got {
            Out::Ok(g) if *g == day => {
                rep.hit("own-fields/identity-held");
                rep.nontrivial(fp!(40u64, day as u64, which, rng_str(cal_id)));
            }
            _ if got.is_broken() => rep.inconclusive("C17.identity", "panic"),
            _ => rep.violation("C17.identity", "PlainDate::with(own field)", &format!("({},{name})", if cal_id == "iso8601" { "iso8601" } else { "other-calendar" }), case(), got.show(), format!("Ok({day})")),
        }
        // the same through PlainDateTime::with
        if which < 3 {
            let got = call(|| {
                let dt = PlainDateTime::new(y as i32, m, d, 12, 34, 56, 7, 8, 9, cal.clone())?;
                dt.with(PartialDateTime { date: partial.clone(), time: PartialTime::default() }, ov)
            })
            .map(|x| pdt_local_ns(&x));
            let want = day as i128 * NS_PER_DAY + ((12 * 60 + 34) * 60 + 56) as i128 * 1_000_000_000 + 7_008_009;
            match &got {
                Out::Ok(g) if *g == want => {}
                _ if got.is_broken() => rep.inconclusive("C17.identity", "panic"),
                _ => rep.violation("C17.identity", "PlainDateTime::with(own field)", &format!("({},{name})", if cal_id == "iso8601" { "iso8601" } else { "other-calendar" }), case(), got.show(), format!("Ok({want})")),
            }
        }
    }
    rep.require("own-fields/identity-held");
    evals
}

fn rng_str(s: &str) -> u64 {
    hash_str(s)
}
