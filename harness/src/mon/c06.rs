//! C06 - times are integers mod 24 h, instants integers on the epoch-nanosecond line.
//!
//! Oracle: exact i128 arithmetic on the duration's total nanoseconds (refmodel::dur).

use crate::core::*;
use crate::fp;
use crate::refmodel::civil::{MAX_INSTANT, NS_PER_DAY};
use crate::refmodel::dur::{self, *};
use crate::util::*;
use serde_json::json;
use temporal_rs::error::ErrorKind;
use temporal_rs::options::Unit;
use temporal_rs::{Duration, Instant, TimeDuration};

const TUNITS: [Unit; 6] = [Unit::Hour, Unit::Minute, Unit::Second, Unit::Millisecond, Unit::Microsecond, Unit::Nanosecond];
const UNIT_NS: [i128; 6] = [NS_HOUR, NS_MIN, NS_SEC, 1_000_000, 1_000, 1];

/// A random valid time-only duration (ten fields, date fields zero), hostile magnitudes.
pub fn gen_time_fields(rng: &mut Rng) -> [f64; 10] {
    loop {
        let mut v = [0f64; 10];
        let sign = if rng.bool() { 1.0 } else { -1.0 };
        let class = rng.below(8);
        let nfields = match rng.below(4) {
            0 => 1,
            1 => 2,
            2 => 3,
            _ => 6,
        };
        for _ in 0..nfields {
            let i = rng.below(6) as usize;
            let unit = UNIT_NS[i];
            let cap: i128 = match class {
                0 => 70,
                1 => 2_000,
                2 => 100_000,
                3 => (3 * NS_DAY / unit).max(1),
                4 => ((1i128 << 63) / unit).max(1) * 2,
                5 => ((1i128 << 53) * NS_SEC / unit / 2).max(1),
                6 => (MAX_TIME_NS_EXCL / unit).max(1),
                _ => ((MAX_INSTANT * 2) / unit).max(1),
            };
            let mag = if rng.chance(1, 6) { cap } else { rng.range128(0, cap) };
            let mag = match rng.below(5) {
                0 => mag - 1,
                1 => mag + 1,
                _ => mag,
            }
            .max(0);
            v[4 + i] = sign * (mag as f64); // nearest double; its exact value is the field
        }
        for x in v.iter_mut() {
            if *x == 0.0 {
                *x = 0.0; // normalise -0.0
            }
        }
        if dur::is_valid(&v) {
            return v;
        }
    }
}

fn mag_class(total: i128) -> &'static str {
    let a = total.abs();
    if a < NS_DAY {
        "<1d"
    } else if a < (1i128 << 63) {
        "<2^63"
    } else {
        ">=2^63"
    }
}

fn sgn(x: i128) -> &'static str {
    if x < 0 {
        "neg"
    } else {
        "nonneg"
    }
}

pub fn run(rep: &mut Report) {
    let mut rng = rep.cfg.rng("c06");
    let n = rep.cfg.budget(2_000_000, 200_000_000);
    let mut evals = 0u64;
    // directed field vectors named in the design
    let mut directed: Vec<[f64; 10]> = Vec::new();
    let huge = [9.007199254740990e24, 1e19, 9.3e18, 2.5e12 * 3600.0, 8.64e13, 8.64e13 + 1.0, 86_399_999_999_999.0];
    for (k, h) in huge.iter().enumerate() {
        for s in [1.0, -1.0] {
            let mut v = [0f64; 10];
            v[9] = s * h;
            if dur::is_valid(&v) {
                directed.push(v);
            }
            let mut v = [0f64; 10];
            v[8] = s * (h / 1000.0).floor();
            if dur::is_valid(&v) {
                directed.push(v);
            }
            if k < 3 {
                let mut v = [0f64; 10];
                v[4] = s * 2.5e12;
                v[9] = s * 999.0;
                if dur::is_valid(&v) {
                    directed.push(v);
                }
            }
        }
    }
    // mixed fields whose sum crosses 2^63 ns
    directed.push([0., 0., 0., 0., 2_562_047.0, 47.0, 16.0, 854.0, 775.0, 808.0]);
    directed.push([0., 0., 0., 0., -2_562_047.0, -47.0, -16.0, -854.0, -775.0, -809.0]);
    let ndirected = directed.len();

    for it in 0..(n + ndirected as u64) {
        let fields = if (it as usize) < ndirected { directed[it as usize] } else { gen_time_fields(&mut rng) };
        let t0 = match rng.below(5) {
            0 => 0,
            1 => NS_PER_DAY - 1,
            2 => 3_723_004_005_006, // 01:02:03.004005006 all distinct
            _ => rng.range128(0, NS_PER_DAY - 1),
        };
        let i0 = match rng.below(6) {
            0 => MAX_INSTANT - rng.range128(0, 1_000_000_000),
            1 => -MAX_INSTANT + rng.range128(0, 1_000_000_000),
            2 => -rng.range128(1, 999_999),
            3 => rng.range128(-5 * NS_DAY, 5 * NS_DAY),
            _ => rng.range128(-MAX_INSTANT, MAX_INSTANT),
        };
        let t1 = rng.range128(0, NS_PER_DAY - 1);
        let i1 = match rng.below(3) {
            0 => (i0 + rng.range128(-3 * NS_DAY, 3 * NS_DAY)).clamp(-MAX_INSTANT, MAX_INSTANT),
            _ => rng.range128(-MAX_INSTANT, MAX_INSTANT),
        };
        let lu = TUNITS[rng.below(6) as usize];
        let with_date = rng.chance(1, 16);
        let date_field = rng.below(4) as usize;
        let mine_dir = (it as usize) >= ndirected || rep.cfg.mine(it);
        if !mine_dir || !rep.begin() {
            continue;
        }
        evals += 1;
        let total = time_total(&fields);
        let d = match call(|| dur10(fields)) {
            Out::Ok(d) => d,
            _ => {
                // the constructor's verdict on a model-valid duration belongs to C09/C02
                rep.inconclusive("C06.ctor", "duration-rejected");
                continue;
            }
        };
        let case = |extra: serde_json::Value| json!({"duration": format!("{fields:?}"), "total_ns": total.to_string(), "x": extra});
        let big = mag_class(total);
        let mut nontriv = false;

        // ---- 1. PlainTime add / subtract == (ns + total) mod 24h
        for (sub, name) in [(false, "PlainTime::add"), (true, "PlainTime::subtract")] {
            let exp = (t0 + if sub { -total } else { total }).rem_euclid(NS_PER_DAY);
            let r = call(|| {
                let t = ptime(t0)?;
                if sub {
                    t.subtract(&d)
                } else {
                    t.add(&d)
                }
            });
            match &r {
                Out::Ok(g) if ptime_ns(g) == exp => {}
                _ if r.is_broken() => rep.inconclusive("C06.time_add", "panic"),
                _ => rep.violation("C06.time_add", name, &format!("({big},{})", sgn(total)), case(json!({"time": fmt_ns_of_day(t0)})), r.map(|g| fmt_ns_of_day(ptime_ns(&g))).show(), fmt_ns_of_day(exp)),
            }
        }
        // add_time_duration agrees
        {
            let exp = (t0 + total).rem_euclid(NS_PER_DAY);
            let r = call(|| ptime(t0)?.add_time_duration(d.time()));
            match &r {
                Out::Ok(g) if ptime_ns(g) == exp => {}
                _ if r.is_broken() => rep.inconclusive("C06.time_add", "panic"),
                _ => rep.violation("C06.time_add", "PlainTime::add_time_duration", &format!("({big},{})", sgn(total)), case(json!({"time": fmt_ns_of_day(t0)})), r.map(|g| fmt_ns_of_day(ptime_ns(&g))).show(), fmt_ns_of_day(exp)),
            }
        }
        if total.abs() >= NS_PER_DAY || (t0 + total) < 0 || (t0 + total) >= NS_PER_DAY {
            nontriv = true;
            rep.hit("nontrivial/time_wraps_midnight");
        }
        // ---- 2. Instant add / subtract == ns + total, range checked
        for (sub, name) in [(false, "Instant::add"), (true, "Instant::subtract")] {
            let exp = i0 + if sub { -total } else { total };
            let ok = exp.abs() <= MAX_INSTANT;
            let r = call(|| {
                let i = Instant::try_new(i0)?;
                if sub {
                    i.subtract(d)
                } else {
                    i.add(d)
                }
            });
            match (&r, ok) {
                (Out::Ok(g), true) if g.as_i128() == exp => {}
                (Out::Err(ErrorKind::Range, _), false) => {
                    rep.hit("instant_add/out_of_range_rejected");
                }
                _ if r.is_broken() => rep.inconclusive("C06.instant_add", "panic"),
                _ => rep.violation(
                    "C06.instant_add",
                    name,
                    &format!("({big},{},{})", sgn(total), if ok { "in-range" } else { "out-of-range" }),
                    case(json!({"instant": i0.to_string()})),
                    r.map(|g| g.as_i128().to_string()).show(),
                    if ok { exp.to_string() } else { "Err(RangeError)".into() },
                ),
            }
        }
        if total.abs() >= (1i128 << 63) {
            rep.hit("nontrivial/total_ge_2^63");
            nontriv = true;
        }
        if i0 < 0 {
            nontriv = true;
        }
        if nontriv {
            rep.nontrivial(fp!(1u64, t0 as u64, i0 as u64, (i0 >> 64) as u64, total as u64, (total >> 64) as u64));
        }
        // ---- 3. calendar/day units refused by PlainTime and Instant
        if with_date {
            let mut f2 = fields;
            let s = if total < 0 { -1.0 } else { 1.0 };
            f2[date_field] = s * (1 + (it % 5)) as f64;
            if dur::is_valid(&f2) {
                if let Out::Ok(dd) = call(|| dur10(f2)) {
                    let r1 = call(|| ptime(t0)?.add(&dd));
                    let r2 = call(|| Instant::try_new(i0)?.add(dd));
                    let r3 = call(|| Instant::try_new(i0)?.subtract(dd));
                    for (r, name) in [(r1.map(|_| ()), "PlainTime::add"), (r2.map(|_| ()), "Instant::add"), (r3.map(|_| ()), "Instant::subtract")] {
                        match r {
                            Out::Err(ErrorKind::Range, _) => {}
                            _ if r.is_broken() => rep.inconclusive("C06.refuse_date_units", "panic"),
                            _ => rep.violation("C06.refuse_date_units", name, ["years", "months", "weeks", "days"][date_field], json!({"duration": format!("{f2:?}")}), r.kind_str(), "Err(RangeError)".into()),
                        }
                    }
                    rep.hit("refuse_date_units/evaluated");
                }
            }
        }
        // ---- 4. until / since == exact difference balanced to the largest unit
        {
            let lu_t = if rng_free_pick(it) { None } else { Some(lu) };
            for since in [false, true] {
                let diff = if since { t0 - t1 } else { t1 - t0 };
                let resolved = lu_t.unwrap_or(Unit::Hour);
                let exp = fields_f64(0, 0, 0, balance(diff, resolved));
                let r = call(|| {
                    let (a, b) = (ptime(t0)?, ptime(t1)?);
                    let st = diff_settings(lu_t, None, None, None);
                    if since {
                        a.since(&b, st)
                    } else {
                        a.until(&b, st)
                    }
                });
                match &r {
                    Out::Ok(g) if dur_fields(g) == exp => {}
                    _ if r.is_broken() => rep.inconclusive("C06.time_diff", "panic"),
                    _ => rep.violation("C06.time_diff", if since { "PlainTime::since" } else { "PlainTime::until" }, &format!("({},{})", unit_name(resolved), sgn(diff)), json!({"a": fmt_ns_of_day(t0), "b": fmt_ns_of_day(t1), "largest": lu_t.map(unit_name)}), r.map(|g| format!("{:?}", dur_fields(&g))).show(), format!("{exp:?}")),
                }
                let diff = if since { i0 - i1 } else { i1 - i0 };
                let resolved = lu_t.unwrap_or(Unit::Second);
                let exp = fields_f64(0, 0, 0, balance(diff, resolved));
                let r = call(|| {
                    let (a, b) = (Instant::try_new(i0)?, Instant::try_new(i1)?);
                    let st = diff_settings(lu_t, None, None, None);
                    if since {
                        a.since(&b, st)
                    } else {
                        a.until(&b, st)
                    }
                });
                match &r {
                    Out::Ok(g) if dur_fields(g) == exp => {}
                    _ if r.is_broken() => rep.inconclusive("C06.instant_diff", "panic"),
                    _ => rep.violation("C06.instant_diff", if since { "Instant::since" } else { "Instant::until" }, &format!("({},{})", unit_name(resolved), sgn(diff)), json!({"a": i0.to_string(), "b": i1.to_string(), "largest": lu_t.map(unit_name)}), r.map(|g| format!("{:?}", dur_fields(&g))).show(), format!("{exp:?}")),
                }
            }
        }
        // ---- 5. epoch milliseconds == floor(ns / 1e6), also for negative values
        {
            let exp_ms = i0.div_euclid(1_000_000) as i64;
            let r = call(|| {
                let i = Instant::try_new(i0)?;
                let ms = i.epoch_milliseconds();
                let back = Instant::from_epoch_milliseconds(ms)?;
                Ok((ms, back.epoch_milliseconds(), back.as_i128(), i.epoch_nanoseconds().as_i128()))
            });
            let exp = (exp_ms, exp_ms, exp_ms as i128 * 1_000_000, i0);
            match &r {
                Out::Ok(g) if *g == exp => {}
                _ if r.is_broken() => rep.inconclusive("C06.epoch_ms", "panic"),
                _ => rep.violation("C06.epoch_ms", "Instant::epoch_milliseconds", &format!("({},{})", sgn(i0), if i0.rem_euclid(1_000_000) == 0 { "whole-ms" } else { "fractional-ms" }), json!({"instant": i0.to_string()}), r.show(), format!("{exp:?}")),
            }
            if i0 < 0 && i0.rem_euclid(1_000_000) != 0 {
                rep.hit("nontrivial/negative_fractional_ms");
            }
        }
        if it % 100_003 == 0 || (it as usize) < 3 {
            rep.sample(&format!("s{it}"), || json!({"duration_fields": format!("{fields:?}"), "total_ns": total.to_string(), "time": fmt_ns_of_day(t0), "instant": i0.to_string(),
                "expected_time_after_add": fmt_ns_of_day((t0 + total).rem_euclid(NS_PER_DAY)), "expected_instant_after_add": (i0 + total).to_string()}));
        }
    }
    // from_epoch_milliseconds boundary
    if rep.cfg.shard == 0 {
        for (ms, ok) in [(8_640_000_000_000_000i64, true), (8_640_000_000_000_001, false), (-8_640_000_000_000_000, true), (-8_640_000_000_000_001, false), (i64::MAX, false), (i64::MIN, false)] {
            if !rep.begin() {
                continue;
            }
            evals += 1;
            let r = call(|| Instant::from_epoch_milliseconds(ms)).map(|i| i.epoch_milliseconds());
            match (&r, ok) {
                (Out::Ok(g), true) if *g == ms => {}
                (Out::Err(ErrorKind::Range, _), false) => {}
                _ if r.is_broken() => rep.inconclusive("C06.epoch_ms", "panic"),
                _ => rep.violation("C06.epoch_ms", "Instant::from_epoch_milliseconds", "boundary", json!({"ms": ms}), r.show(), if ok { format!("Ok({ms})") } else { "Err(RangeError)".into() }),
            }
        }
    }
    rep.evaluations += evals;
    rep.add("cases", evals);
    rep.require("cases");
    rep.require("nontrivial/total_ge_2^63");
    rep.require("nontrivial/time_wraps_midnight");
    rep.require("nontrivial/negative_fractional_ms");
    let _ = (Duration::default(), TimeDuration::default());
}

/// deterministic 1-in-4 choice that does not consume the generator
fn rng_free_pick(it: u64) -> bool {
    it % 4 == 0
}
