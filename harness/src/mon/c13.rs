//! C13 - wall clock <-> instant conversion follows the zone's offsets and the options.
//!
//! Oracle: brute force over explicit transition tables (zones.rs reference functions) and a model
//! of disambiguation / InterpretISODateTimeOffset. The zones are served to the library by the
//! harness's own TableProvider: the subject is the core conversion logic for *any* provider.

use crate::core::*;
use crate::fp;
use crate::refmodel::civil::*;
use crate::util::*;
use crate::zones::*;
use serde_json::json;
use temporal_rs::error::ErrorKind;
use temporal_rs::options::{Disambiguation, OffsetDisambiguation, RelativeTo, ToStringRoundingOptions};
use temporal_rs::partial::{PartialDate, PartialTime, PartialZonedDateTime};
use temporal_rs::{Calendar, Instant, PlainDate, TimeZone, UtcOffset, ZonedDateTime};

pub const CALS_FOR_STORM: [&str; 12] = ["iso8601", "iso8601", "iso8601", "gregory", "japanese", "hebrew", "chinese", "islamic-civil", "persian", "ethioaa", "roc", "buddhist"];
pub const DISAMBIGS: [(Disambiguation, &str); 4] = [(Disambiguation::Compatible, "compatible"), (Disambiguation::Earlier, "earlier"), (Disambiguation::Later, "later"), (Disambiguation::Reject, "reject")];
pub const OFFOPTS: [(OffsetDisambiguation, &str); 4] = [(OffsetDisambiguation::Use, "use"), (OffsetDisambiguation::Prefer, "prefer"), (OffsetDisambiguation::Ignore, "ignore"), (OffsetDisambiguation::Reject, "reject")];
const MAXI: i128 = MAX_INSTANT;

#[derive(Debug, Clone, PartialEq)]
pub enum Exp {
    Ok(i128),
    Range,
    Undecided(&'static str),
}

/// DisambiguatePossibleEpochNanoseconds by brute force.
pub fn model_disambiguate(z: &Zone, local: i128, dis: Disambiguation) -> Exp {
    if !is_offset_zone(z) && local.div_euclid(NS_PER_DAY).abs() > 100_000_000 {
        // CheckISODaysRange in GetPossibleEpochNanoseconds refuses -271821-04-19 for named zones although instants
        // read that date; for offset zones the check applies to the date after the shift, i.e. to the instant
        return Exp::Undecided("wall-clock date outside CheckISODaysRange");
    }
    let c = z.ref_instants_of(local);
    let r = match c.len() {
        1 => c[0],
        0 => {
            if dis == Disambiguation::Reject {
                return Exp::Range;
            }
            let Some((before, after)) = z.ref_gap_around(local) else { return Exp::Undecided("wall time skipped by more than one transition") };
            match dis {
                Disambiguation::Earlier => local - after as i128 * SEC,
                _ => local - before as i128 * SEC,
            }
        }
        _ => match dis {
            Disambiguation::Compatible | Disambiguation::Earlier => c[0],
            Disambiguation::Later => c[c.len() - 1],
            Disambiguation::Reject => return Exp::Range,
        },
    };
    if r.abs() > MAXI {
        Exp::Range
    } else {
        Exp::Ok(r)
    }
}

#[derive(Debug, Clone, Copy, PartialEq)]
pub enum GivenOffset {
    None,
    Z,
    /// nanoseconds, and whether the text carried a sub-minute part (exact matching required then)
    Ns(i128, bool),
}

/// InterpretISODateTimeOffset.
pub fn model_interpret(z: &Zone, local: i128, off: GivenOffset, dis: Disambiguation, opt: OffsetDisambiguation) -> Exp {
    let local_day = local.div_euclid(NS_PER_DAY);
    match off {
        GivenOffset::None => model_disambiguate(z, local, dis),
        GivenOffset::Z => {
            if local.abs() > MAXI {
                Exp::Range
            } else {
                Exp::Ok(local)
            }
        }
        GivenOffset::Ns(o, has_sub) => match opt {
            OffsetDisambiguation::Ignore => model_disambiguate(z, local, dis),
            OffsetDisambiguation::Use => {
                let r = local - o;
                if r.abs() > MAXI {
                    Exp::Range
                } else {
                    Exp::Ok(r)
                }
            }
            _ => {
                if local_day.abs() > 100_000_000 {
                    // InterpretISODateTimeOffset step 8 checks the wall-clock date itself, for every kind of zone
                    return Exp::Undecided("wall-clock date outside CheckISODaysRange");
                }
                for c in z.ref_instants_of(local) {
                    let co = local - c;
                    if co == o {
                        return if c.abs() > MAXI { Exp::Range } else { Exp::Ok(c) };
                    }
                    if !has_sub {
                        // match-minutes: the candidate's offset rounded to the minute (ties away from zero)
                        let rounded = crate::refmodel::round::round_int(co, 60 * SEC, crate::refmodel::round::Mode::HalfExpand).0;
                        if rounded == o {
                            return if c.abs() > MAXI { Exp::Range } else { Exp::Ok(c) };
                        }
                    }
                }
                if opt == OffsetDisambiguation::Reject {
                    Exp::Range
                } else {
                    model_disambiguate(z, local, dis)
                }
            }
        },
    }
}

fn judge(rep: &mut Report, clause: &str, op: &str, shape: &str, case: serde_json::Value, got: Out<i128>, exp: &Exp) {
    match (exp, &got) {
        (Exp::Undecided(w), _) => rep.hit(&format!("undecided/{w}")),
        (_, g) if g.is_broken() => rep.inconclusive(clause, &g.show_with(|_| String::new())),
        (Exp::Ok(e), Out::Ok(g)) if e == g => {}
        (Exp::Range, Out::Err(ErrorKind::Range, _)) => {}
        _ => rep.violation(clause, op, shape, case, got.show(), format!("{exp:?}")),
    }
}

pub fn model_fmt_local(l: i128) -> String {
    fmt_local(l)
}

fn fmt_local(l: i128) -> String {
    let d = l.div_euclid(NS_PER_DAY) as i64;
    let (y, m, dd) = civil_from_days(d);
    format!("{}-{:02}-{:02}T{}", fmt_year(y), m, dd, fmt_ns_of_day(l.rem_euclid(NS_PER_DAY)))
}

fn offset_str(o_s: i64, with_seconds: bool) -> String {
    let a = o_s.abs();
    let sign = if o_s < 0 { '-' } else { '+' };
    if with_seconds && a % 60 != 0 {
        format!("{sign}{:02}:{:02}:{:02}", a / 3600, a / 60 % 60, a % 60)
    } else {
        format!("{sign}{:02}:{:02}", a / 3600, a / 60 % 60)
    }
}

pub fn is_offset_zone(z: &Zone) -> bool {
    z.name.starts_with('+') || z.name.starts_with('-')
}

pub fn offset_zones() -> Vec<Zone> {
    [-1439i64, -720, -600, -210, -60, -1, 0, 1, 60, 330, 345, 765, 840, 1439].iter().map(|m| Zone { name: offset_str(m * 60, false), initial: m * 60, trans: vec![] }).collect()
}

pub fn zone_class(z: &Zone) -> &'static str {
    if is_offset_zone(z) {
        "offset"
    } else if z.name.starts_with("Synth/") {
        "synthetic"
    } else if z.name.starts_with("Test/") {
        "directed"
    } else {
        "real"
    }
}

pub fn load_zones(rep: &Report, rng: &mut Rng, n_synth_q: u64, n_synth_t: u64, n_real_q: usize) -> Vec<Zone> {
    let mut zones = directed_zones();
    zones.extend(offset_zones());
    let ns = if rep.cfg.thorough() { n_synth_t } else { n_synth_q };
    for i in 0..ns {
        zones.push(synthetic(rng, i));
    }
    let real = load_real("/verif/.build/zones.tbl");
    if rep.cfg.thorough() {
        zones.extend(real);
    } else {
        // a spread of classes: negative DST, no DST, half hour, LMT-only, southern, date line
        let want = ["America/New_York", "Europe/Dublin", "Europe/London", "Australia/Lord_Howe", "Pacific/Apia", "Asia/Kolkata", "Asia/Kathmandu", "Africa/Casablanca", "America/Sao_Paulo", "Antarctica/Troll", "Pacific/Kiritimati", "Asia/Tehran", "America/St_Johns", "Africa/Monrovia", "Europe/Moscow", "Asia/Pyongyang", "America/Havana", "Atlantic/Azores", "Pacific/Chatham", "Etc/GMT+12", "Australia/Sydney", "America/Scoresbysund", "Asia/Gaza", "Africa/Juba"];
        let mut picked = 0;
        for z in &real {
            if want.contains(&z.name.as_str()) {
                zones.push(z.clone());
                picked += 1;
            }
        }
        let mut i = 0;
        while picked < n_real_q && i < real.len() {
            let z = &real[(i * 7919) % real.len()];
            if !want.contains(&z.name.as_str()) {
                zones.push(z.clone());
                picked += 1;
            }
            i += 1;
        }
    }
    zones
}

/// Instants around the transitions of a zone (hostile points) plus random ones.
pub fn probe_instants(z: &Zone, rng: &mut Rng, per_transition: usize, max_transitions: usize, randoms: usize) -> Vec<i128> {
    let mut out = Vec::new();
    let n = z.trans.len();
    let picks: Vec<usize> = if n <= max_transitions { (0..n).collect() } else { (0..max_transitions).map(|_| rng.below(n as u64) as usize).collect() };
    for i in picks {
        let (t, after) = z.trans[i];
        let before = if i == 0 { z.initial } else { z.trans[i - 1].1 };
        let ch = (after - before).abs() as i128 * SEC;
        let t = t as i128 * SEC;
        let deltas = [0, 1, -1, SEC, -SEC, SEC / 2, -SEC / 2, -SEC + 1, ch - SEC / 2, -ch - SEC / 2, -ch + SEC / 2, ch / 2, -ch / 2, ch, -ch, ch + SEC, -ch - SEC, 3 * 3600 * SEC, -3 * 3600 * SEC, 3 * 3600 * SEC + SEC, 3 * 3600 * SEC - SEC, -3 * 3600 * SEC - SEC, NS_PER_DAY, -NS_PER_DAY, ch - 1, 1 - ch];
        for _ in 0..per_transition {
            out.push(t + *rng.pick(&deltas));
        }
    }
    for _ in 0..randoms {
        let w = *rng.pick(&[2, 1_800 * SEC, NS_PER_DAY, 2 * NS_PER_DAY]);
        out.push(match rng.below(4) {
            0 => rng.range128(-MAXI, MAXI),
            1 => MAXI - rng.range128(0, w),
            2 => -MAXI + rng.range128(0, w),
            _ => rng.range128(-3_000_000_000 * SEC, 5_000_000_000 * SEC),
        });
    }
    out.retain(|x| x.abs() <= MAXI);
    out
}

pub fn run(rep: &mut Report) {
    let mut rng = rep.cfg.rng("c13");
    let iso = Calendar::default();
    let zones = load_zones(rep, &mut rng, 1_500, 40_000, 60);
    rep.add("zones/total", zones.len() as u64);
    let prov = SwitchProvider::new(zones.clone());
    let per_zone_budget = if rep.cfg.thorough() { 2_500 } else { 400 };
    // the exported tables end in 2120; the library's own provider goes on applying the zone's rule after that
    const TABLE_HORIZON: i128 = 4_700_000_000 * SEC;
    let mut evals = 0u64;
    for (zi, z) in zones.iter().enumerate() {
        if !rep.cfg.mine(zi as u64) {
            continue;
        }
        rep.hit(&format!("zones/{}", zone_class(z)));
        let tz = match call(|| TimeZone::try_from_identifier_str(&z.name)) {
            Out::Ok(t) => t,
            _ => {
                rep.harness_error(format!("zone name {} not accepted as identifier", z.name));
                continue;
            }
        };
        // real zones twice: through the table provider (the core's use of any provider) and through the library's
        // own provider reading the same TZif files (the conversion a user of named zones gets)
        let passes = if zone_class(z) == "real" { 2 } else { 1 };
        for pass in 0..passes {
        prov.use_fs.set(pass == 1);
        let nrand = per_zone_budget / 4;
        let mut pts = probe_instants(z, &mut rng, 3, per_zone_budget / 4, nrand);
        if pass == 1 {
            pts.retain(|t| t.abs() < TABLE_HORIZON);
            rep.add("tzdb-provider/instants", pts.len() as u64);
        }
        for t in pts {
            let sel_dis = rng.below(4) as usize;
            let sel_opt = rng.below(4) as usize;
            let off_kind = rng.below(6);
            let side = rng.bool();
            if !rep.begin() {
                continue;
            }
            evals += 1;
            let zc = if pass == 1 { "real,tzdb-provider" } else { zone_class(z) };
            // ---------------- A. instant -> wall clock
            let off_s = z.ref_offset_at(t.div_euclid(SEC) as i64);
            let local = t + off_s as i128 * SEC;
            if local.abs() < MAXI + NS_PER_DAY {
                let r = call(|| {
                    let zdt = ZonedDateTime::try_new(t, iso.clone(), tz.clone())?;
                    let pdt = zdt.to_plain_datetime_with_provider(&prov)?;
                    let fields = (
                        zdt.year_with_provider(&prov)? as i64,
                        zdt.month_with_provider(&prov)?,
                        zdt.day_with_provider(&prov)?,
                        zdt.hour_with_provider(&prov)?,
                        zdt.minute_with_provider(&prov)?,
                        zdt.second_with_provider(&prov)?,
                        zdt.millisecond_with_provider(&prov)?,
                        zdt.microsecond_with_provider(&prov)?,
                        zdt.nanosecond_with_provider(&prov)?,
                    );
                    let d = zdt.to_plain_date_with_provider(&prov)?;
                    let tm = zdt.to_plain_time_with_provider(&prov)?;
                    Ok((pdt_local_ns(&pdt), fields, pdate_days(&d) as i128 * NS_PER_DAY + ptime_ns(&tm), zdt.offset_nanoseconds_with_provider(&prov)? as i128, zdt.offset_with_provider(&prov)?))
                });
                let (y, m, d) = civil_from_days(local.div_euclid(NS_PER_DAY) as i64);
                let (h, mi, s, ms, us, ns) = split_ns_of_day(local.rem_euclid(NS_PER_DAY));
                let exp = (local, (y, m, d, h, mi, s, ms, us, ns), local, off_s as i128 * SEC, offset_str(off_s, true));
                let near = z.trans.iter().any(|(tt, _)| ((*tt as i128 * SEC) - t).abs() <= NS_PER_DAY);
                let shape = format!("({zc},{})", if near { "near-transition" } else { "far" });
                match &r {
                    Out::Ok(g) if *g == exp => {}
                    _ if r.is_broken() => rep.inconclusive("C13.instant_to_wall", "panic"),
                    _ => rep.violation("C13.instant_to_wall", "ZonedDateTime getters / to_plain_datetime / offset", &shape, json!({"zone": z.name, "instant_ns": t.to_string()}), r.show(), format!("{exp:?}")),
                }
                // Instant::to_ixdtf_string with the zone
                if off_s % 60 == 0 {
                    let r = call(|| Instant::try_new(t)?.to_ixdtf_string_with_provider(Some(&tz), ToStringRoundingOptions::default(), &prov));
                    let ok = matches!(&r, Out::Ok(s2) if read_datetime(s2).map(|(l, _, i)| l == local && s2[i..] == offset_str(off_s, false)) == Some(true));
                    if !ok && !r.is_broken() {
                        rep.violation("C13.instant_to_wall", "Instant::to_ixdtf_string(zone)", &shape, json!({"zone": z.name, "instant_ns": t.to_string()}), r.show(), format!("{}{}", fmt_local(local), offset_str(off_s, false)));
                    }
                }
                if near {
                    rep.nontrivial(fp!(1u64, zi, t as u64, (t >> 64) as u64));
                }
            }
            // ---------------- B/C. wall clock -> instant. Wall time derived with either neighbouring offset
            let other_off = {
                // the offset on the other side of the nearest transition
                let ts = t.div_euclid(SEC) as i64;
                let idx = z.trans.partition_point(|(tt, _)| *tt <= ts);
                let cands = [if idx > 0 { Some(if idx >= 2 { z.trans[idx - 2].1 } else { z.initial }) } else { None }, z.trans.get(idx).map(|x| x.1)];
                let c: Vec<i64> = cands.iter().flatten().copied().collect();
                if c.is_empty() { off_s } else { c[(t as u64 % c.len() as u64) as usize] }
            };
            let wall = t + if side { off_s } else { other_off } as i128 * SEC;
            if wall <= -crate::mon::c07::DT_LIMIT || wall >= crate::mon::c07::DT_LIMIT {
                continue;
            }
            let cands = z.ref_instants_of(wall);
            let wall_kind = match cands.len() {
                0 => {
                    let big = z.ref_gap_around(wall).map(|(b, a)| (a - b) > 3 * 3600) == Some(true);
                    if big { "gap>3h" } else { "gap" }
                }
                1 => "unique",
                _ => "overlap",
            };
            if wall_kind != "unique" {
                rep.hit(&format!("wall/{wall_kind}"));
                rep.nontrivial(fp!(2u64, zi, wall as u64, (wall >> 64) as u64));
            }
            for (dis, dname) in DISAMBIGS {
                let exp = model_disambiguate(z, wall, dis);
                let case = || json!({"zone": z.name, "wall": fmt_local(wall), "disambiguation": dname, "candidates": cands.iter().map(|c| c.to_string()).collect::<Vec<_>>()});
                let got = call(|| pdt_from_local(wall)?.to_zoned_date_time_with_provider(&tz, dis, &prov)).map(|zd| zd.epoch_nanoseconds().as_i128());
                judge(rep, "C13.wall_to_instant", "PlainDateTime::to_zoned_date_time", &format!("({zc},{wall_kind},{dname})"), case(), got, &exp);
            }
            // PlainDate::to_zoned_date_time with a time = compatible
            {
                let day = wall.div_euclid(NS_PER_DAY) as i64;
                if (MIN_DAY..=MAX_DAY).contains(&day) {
                    let exp = model_disambiguate(z, wall, Disambiguation::Compatible);
                    let got = call(|| {
                        let (y, m, d) = civil_from_days(day);
                        PlainDate::try_new(y as i32, m, d, iso.clone())?.to_zoned_date_time_with_provider(tz.clone(), Some(ptime(wall.rem_euclid(NS_PER_DAY))?), &prov)
                    })
                    .map(|zd| zd.epoch_nanoseconds().as_i128());
                    judge(rep, "C13.wall_to_instant", "PlainDate::to_zoned_date_time(time)", &format!("({zc},{wall_kind},compatible)"), json!({"zone": z.name, "wall": fmt_local(wall)}), got, &exp);
                }
            }
            // strings and partial records with an offset
            let (dis, dname) = DISAMBIGS[sel_dis];
            let (opt, oname) = OFFOPTS[sel_opt];
            let zone_off_for_text = if side { off_s } else { other_off };
            let (given, off_text, kind_name): (GivenOffset, String, &str) = match off_kind {
                0 => (GivenOffset::None, String::new(), "no-offset"),
                1 => (GivenOffset::Z, "Z".into(), "Z"),
                2 => (GivenOffset::Ns(zone_off_for_text as i128 * SEC, zone_off_for_text % 60 != 0), offset_str(zone_off_for_text, true), "own-offset"),
                3 => {
                    // the same offset rounded to the minute (differs only for sub-minute offsets)
                    let r = crate::refmodel::round::round_int(zone_off_for_text as i128 * SEC, 60 * SEC, crate::refmodel::round::Mode::HalfExpand).0;
                    (GivenOffset::Ns(r, false), offset_str((r / SEC) as i64, false), "minute-rounded-offset")
                }
                4 => {
                    let o = if side { other_off } else { off_s };
                    (GivenOffset::Ns(o as i128 * SEC, o % 60 != 0), offset_str(o, true), "other-side-offset")
                }
                _ => {
                    let mut o = (zone_off_for_text / 60 + 17) * 60;
                    if o.abs() >= 86_400 {
                        o -= 34 * 60;
                    }
                    (GivenOffset::Ns(o as i128 * SEC, false), offset_str(o, false), "unrelated-offset")
                }
            };
            let text = format!("{}{}[{}]", fmt_local(wall), off_text, z.name);
            let exp = model_interpret(z, wall, given, dis, opt);
            let shape = format!("({zc},{wall_kind},{kind_name},{dname},{oname})");
            let case = || json!({"zone": z.name, "text": text, "disambiguation": dname, "offset_option": oname});
            let got = call(|| ZonedDateTime::from_str_with_provider(&text, dis, opt, &prov)).map(|zd| zd.epoch_nanoseconds().as_i128());
            judge(rep, "C13.interpret_offset", "ZonedDateTime::from_str", &shape, case(), got, &exp);
            if kind_name != "no-offset" && kind_name != "own-offset" {
                rep.hit(&format!("offset_kind/{kind_name}"));
            }
            // partial record: offsets are whole minutes there; Z cannot be expressed
            if let GivenOffset::Ns(o, false) | GivenOffset::Ns(o, true) = given {
                if o % (60 * SEC) == 0 {
                    let day = wall.div_euclid(NS_PER_DAY) as i64;
                    if (MIN_DAY..=MAX_DAY).contains(&day) {
                        let (y, m, d) = civil_from_days(day);
                        let (h, mi, s, ms, us, ns) = split_ns_of_day(wall.rem_euclid(NS_PER_DAY));
                        let exp = model_interpret(z, wall, GivenOffset::Ns(o, false), dis, opt);
                        let got = call(|| {
                            let p = PartialZonedDateTime::new()
                                .with_date(PartialDate::new().with_year(Some(y as i32)).with_month(Some(m)).with_day(Some(d)))
                                .with_time(PartialTime::new().with_hour(Some(h)).with_minute(Some(mi)).with_second(Some(s)).with_millisecond(Some(ms)).with_microsecond(Some(us)).with_nanosecond(Some(ns)))
                                .with_offset(Some(<UtcOffset as std::str::FromStr>::from_str(&offset_str((o / SEC) as i64, false))?))
                                .with_timezone(Some(tz.clone()));
                            ZonedDateTime::from_partial_with_provider(p, None, Some(dis), Some(opt), &prov)
                        })
                        .map(|zd| zd.epoch_nanoseconds().as_i128());
                        judge(rep, "C13.interpret_offset", "ZonedDateTime::from_partial", &shape, case(), got, &exp);
                    }
                }
            }
            // RelativeTo from a string: compatible + reject
            {
                let exp = model_interpret(z, wall, given, Disambiguation::Compatible, OffsetDisambiguation::Reject);
                let got = call(|| RelativeTo::try_from_str_with_provider(&text, &prov)).map(|r| match r {
                    RelativeTo::ZonedDateTime(zd) => zd.epoch_nanoseconds().as_i128(),
                    RelativeTo::PlainDate(_) => i128::MIN,
                });
                judge(rep, "C13.interpret_offset", "RelativeTo::try_from_str", &format!("({zc},{wall_kind},{kind_name})"), json!({"text": text}), got, &exp);
            }
            if evals % 20_011 == 1 {
                rep.sample(&format!("e{evals}"), || json!({"zone": z.name, "instant": t.to_string(), "wall": fmt_local(wall), "candidates": cands.len(), "text": text}));
            }
        }
        }
        prov.use_fs.set(false);
    }
    // ---------------- fixed offsets: every whole hour and a few odd ones
    if rep.cfg.shard == 0 {
        let empty = Zone { name: "x".into(), initial: 0, trans: vec![] };
        let _ = empty;
        for mins in [-1439i64, -720, -210, -1, 0, 1, 330, 345, 765, 840, 1439] {
            for t in [0i128, -1, 1_600_000_000_123_456_789, -MAXI + (24 * 3600) * SEC, MAXI - (24 * 3600) * SEC] {
                if !rep.begin() {
                    continue;
                }
                evals += 1;
                let zf = Zone { name: offset_str(mins * 60, false), initial: mins * 60, trans: vec![] };
                let r = call(|| {
                    let tz = TimeZone::try_from_identifier_str(&zf.name)?;
                    let zdt = ZonedDateTime::try_new(t, iso.clone(), tz.clone())?;
                    let l = pdt_local_ns(&zdt.to_plain_datetime_with_provider(&prov)?);
                    let back = pdt_from_local(l)?.to_zoned_date_time_with_provider(&tz, Disambiguation::Reject, &prov)?;
                    Ok((l, back.epoch_nanoseconds().as_i128(), zdt.offset_with_provider(&prov)?))
                });
                let exp = (t + mins as i128 * 60 * SEC, t, zf.name.clone());
                match &r {
                    Out::Ok(g) if *g == exp => {}
                    _ if r.is_broken() => rep.inconclusive("C13.fixed_offset", "panic"),
                    _ => rep.violation("C13.fixed_offset", "offset zone round trip", if mins < 0 { "negative" } else { "nonneg" }, json!({"zone": zf.name, "instant": t.to_string()}), r.show(), format!("{exp:?}")),
                }
                rep.hit("fixed_offset/evaluated");
            }
        }
    }
    rep.evaluations += evals;
    rep.add("cases", evals);
    for c in ["cases", "wall/gap", "wall/overlap", "wall/gap>3h", "offset_kind/Z", "offset_kind/other-side-offset", "offset_kind/minute-rounded-offset"] {
        rep.require(c);
    }
}
