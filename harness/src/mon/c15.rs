//! C15 - the bundled file-system tz provider reports what the TZif data say, whatever the history.
//!
//! Oracle: transition tables exported from the same TZif files by an independent reader (Python zoneinfo,
//! oracle_py/export_zones.py) + the linear reference functions of zones.rs. History independence: every
//! answer of the long-lived provider (which has served other zones and instants before) is compared with
//! the answer of a brand-new provider for the same query.

use crate::core::*;
use crate::fp;
use crate::mon::c13::{model_fmt_local, probe_instants};
use crate::refmodel::civil::*;
use crate::util::*;
use crate::zones::*;
use serde_json::json;
use temporal_rs::provider::TimeZoneProvider;
use temporal_rs::tzdb::FsTzdbProvider;

const MAXI: i128 = MAX_INSTANT;

fn iso_of(local: i128) -> Option<temporal_rs::iso::IsoDateTime> {
    let day = local.div_euclid(NS_PER_DAY) as i64;
    if !(MIN_DAY..=MAX_DAY).contains(&day) {
        return None;
    }
    let (y, m, d) = civil_from_days(day);
    let (h, mi, s, ms, us, ns) = split_ns_of_day(local.rem_euclid(NS_PER_DAY));
    // the records are #[non_exhaustive] with public fields: fill a default
    let mut dt = temporal_rs::iso::IsoDateTime::default();
    dt.date.year = y as i32;
    dt.date.month = m;
    dt.date.day = d;
    dt.time.hour = h;
    dt.time.minute = mi;
    dt.time.second = s;
    dt.time.millisecond = ms;
    dt.time.microsecond = us;
    dt.time.nanosecond = ns;
    Some(dt)
}

fn year_of(t: i128) -> i64 {
    civil_from_days(t.div_euclid(NS_PER_DAY) as i64).0
}

fn era_class(z: &Zone, t: i128, last_explicit: i64) -> &'static str {
    let ts = t.div_euclid(SEC) as i64;
    if z.trans.is_empty() {
        "no-transitions"
    } else if ts < z.trans[0].0 {
        "before-first-transition"
    } else if ts > last_explicit {
        "footer-rule"
    } else if ts >= 2_147_483_648 {
        "after-2038"
    } else if ts < 0 {
        "negative-epoch"
    } else {
        "table"
    }
}

/// Names for the identifier check: every IANA name with case variants, and near misses.
fn mangle(rng: &mut Rng, name: &str) -> (String, bool) {
    match rng.below(8) {
        0 => (name.to_uppercase(), true),
        1 => (name.to_lowercase(), true),
        2 => {
            let s: String = name.chars().map(|c| if rng.bool() { c.to_ascii_uppercase() } else { c.to_ascii_lowercase() }).collect();
            (s, true)
        }
        3 => (format!("{name}x"), false),
        4 => (name[..name.len() - 1].to_string(), false),
        5 => (format!(" {name}"), false),
        6 => (name.replace('/', "//"), !name.contains('/')),
        _ => (name.replace('_', " "), !name.contains('_')),
    }
}

pub fn run(rep: &mut Report) {
    let mut rng = rep.cfg.rng("c15");
    let real = load_real("/verif/.build/zones.tbl");
    let far = load_real("/verif/.build/zones_far.tbl");
    if real.len() < 400 {
        rep.harness_error(format!("zones table missing or short ({} zones)", real.len()));
        return;
    }
    let names: std::collections::BTreeSet<String> = real.iter().map(|z| z.name.clone()).collect();
    rep.add("zones/in-table", real.len() as u64);
    let long_lived = FsTzdbProvider::default();
    let per_zone = if rep.cfg.thorough() { 12_000 } else { 300 };
    let mut evals = 0u64;

    // ---------------- identifiers
    if rep.cfg.shard == 0 {
        for name in &names {
            let mangled: Vec<(String, bool)> = (0..3).map(|_| mangle(&mut rng, name)).collect();
            if !rep.begin() {
                continue;
            }
            evals += 1;
            let got = call_inf(|| long_lived.check_identifier(name));
            if got.as_ok() != Some(&true) && name != "Factory" {
                rep.violation("C15.identifier", "check_identifier", "iana-name", json!({"id": name}), got.show(), "true".into());
            }
            for (m, valid) in mangled {
                let valid = if names.iter().any(|n| n.eq_ignore_ascii_case(&m)) { true } else { valid };
                if m == "Factory" || m.eq_ignore_ascii_case("factory") {
                    continue;
                }
                let got = call_inf(|| long_lived.check_identifier(&m));
                if got.as_ok() != Some(&valid) {
                    rep.violation("C15.identifier", "check_identifier", if valid { "case-variant" } else { "near-miss" }, json!({"id": m}), got.show(), format!("{valid}"));
                }
                rep.hit(if valid { "identifier/case-variant" } else { "identifier/near-miss" });
            }
        }
        for junk in ["", "/", "Etc/", "America", "America/", "posix/UTC", "right/UTC", "posix/Europe/Berlin", "right/America/New_York", "localtime", "posixrules", "tzdata.zi", "zone.tab", "../etc/passwd", "Europe/Lond\u{f6}n", "UTC\0", "Etc/GMT+15", "Etc/GMT-15", "GMT+24", "UT C"] {
            let got = call_inf(|| long_lived.check_identifier(junk));
            if got.as_ok() != Some(&false) {
                rep.violation("C15.identifier", "check_identifier", "junk", json!({"id": junk}), got.show(), "false".into());
            }
            rep.hit("identifier/junk");
            // the answer must not change after the same provider was asked about that name (readable non-IANA files
            // of the zoneinfo directory such as posix/..., right/..., posixrules get loaded by such a query)
            let q1 = call(|| long_lived.get_named_tz_offset_nanoseconds(junk, 0).map(|o| o.offset));
            let q2 = call(|| long_lived.get_named_tz_epoch_nanoseconds(junk, temporal_rs::iso::IsoDateTime::default()).map(|v| v.len()));
            let after = call_inf(|| long_lived.check_identifier(junk));
            if after.as_ok() != Some(&false) {
                rep.violation("C15.history", "check_identifier", "junk-after-a-query-for-it", json!({"id": junk, "offset_query": q1.show(), "local_query": q2.show()}), after.show(), "false".into());
            }
            if matches!(q1, Out::Ok(_)) {
                rep.hit("identifier/junk-name-that-the-provider-could-load");
            }
        }
    }

    // ---------------- offsets and local times, zone by zone in a seed-dependent order
    let mut order: Vec<usize> = (0..real.len()).collect();
    for i in (1..order.len()).rev() {
        let j = rng.below(i as u64 + 1) as usize;
        order.swap(i, j);
    }
    let quick_subset = !rep.cfg.thorough();
    for (k, &zi) in order.iter().enumerate() {
        if !rep.cfg.mine(k as u64) {
            continue;
        }
        let z = &real[zi];
        if z.name == "Factory" {
            continue;
        }
        // quick: a third of the zones per run (seed-dependent), all classes still present; zones with an offset of 14 hours
        // or more, or a jump of most of a day (date-line moves), are always visited
        let extreme = z.initial.abs() >= 50_400 || z.trans.iter().any(|x| x.1.abs() >= 50_400) || {
            let mut before = z.initial;
            let mut jump = false;
            for (_, after) in &z.trans {
                jump |= (after - before).abs() >= 20 * 3600;
                before = *after;
            }
            jump
        };
        if extreme {
            rep.hit("zones/extreme-offset-or-day-jump");
        }
        if quick_subset && !extreme && k % 3 != (rep.cfg.seed % 3) as usize && !["America/New_York", "Europe/Dublin", "Africa/Casablanca", "Australia/Lord_Howe", "Pacific/Apia", "Asia/Kolkata", "Antarctica/Troll", "America/Sao_Paulo", "Africa/Monrovia"].contains(&z.name.as_str()) {
            continue;
        }
        rep.hit("zones/visited");
        // the exporter expands the footer rule up to 2120: the last explicit transition of a fat TZif file is in 2037
        let last_explicit = z.trans.iter().map(|x| x.0).filter(|t| *t < 2_145_000_000).max().unwrap_or(i64::MIN);
        let mut pts = probe_instants(z, &mut rng, 2, per_zone / 3, per_zone / 8);
        // years 1..9999 only (the property's range); the far future is covered by the windows below
        let lim_lo = days_from_civil(1, 1, 2) as i128 * NS_PER_DAY;
        let lim_hi = days_from_civil(2119, 12, 1) as i128 * NS_PER_DAY;
        pts.retain(|t| *t > lim_lo && *t < lim_hi);
        let windows: Vec<&Zone> = far.iter().filter(|w| w.name == z.name).collect();
        let mut work: Vec<(i128, &Zone, bool)> = pts.into_iter().map(|t| (t, z, false)).collect();
        for w in &windows {
            // a window zone: `initial` holds from its first instant on; probe strictly inside
            for (tt, _) in &w.trans {
                for d in [-1i128, 0, 1, -SEC, SEC, 3600 * SEC, -3600 * SEC, NS_PER_DAY, -NS_PER_DAY] {
                    work.push((*tt as i128 * SEC + d, w, true));
                }
            }
        }
        for (t, zz, is_far) in work {
            let use_wall_other_side = rng.bool();
            if !rep.begin() {
                continue;
            }
            if t.abs() > MAXI {
                continue;
            }
            evals += 1;
            let ts = t.div_euclid(SEC) as i64;
            let exp_off = zz.ref_offset_at(ts);
            let class = if is_far { "far-future-footer-rule" } else { era_class(z, t, last_explicit) };
            let near = zz.trans.iter().any(|(tt, _)| ((*tt as i128 * SEC) - t).abs() <= NS_PER_DAY);
            let exact = zz.trans.iter().any(|(tt, _)| *tt == ts);
            let pos = if exact { "transition-second" } else if near { "near-transition" } else { "far" };
            let shape = format!("({class},{pos},{})", if t.rem_euclid(SEC) != 0 { "sub-second" } else { "whole-second" });
            let case = || json!({"zone": z.name, "instant_ns": t.to_string(), "year": year_of(t)});
            // A. offset at the instant, long-lived provider and a new one
            let got = call(|| long_lived.get_named_tz_offset_nanoseconds(&z.name, t)).map(|o| o.offset);
            let fresh = call(|| FsTzdbProvider::default().get_named_tz_offset_nanoseconds(&z.name, t)).map(|o| o.offset);
            if got != fresh {
                rep.violation("C15.history", "get_named_tz_offset_nanoseconds", &shape, case(), got.show(), format!("new provider: {}", fresh.show()));
            }
            match &got {
                Out::Ok(o) if *o == exp_off => {}
                g if g.is_broken() => rep.inconclusive("C15.offset", &g.show_with(|_| String::new())),
                _ => rep.violation("C15.offset", "get_named_tz_offset_nanoseconds", &shape, case(), got.show(), format!("{exp_off}")),
            }
            rep.hit(&format!("offset/{class}"));
            if near {
                rep.nontrivial(fp!(1u64, zi, t as u64, (t >> 64) as u64));
            }
            // B. the local date-time read with this or the neighbouring offset -> set of instants
            let other = {
                let idx = zz.trans.partition_point(|(tt, _)| *tt <= ts);
                let prev = if idx >= 2 { Some(zz.trans[idx - 2].1) } else if idx == 1 { Some(zz.initial) } else { None };
                let next = zz.trans.get(idx).map(|x| x.1);
                match (prev, next) {
                    (Some(p), Some(n)) => if t & 2 == 0 { p } else { n },
                    (Some(p), None) => p,
                    (None, Some(n)) => n,
                    (None, None) => exp_off,
                }
            };
            let wall = t + if use_wall_other_side { other } else { exp_off } as i128 * SEC;
            if is_far {
                // inside the window only
                let lo = zz.trans.first().map(|x| x.0).unwrap_or(0) as i128 * SEC - 20 * NS_PER_DAY;
                let hi = zz.trans.last().map(|x| x.0).unwrap_or(0) as i128 * SEC + 20 * NS_PER_DAY;
                if wall < lo || wall > hi {
                    continue;
                }
            }
            let Some(iso) = iso_of(wall) else { continue };
            let mut exp_set = zz.ref_instants_of(wall);
            exp_set.retain(|x| x.abs() <= MAXI);
            let kind = match exp_set.len() {
                0 => "skipped",
                1 => "unique",
                _ => "repeated",
            };
            let shape = format!("({class},{kind})");
            let case = || json!({"zone": z.name, "wall": model_fmt_local(wall), "expected": exp_set.iter().map(|x| x.to_string()).collect::<Vec<_>>()});
            let conv = |r: TemporalResultVec| r.map(|v| v.into_iter().map(|e| e.as_i128()).collect::<Vec<i128>>());
            let got = conv(call(|| long_lived.get_named_tz_epoch_nanoseconds(&z.name, iso)));
            let fresh = conv(call(|| FsTzdbProvider::default().get_named_tz_epoch_nanoseconds(&z.name, iso)));
            if got != fresh {
                rep.violation("C15.history", "get_named_tz_epoch_nanoseconds", &shape, case(), got.show(), format!("new provider: {}", fresh.show()));
            }
            match &got {
                Out::Ok(g) => {
                    let mut s = g.clone();
                    s.sort();
                    s.dedup();
                    if s != exp_set {
                        rep.violation("C15.local", "get_named_tz_epoch_nanoseconds", &shape, case(), got.show(), format!("{exp_set:?}"));
                    } else if *g != exp_set {
                        rep.hit("local/right-set-wrong-order");
                    }
                }
                g if g.is_broken() => rep.inconclusive("C15.local", &g.show_with(|_| String::new())),
                _ => rep.violation("C15.local", "get_named_tz_epoch_nanoseconds", &shape, case(), got.show(), format!("{exp_set:?}")),
            }
            rep.hit(&format!("local/{kind}"));
            if kind != "unique" {
                rep.nontrivial(fp!(2u64, zi, wall as u64, (wall >> 64) as u64));
            }
            if evals % 5_003 == 1 {
                rep.sample(&format!("e{evals}"), || json!({"zone": z.name, "instant": t.to_string(), "offset": exp_off, "wall": model_fmt_local(wall), "instants": exp_set.len()}));
            }
        }
    }
    // ---------------- history storm: one provider serves *every* zone of the database in a seed- and shard-dependent
    // order (so every pair of zones meets in one cache, in both orders across shards), answers judged by the table oracle
    {
        let hist = FsTzdbProvider::default();
        let k = if rep.cfg.thorough() { 40 } else { 8 };
        let rounds = if rep.cfg.thorough() { 3 } else { 2 };
        for round in 0..rounds {
            let mut order: Vec<usize> = (0..real.len()).collect();
            for i in (1..order.len()).rev() {
                let j = rng.below(i as u64 + 1) as usize;
                order.swap(i, j);
            }
            for &zi in &order {
                let z = &real[zi];
                if z.name == "Factory" {
                    continue;
                }
                for _ in 0..k {
                    let t: i64 = if z.trans.is_empty() { rng.range(-2_000_000_000, 4_000_000_000) } else { z.trans[rng.below(z.trans.len() as u64) as usize].0 - rng.range(0, 2) };
                    let wall_too = rng.chance(1, 3);
                    // on replay of one case the earlier queries are still issued (they are the history), only not judged
                    let selected = rep.begin();
                    if t < -62_000_000_000 || t > 4_700_000_000 {
                        continue;
                    }
                    if selected {
                        evals += 1;
                    }
                    let exp = z.ref_offset_at(t);
                    let got = call(|| hist.get_named_tz_offset_nanoseconds(&z.name, t as i128 * SEC)).map(|o| o.offset);
                    if selected && !got.is_broken() && got.as_ok() != Some(&exp) {
                        // wrong whatever the history, or only after what this provider served before?
                        let fresh = call(|| FsTzdbProvider::default().get_named_tz_offset_nanoseconds(&z.name, t as i128 * SEC)).map(|o| o.offset);
                        let clause = if fresh == got { "C15.offset" } else { "C15.history" };
                        rep.violation(clause, "get_named_tz_offset_nanoseconds", "(all-zones-one-provider)", json!({"zone": z.name, "instant_s": t, "round": round, "new_provider": fresh.show()}), got.show(), format!("{exp}"));
                    }
                    if wall_too {
                        let wall = (t + exp) as i128 * SEC;
                        if let Some(iso) = iso_of(wall) {
                            let mut exp_set = z.ref_instants_of(wall);
                            exp_set.retain(|x| x.abs() <= MAXI);
                            let got = call(|| hist.get_named_tz_epoch_nanoseconds(&z.name, iso)).map(|v| v.into_iter().map(|e| e.as_i128()).collect::<Vec<i128>>());
                            if selected && !got.is_broken() && got.as_ok() != Some(&exp_set) {
                                let fresh = call(|| FsTzdbProvider::default().get_named_tz_epoch_nanoseconds(&z.name, iso)).map(|v| v.into_iter().map(|e| e.as_i128()).collect::<Vec<i128>>());
                                let clause = if fresh == got { "C15.local" } else { "C15.history" };
                                rep.violation(clause, "get_named_tz_epoch_nanoseconds", "(all-zones-one-provider)", json!({"zone": z.name, "wall": model_fmt_local(wall), "round": round, "new_provider": fresh.show()}), got.show(), format!("{exp_set:?}"));
                            }
                        }
                    }
                    if selected {
                        rep.hit("history/all-zones-one-provider");
                    }
                }
            }
        }
    }
    rep.evaluations += evals;
    rep.add("cases", evals);
    for c in ["cases", "zones/visited", "history/all-zones-one-provider", "offset/before-first-transition", "offset/footer-rule", "offset/far-future-footer-rule", "offset/negative-epoch", "local/skipped", "local/repeated"] {
        rep.require(c);
    }
}

type TemporalResultVec = Out<Vec<temporal_rs::time::EpochNanoseconds>>;
