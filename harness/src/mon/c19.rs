//! C19 - the convenience (compiled-data) layer and the FFI layer return exactly what the core returns.
//!
//! Oracle: the core itself. Every wrapper is called with generated arguments next to the provider-taking / plain core
//! method it stands for and the two observations (value through accessors, or error kind) must be equal.

use crate::core::*;
use crate::fp;
use crate::mon::c09::gen_fields;
use crate::refmodel::civil::*;
use crate::util::*;
use diplomat_runtime::{DiplomatOption, DiplomatWrite};
use serde_json::json;
use std::str::FromStr;
use temporal_capi::calendar::ffi as fc;
use temporal_capi::duration::ffi as fd;
use temporal_capi::error::ffi as fe;
use temporal_capi::instant::ffi as fi;
use temporal_capi::iso::ffi as fiso;
use temporal_capi::options::ffi as fo;
use temporal_capi::plain_date::ffi as fpd;
use temporal_capi::plain_date_time::ffi as fpdt;
use temporal_capi::plain_month_day::ffi as fpmd;
use temporal_capi::plain_time::ffi as fpt;
use temporal_capi::plain_year_month::ffi as fpym;
use temporal_rs::error::ErrorKind;
use temporal_rs::options::*;
use temporal_rs::parsers::Precision;
use temporal_rs::partial::{PartialDate, PartialDateTime, PartialDuration, PartialTime};
use temporal_rs::tzdb::FsTzdbProvider;
use temporal_rs::{Calendar, Duration, Instant, MonthCode, PlainDate, PlainDateTime, PlainMonthDay, PlainTime, PlainYearMonth, TimeZone, ZonedDateTime};

// ---------------------------------------------------------------------------------------- helpers

// exported (no_mangle) by diplomat_runtime for foreign callers, not re-exported in its Rust API
extern "C" {
    fn diplomat_buffer_write_len(this: &DiplomatWrite) -> usize;
    fn diplomat_buffer_write_get_bytes(this: &DiplomatWrite) -> *mut u8;
}

fn written(f: impl FnOnce(&mut DiplomatWrite)) -> String {
    // destroyed on every path, also when the FFI function panics under the call wrapper (a leak of the harness's own
    // buffer would otherwise show up in the Miri / leak-checking legs as if it were the library's)
    struct Buf(*mut DiplomatWrite);
    impl Drop for Buf {
        fn drop(&mut self) {
            // Safety: the pointer comes from diplomat_buffer_write_create and is destroyed exactly once, here
            unsafe { diplomat_runtime::diplomat_buffer_write_destroy(self.0) }
        }
    }
    let w = Buf(diplomat_runtime::diplomat_buffer_write_create(32));
    // Safety: `w.0` is valid until `w` is dropped at the end of this function; the bytes are copied before that
    unsafe {
        f(&mut *w.0);
        let len = diplomat_buffer_write_len(&*w.0);
        let ptr = diplomat_buffer_write_get_bytes(&*w.0);
        if ptr.is_null() {
            String::new()
        } else {
            String::from_utf8_lossy(std::slice::from_raw_parts(ptr, len)).into_owned()
        }
    }
}

fn kind_of(e: &fe::TemporalError) -> ErrorKind {
    match e.kind {
        fe::ErrorKind::Generic => ErrorKind::Generic,
        fe::ErrorKind::Type => ErrorKind::Type,
        fe::ErrorKind::Range => ErrorKind::Range,
        fe::ErrorKind::Syntax => ErrorKind::Syntax,
        fe::ErrorKind::Assert => ErrorKind::Assert,
    }
}

/// Call into the FFI layer: same three-valued outcome as `call`.
fn fcall<T>(f: impl FnOnce() -> Result<T, fe::TemporalError>) -> Out<T> {
    match call_inf(f) {
        Out::Ok(Ok(v)) => Out::Ok(v),
        Out::Ok(Err(e)) => Out::Err(kind_of(&e), String::new()),
        Out::Err(k, m) => Out::Err(k, m),
        Out::Panic(l, m) => Out::Panic(l, m),
    }
}

fn same<T: PartialEq>(a: &Out<T>, b: &Out<T>) -> bool {
    match (a, b) {
        (Out::Ok(x), Out::Ok(y)) => x == y,
        (Out::Err(k1, _), Out::Err(k2, _)) => k1 == k2,
        _ => false,
    }
}

struct Cx<'a> {
    rep: &'a mut Report,
    case: serde_json::Value,
}

impl Cx<'_> {
    fn pair<T: PartialEq + std::fmt::Debug>(&mut self, layer: &str, name: &str, wrapper: Out<T>, core: Out<T>) {
        self.rep.hit(&format!("pairs/{layer}"));
        self.rep.extra.entry(format!("fn:{layer}:{name}")).or_insert(json!(1));
        if wrapper.is_broken() || core.is_broken() {
            self.rep.inconclusive("C19.pair", &format!("{layer}:{name}"));
            return;
        }
        if !same(&wrapper, &core) {
            let shape = match (&wrapper, &core) {
                (Out::Ok(_), Out::Ok(_)) => "different-value",
                (Out::Err(..), Out::Err(..)) => "different-error-kind",
                (Out::Ok(_), _) => "value-instead-of-error",
                _ => "error-instead-of-value",
            };
            self.rep.violation(&format!("C19.{layer}"), name, shape, self.case.clone(), wrapper.show(), core.show());
        }
    }
}

fn opt<T>(o: Option<T>) -> DiplomatOption<T> {
    o.into()
}

// conversions of option values: the FFI value and the core value are built from the same choice
fn unit_pair(i: u64) -> (fo::Unit, Unit) {
    match i % 11 {
        0 => (fo::Unit::Auto, Unit::Auto),
        1 => (fo::Unit::Nanosecond, Unit::Nanosecond),
        2 => (fo::Unit::Microsecond, Unit::Microsecond),
        3 => (fo::Unit::Millisecond, Unit::Millisecond),
        4 => (fo::Unit::Second, Unit::Second),
        5 => (fo::Unit::Minute, Unit::Minute),
        6 => (fo::Unit::Hour, Unit::Hour),
        7 => (fo::Unit::Day, Unit::Day),
        8 => (fo::Unit::Week, Unit::Week),
        9 => (fo::Unit::Month, Unit::Month),
        _ => (fo::Unit::Year, Unit::Year),
    }
}
fn mode_pair(i: u64) -> (fo::RoundingMode, RoundingMode) {
    match i % 9 {
        0 => (fo::RoundingMode::Ceil, RoundingMode::Ceil),
        1 => (fo::RoundingMode::Floor, RoundingMode::Floor),
        2 => (fo::RoundingMode::Expand, RoundingMode::Expand),
        3 => (fo::RoundingMode::Trunc, RoundingMode::Trunc),
        4 => (fo::RoundingMode::HalfCeil, RoundingMode::HalfCeil),
        5 => (fo::RoundingMode::HalfFloor, RoundingMode::HalfFloor),
        6 => (fo::RoundingMode::HalfExpand, RoundingMode::HalfExpand),
        7 => (fo::RoundingMode::HalfTrunc, RoundingMode::HalfTrunc),
        _ => (fo::RoundingMode::HalfEven, RoundingMode::HalfEven),
    }
}
fn overflow_pair(i: u64) -> (fo::ArithmeticOverflow, ArithmeticOverflow) {
    if i % 2 == 0 {
        (fo::ArithmeticOverflow::Constrain, ArithmeticOverflow::Constrain)
    } else {
        (fo::ArithmeticOverflow::Reject, ArithmeticOverflow::Reject)
    }
}
fn dispcal_pair(i: u64) -> (fo::DisplayCalendar, DisplayCalendar) {
    match i % 4 {
        0 => (fo::DisplayCalendar::Auto, DisplayCalendar::Auto),
        1 => (fo::DisplayCalendar::Always, DisplayCalendar::Always),
        2 => (fo::DisplayCalendar::Never, DisplayCalendar::Never),
        _ => (fo::DisplayCalendar::Critical, DisplayCalendar::Critical),
    }
}

struct Opts {
    largest: Option<u64>,
    smallest: Option<u64>,
    mode: Option<u64>,
    inc: Option<u32>,
}
impl Opts {
    fn gen(r: &mut Rng) -> Self {
        let o = |r: &mut Rng, n: u64| if r.chance(1, 3) { None } else { Some(r.below(n)) };
        Opts { largest: o(r, 11), smallest: o(r, 11), mode: o(r, 9), inc: if r.bool() { None } else { Some(*r.pick(&[1u32, 2, 3, 5, 10, 15, 30, 100, 0, 1_000_000_000])) } }
    }
    fn f_diff(&self) -> fo::DifferenceSettings {
        fo::DifferenceSettings { largest_unit: opt(self.largest.map(|i| unit_pair(i).0)), smallest_unit: opt(self.smallest.map(|i| unit_pair(i).0)), rounding_mode: opt(self.mode.map(|i| mode_pair(i).0)), increment: opt(self.inc) }
    }
    fn c_diff(&self) -> TemporalResultOf<DifferenceSettings> {
        let mut s = DifferenceSettings::default();
        s.largest_unit = self.largest.map(|i| unit_pair(i).1);
        s.smallest_unit = self.smallest.map(|i| unit_pair(i).1);
        s.rounding_mode = self.mode.map(|i| mode_pair(i).1);
        if let Some(i) = self.inc {
            s.increment = Some(RoundingIncrement::try_new(i)?);
        }
        Ok(s)
    }
    fn f_round(&self) -> fo::RoundingOptions {
        fo::RoundingOptions { largest_unit: opt(self.largest.map(|i| unit_pair(i).0)), smallest_unit: opt(self.smallest.map(|i| unit_pair(i).0)), rounding_mode: opt(self.mode.map(|i| mode_pair(i).0)), increment: opt(self.inc) }
    }
    fn c_round(&self) -> TemporalResultOf<RoundingOptions> {
        let mut s = RoundingOptions::default();
        s.largest_unit = self.largest.map(|i| unit_pair(i).1);
        s.smallest_unit = self.smallest.map(|i| unit_pair(i).1);
        s.rounding_mode = self.mode.map(|i| mode_pair(i).1);
        if let Some(i) = self.inc {
            s.increment = Some(RoundingIncrement::try_new(i)?);
        }
        Ok(s)
    }
    fn show(&self) -> String {
        format!("largest={:?} smallest={:?} mode={:?} inc={:?}", self.largest.map(|i| unit_pair(i).1), self.smallest.map(|i| unit_pair(i).1), self.mode.map(|i| mode_pair(i).1), self.inc)
    }
}
type TemporalResultOf<T> = temporal_rs::TemporalResult<T>;

struct Prec {
    minute: bool,
    digits: Option<u8>,
    smallest: Option<u64>,
    mode: Option<u64>,
}
impl Prec {
    fn gen(r: &mut Rng) -> Self {
        Prec { minute: r.chance(1, 5), digits: if r.bool() { Some(r.below(11) as u8) } else { None }, smallest: if r.chance(1, 3) { Some(r.below(11)) } else { None }, mode: if r.bool() { Some(r.below(9)) } else { None } }
    }
    fn f(&self) -> fo::ToStringRoundingOptions {
        fo::ToStringRoundingOptions { precision: fo::Precision { is_minute: self.minute, precision: opt(self.digits) }, smallest_unit: opt(self.smallest.map(|i| unit_pair(i).0)), rounding_mode: opt(self.mode.map(|i| mode_pair(i).0)) }
    }
    fn c(&self) -> ToStringRoundingOptions {
        ToStringRoundingOptions { precision: if self.minute { Precision::Minute } else if let Some(d) = self.digits { Precision::Digit(d) } else { Precision::Auto }, smallest_unit: self.smallest.map(|i| unit_pair(i).1), rounding_mode: self.mode.map(|i| mode_pair(i).1) }
    }
}

// observations
fn o_time_f(t: &fpt::PlainTime) -> [u16; 6] {
    [t.hour() as u16, t.minute() as u16, t.second() as u16, t.millisecond(), t.microsecond(), t.nanosecond()]
}
fn o_time_c(t: &PlainTime) -> [u16; 6] {
    [t.hour() as u16, t.minute() as u16, t.second() as u16, t.millisecond(), t.microsecond(), t.nanosecond()]
}
fn o_date_f(d: &fpd::PlainDate) -> (i32, u8, u8, String) {
    (d.iso_year(), d.iso_month(), d.iso_day(), d.calendar().identifier().to_string())
}
fn o_date_c(d: &PlainDate) -> (i32, u8, u8, String) {
    (d.iso_year(), d.iso_month(), d.iso_day(), d.calendar().identifier().to_string())
}
type DtObs = ((i32, u8, u8, String), [u16; 6]);
fn o_dt_f(d: &fpdt::PlainDateTime) -> DtObs {
    ((d.iso_year(), d.iso_month(), d.iso_day(), d.calendar().identifier().to_string()), [d.hour() as u16, d.minute() as u16, d.second() as u16, d.millisecond(), d.microsecond(), d.nanosecond()])
}
fn o_dt_c(d: &PlainDateTime) -> DtObs {
    ((d.iso_year(), d.iso_month(), d.iso_day(), d.calendar().identifier().to_string()), [d.hour() as u16, d.minute() as u16, d.second() as u16, d.millisecond(), d.microsecond(), d.nanosecond()])
}
fn o_dur_f(d: &fd::Duration) -> [u64; 10] {
    [d.years(), d.months(), d.weeks(), d.days(), d.hours(), d.minutes(), d.seconds(), d.milliseconds(), d.microseconds(), d.nanoseconds()].map(f64::to_bits)
}
fn o_dur_c(d: &Duration) -> [u64; 10] {
    dur_fields(d).map(f64::to_bits)
}
fn o_inst_f(i: &fi::Instant) -> (i128, i64) {
    let n = i.epoch_nanoseconds();
    (((n.high as i128) << 64) | n.low as i128, i.epoch_milliseconds())
}
fn o_inst_c(i: &Instant) -> (i128, i64) {
    (i.epoch_nanoseconds().as_i128(), i.epoch_milliseconds())
}

fn hu8(r: &mut Rng, max: u8) -> u8 {
    if r.chance(1, 8) {
        *r.pick(&[0u8, 60, 61, 99, 255])
    } else {
        r.range(0, max as i64) as u8
    }
}
fn hu16(r: &mut Rng) -> u16 {
    if r.chance(1, 8) {
        *r.pick(&[1000u16, 65535])
    } else {
        r.range(0, 999) as u16
    }
}

const CALS: [&str; 8] = ["iso8601", "iso8601", "gregory", "japanese", "hebrew", "islamic-civil", "chinese", "ethioaa"];
const TZS: [&str; 10] = ["UTC", "America/New_York", "Europe/Dublin", "Australia/Lord_Howe", "Pacific/Apia", "Asia/Kolkata", "Africa/Casablanca", "+05:30", "-08:00", "America/Sao_Paulo"];

pub fn run(rep: &mut Report) {
    let mut rng = rep.cfg.rng("c19");
    let n = rep.cfg.budget(120_000, 1_800_000);
    let fresh = FsTzdbProvider::default();
    // zones of the database with their transitions (exported tables), for hostile instants only - the oracle is the core
    // (not under Miri: parsing the tables there takes longer than the whole reduced run)
    let real_zones: Vec<crate::zones::Zone> = if cfg!(miri) { Vec::new() } else { crate::zones::load_real("/verif/.build/zones.tbl").into_iter().filter(|z| !z.trans.is_empty() && z.trans.len() < 400).collect() };
    let midnight_gaps: Vec<(usize, i64)> = {
        let mut v = Vec::new();
        for (zi, z) in real_zones.iter().enumerate() {
            let mut before = z.initial;
            for (t, after) in &z.trans {
                let (lb, la) = (t + before, t + after);
                if after > &before && la.div_euclid(86_400) > lb.div_euclid(86_400) && lb.rem_euclid(86_400) != 0 && t.abs() < 4_000_000_000 {
                    v.push((zi, *t));
                }
                before = *after;
            }
        }
        v
    };
    rep.add("compiled/transitions-that-skip-a-midnight-from-before-it", midnight_gaps.len() as u64);
    let mut evals = 0u64;
    for _ in 0..n {
        let scenario = rng.below(10);
        let sub = rng.u64();
        if !rep.begin() {
            continue;
        }
        evals += 1;
        let mut rr = Rng::new(sub, "c19-case", 0);
        let r = &mut rr;
        // (under Miri the astronomical Chinese calendar is left out: one far-away conversion takes minutes there)
        let cal_id = if cfg!(miri) { *r.pick(&CALS[..7]) } else { *r.pick(&CALS) };
        let cal_id = if cfg!(miri) && cal_id == "chinese" { "iso8601" } else { cal_id };
        let cal = Calendar::from_str(cal_id).unwrap_or_default();
        let fcal = fc::Calendar::from_utf8(cal_id.as_bytes()).ok();
        let Some(fcal) = fcal else {
            rep.harness_error(format!("ffi calendar {cal_id} not constructible"));
            continue;
        };
        let v = gen_fields(r, false);
        let dur_c = dur10(v).ok();
        let dur_f = fd::Duration::create(v[0], v[1], v[2], v[3], v[4], v[5], v[6], v[7], v[8], v[9]).ok();
        let (y, mo, d) = (if r.chance(1, 6) { *r.pick(&[-271_821i32, 275_760, 275_761, -271_822, 0]) } else { r.range(-3000, 4000) as i32 }, hu8(r, 13), hu8(r, 32));
        let (h, mi, s, ms, us, ns) = (hu8(r, 23), hu8(r, 59), hu8(r, 59), hu16(r), hu16(r), hu16(r));
        let o = Opts::gen(r);
        let p = Prec::gen(r);
        let ovi = r.below(2);
        let ov_opt = if r.bool() { Some(ovi) } else { None };
        let mut cx = Cx { rep, case: json!({"scenario": scenario, "calendar": cal_id, "ymd": [y, mo as i32, d as i32], "time": [h as u32, mi as u32, s as u32, ms as u32, us as u32, ns as u32], "duration": format!("{v:?}"), "options": o.show()}) };
        let fov = |i: Option<u64>| i.map(|i| overflow_pair(i).0);
        let cov = |i: Option<u64>| i.map(|i| overflow_pair(i).1);
        match scenario {
            // ------------------------------------------------------------ FFI: PlainTime
            0 => {
                let ft = fcall(|| fpt::PlainTime::create(h, mi, s, ms, us, ns));
                let ct = call(|| PlainTime::new(h, mi, s, ms, us, ns));
                cx.pair("ffi", "PlainTime::create", fcall(|| fpt::PlainTime::create(h, mi, s, ms, us, ns)).map(|t| o_time_f(&t)), call(|| PlainTime::new(h, mi, s, ms, us, ns)).map(|t| o_time_c(&t)));
                cx.pair("ffi", "PlainTime::try_create", fcall(|| fpt::PlainTime::try_create(h, mi, s, ms, us, ns)).map(|t| o_time_f(&t)), call(|| PlainTime::try_new(h, mi, s, ms, us, ns)).map(|t| o_time_c(&t)));
                let some = |b: bool, x: u8| if b { Some(x) } else { None };
                let bits = r.below(64);
                let fp_ = || fpt::PartialTime { hour: opt(some(bits & 1 != 0, h)), minute: opt(some(bits & 2 != 0, mi)), second: opt(some(bits & 4 != 0, s)), millisecond: opt(if bits & 8 != 0 { Some(ms) } else { None }), microsecond: opt(if bits & 16 != 0 { Some(us) } else { None }), nanosecond: opt(if bits & 32 != 0 { Some(ns) } else { None }) };
                let cp_ = || PartialTime { hour: some(bits & 1 != 0, h), minute: some(bits & 2 != 0, mi), second: some(bits & 4 != 0, s), millisecond: if bits & 8 != 0 { Some(ms) } else { None }, microsecond: if bits & 16 != 0 { Some(us) } else { None }, nanosecond: if bits & 32 != 0 { Some(ns) } else { None } };
                cx.pair("ffi", "PlainTime::from_partial", fcall(|| fpt::PlainTime::from_partial(fp_(), fov(ov_opt))).map(|t| o_time_f(&t)), call(|| PlainTime::from_partial(cp_(), cov(ov_opt))).map(|t| o_time_c(&t)));
                if let (Out::Ok(ft), Out::Ok(ct)) = (ft, ct) {
                    cx.pair("ffi", "PlainTime::hour..nanosecond", Out::Ok(o_time_f(&ft)), Out::Ok(o_time_c(&ct)));
                    cx.pair("ffi", "PlainTime::with", fcall(|| ft.with(fp_(), fov(ov_opt))).map(|t| o_time_f(&t)), call(|| ct.with(cp_(), cov(ov_opt))).map(|t| o_time_c(&t)));
                    if let (Some(df), Some(dc)) = (&dur_f, &dur_c) {
                        cx.pair("ffi", "PlainTime::add", fcall(|| ft.add(df)).map(|t| o_time_f(&t)), call(|| ct.add(dc)).map(|t| o_time_c(&t)));
                        cx.pair("ffi", "PlainTime::subtract", fcall(|| ft.subtract(df)).map(|t| o_time_f(&t)), call(|| ct.subtract(dc)).map(|t| o_time_c(&t)));
                        cx.pair("ffi", "PlainTime::add_time_duration", fcall(|| ft.add_time_duration(df.time())).map(|t| o_time_f(&t)), call(|| ct.add_time_duration(dc.time())).map(|t| o_time_c(&t)));
                        cx.pair("ffi", "PlainTime::subtract_time_duration", fcall(|| ft.subtract_time_duration(df.time())).map(|t| o_time_f(&t)), call(|| ct.subtract_time_duration(dc.time())).map(|t| o_time_c(&t)));
                    }
                    let (h2, m2, s2) = (r.range(0, 23) as u8, r.range(0, 59) as u8, r.range(0, 59) as u8);
                    if let (Ok(f2), Ok(c2)) = (fpt::PlainTime::create(h2, m2, s2, us, ns, ms), PlainTime::new(h2, m2, s2, us, ns, ms)) {
                        cx.pair("ffi", "PlainTime::until", fcall(|| ft.until(&f2, o.f_diff())).map(|x| o_dur_f(&x)), call(|| ct.until(&c2, o.c_diff()?)).map(|x| o_dur_c(&x)));
                        cx.pair("ffi", "PlainTime::since", fcall(|| ft.since(&f2, o.f_diff())).map(|x| o_dur_f(&x)), call(|| ct.since(&c2, o.c_diff()?)).map(|x| o_dur_c(&x)));
                    }
                    let su = r.below(11);
                    let inc = *r.pick(&[None, Some(1.0f64), Some(2.0), Some(15.0), Some(30.0), Some(7.0), Some(0.0), Some(1.5)]);
                    cx.pair("ffi", "PlainTime::round", fcall(|| ft.round(unit_pair(su).0, inc, o.mode.map(|i| mode_pair(i).0))).map(|t| o_time_f(&t)), call(|| ct.round(unit_pair(su).1, inc, o.mode.map(|i| mode_pair(i).1))).map(|t| o_time_c(&t)));
                    cx.pair("ffi", "PlainTime::to_ixdtf_string", fcall(|| {
                        let mut res = Ok(());
                        let s = written(|w| res = ft.to_ixdtf_string(p.f(), w));
                        res.map(|_| s)
                    }), call(|| ct.to_ixdtf_string(p.c())));
                }
            }
            // ------------------------------------------------------------ FFI: PlainDate
            1 | 2 => {
                let fd_ = fcall(|| fpd::PlainDate::create(y, mo, d, &fcal));
                let cd_ = call(|| PlainDate::new(y, mo, d, cal.clone()));
                cx.pair("ffi", "PlainDate::create", fcall(|| fpd::PlainDate::create(y, mo, d, &fcal)).map(|x| o_date_f(&x)), call(|| PlainDate::new(y, mo, d, cal.clone())).map(|x| o_date_c(&x)));
                cx.pair("ffi", "PlainDate::try_create", fcall(|| fpd::PlainDate::try_create(y, mo, d, &fcal)).map(|x| o_date_f(&x)), call(|| PlainDate::try_new(y, mo, d, cal.clone())).map(|x| o_date_c(&x)));
                cx.pair("ffi", "PlainDate::create_with_overflow", fcall(|| fpd::PlainDate::create_with_overflow(y, mo, d, &fcal, overflow_pair(ovi).0)).map(|x| o_date_f(&x)), call(|| PlainDate::new_with_overflow(y, mo, d, cal.clone(), overflow_pair(ovi).1)).map(|x| o_date_c(&x)));
                // partial records
                let bits = r.below(64);
                let code = *r.pick(&["M01", "M06", "M12", "M05L", "M13", ""]);
                let era = *r.pick(&["", "", "ce", "bce", "reiwa", "am", "ah"]);
                let ey = r.range(1, 3000) as i32;
                let fpart = || fpd::PartialDate { year: opt(if bits & 1 != 0 { Some(y) } else { None }), month: opt(if bits & 2 != 0 { Some(mo) } else { None }), month_code: code.as_bytes().into(), day: opt(if bits & 4 != 0 { Some(d) } else { None }), era: era.as_bytes().into(), era_year: opt(if bits & 8 != 0 { Some(ey) } else { None }), calendar: &fcal };
                let cpart = || -> TemporalResultOf<PartialDate> {
                    Ok(PartialDate { year: if bits & 1 != 0 { Some(y) } else { None }, month: if bits & 2 != 0 { Some(mo) } else { None }, month_code: if code.is_empty() { None } else { Some(MonthCode::from_str(code)?) }, day: if bits & 4 != 0 { Some(d) } else { None }, era: if era.is_empty() { None } else { Some(temporal_rs::TinyAsciiStr::try_from_str(era).map_err(|_| temporal_rs::TemporalError::syntax())?) }, era_year: if bits & 8 != 0 { Some(ey) } else { None }, calendar: cal.clone() })
                };
                cx.pair("ffi", "PlainDate::from_partial", fcall(|| fpd::PlainDate::from_partial(fpart(), fov(ov_opt))).map(|x| o_date_f(&x)), call(|| PlainDate::from_partial(cpart()?, cov(ov_opt))).map(|x| o_date_c(&x)));
                cx.pair("ffi", "Calendar::date_from_partial", fcall(|| fcal.date_from_partial(fpart(), overflow_pair(ovi).0)).map(|x| o_date_f(&x)), call(|| cal.date_from_partial(&cpart()?, overflow_pair(ovi).1)).map(|x| o_date_c(&x)));
                cx.pair("ffi", "Calendar::year_month_from_partial", fcall(|| fcal.year_month_from_partial(fpart(), overflow_pair(ovi).0)).map(|x| (x.iso_year(), x.iso_month())), call(|| cal.year_month_from_partial(&cpart()?, overflow_pair(ovi).1)).map(|x| (x.iso_year(), x.iso_month())));
                cx.pair("ffi", "Calendar::month_day_from_partial", fcall(|| fcal.month_day_from_partial(fpart(), overflow_pair(ovi).0)).map(|x| (x.iso_year(), x.iso_month(), x.iso_day())), call(|| cal.month_day_from_partial(&cpart()?, overflow_pair(ovi).1)).map(|x| (x.iso_year(), x.iso_month(), x.iso_day())));
                if let (Out::Ok(fd_), Out::Ok(cd_)) = (fd_, cd_) {
                    cx.pair("ffi", "PlainDate::with", fcall(|| fd_.with(fpart(), fov(ov_opt))).map(|x| o_date_f(&x)), call(|| cd_.with(cpart()?, cov(ov_opt))).map(|x| o_date_c(&x)));
                    macro_rules! acc {
                        ($name:literal, $f:expr, $c:expr) => {
                            cx.pair("ffi", $name, call_inf(|| $f), call_inf(|| $c));
                        };
                    }
                    acc!("PlainDate::iso_year", fd_.iso_year(), cd_.iso_year());
                    acc!("PlainDate::iso_month", fd_.iso_month(), cd_.iso_month());
                    acc!("PlainDate::iso_day", fd_.iso_day(), cd_.iso_day());
                    acc!("PlainDate::is_valid", fd_.is_valid(), cd_.is_valid());
                    acc!("PlainDate::year", fd_.year(), cd_.year());
                    acc!("PlainDate::month", fd_.month(), cd_.month());
                    acc!("PlainDate::month_code", written(|w| fd_.month_code(w)), cd_.month_code().as_str().to_string());
                    acc!("PlainDate::day", fd_.day(), cd_.day());
                    acc!("PlainDate::day_of_week", fd_.day_of_week(), cd_.day_of_week());
                    acc!("PlainDate::day_of_year", fd_.day_of_year(), cd_.day_of_year());
                    acc!("PlainDate::days_in_month", fd_.days_in_month(), cd_.days_in_month());
                    acc!("PlainDate::days_in_year", fd_.days_in_year(), cd_.days_in_year());
                    acc!("PlainDate::months_in_year", fd_.months_in_year(), cd_.months_in_year());
                    acc!("PlainDate::in_leap_year", fd_.in_leap_year(), cd_.in_leap_year());
                    acc!("PlainDate::era", written(|w| fd_.era(w)), cd_.era().map(|e| e.as_str().to_string()).unwrap_or_default());
                    acc!("PlainDate::era_year", fd_.era_year(), cd_.era_year());
                    acc!("PlainDate::calendar", fd_.calendar().identifier().to_string(), cd_.calendar().identifier().to_string());
                    cx.pair("ffi", "PlainDate::week_of_year", fcall(|| fd_.week_of_year()), call(|| cd_.week_of_year()));
                    cx.pair("ffi", "PlainDate::year_of_week", fcall(|| fd_.year_of_week()), call(|| cd_.year_of_week()));
                    cx.pair("ffi", "PlainDate::days_in_week", fcall(|| fd_.days_in_week()), call(|| cd_.days_in_week()));
                    // the same through the calendar object
                    let iso = || fiso::IsoDate { year: cd_.iso_year(), month: cd_.iso_month(), day: cd_.iso_day() };
                    let mut ciso = temporal_rs::iso::IsoDate::default();
                    ciso.year = cd_.iso_year();
                    ciso.month = cd_.iso_month();
                    ciso.day = cd_.iso_day();
                    acc!("Calendar::year", fcal.year(iso()), cal.year(&ciso));
                    acc!("Calendar::month", fcal.month(iso()), cal.month(&ciso));
                    acc!("Calendar::day", fcal.day(iso()), cal.day(&ciso));
                    acc!("Calendar::day_of_week", fcal.day_of_week(iso()), cal.day_of_week(&ciso));
                    acc!("Calendar::day_of_year", fcal.day_of_year(iso()), cal.day_of_year(&ciso));
                    acc!("Calendar::days_in_month", fcal.days_in_month(iso()), cal.days_in_month(&ciso));
                    acc!("Calendar::days_in_year", fcal.days_in_year(iso()), cal.days_in_year(&ciso));
                    acc!("Calendar::months_in_year", fcal.months_in_year(iso()), cal.months_in_year(&ciso));
                    acc!("Calendar::in_leap_year", fcal.in_leap_year(iso()), cal.in_leap_year(&ciso));
                    acc!("Calendar::era_year", fcal.era_year(iso()), cal.era_year(&ciso));
                    acc!("Calendar::is_iso", fcal.is_iso(), cal.is_iso());
                    acc!("Calendar::identifier", fcal.identifier().to_string(), cal.identifier().to_string());
                    cx.pair("ffi", "Calendar::era", fcall(|| {
                        let mut res = Ok(());
                        let s = written(|w| res = fcal.era(iso(), w));
                        res.map(|_| s)
                    }), call(|| Ok(cal.era(&ciso).map(|e| e.as_str().to_string()).unwrap_or_default())));
                    cx.pair("ffi", "Calendar::month_code", fcall(|| {
                        let mut res = Ok(());
                        let s = written(|w| res = fcal.month_code(iso(), w));
                        res.map(|_| s)
                    }), call(|| Ok(cal.month_code(&ciso).as_str().to_string())));
                    cx.pair("ffi", "Calendar::week_of_year", fcall(|| fcal.week_of_year(iso())), call(|| cal.week_of_year(&ciso)));
                    cx.pair("ffi", "Calendar::year_of_week", fcall(|| fcal.year_of_week(iso())), call(|| cal.year_of_week(&ciso)));
                    cx.pair("ffi", "Calendar::days_in_week", fcall(|| fcal.days_in_week(iso())), call(|| cal.days_in_week(&ciso)));
                    if let (Some(df), Some(dc)) = (&dur_f, &dur_c) {
                        cx.pair("ffi", "PlainDate::add", fcall(|| fd_.add(df, fov(ov_opt))).map(|x| o_date_f(&x)), call(|| cd_.add(dc, cov(ov_opt))).map(|x| o_date_c(&x)));
                        cx.pair("ffi", "PlainDate::subtract", fcall(|| fd_.subtract(df, fov(ov_opt))).map(|x| o_date_f(&x)), call(|| cd_.subtract(dc, cov(ov_opt))).map(|x| o_date_c(&x)));
                        cx.pair("ffi", "Calendar::date_add", fcall(|| fcal.date_add(iso(), df, overflow_pair(ovi).0)).map(|x| o_date_f(&x)), call(|| cal.date_add(&ciso, dc, overflow_pair(ovi).1)).map(|x| o_date_c(&x)));
                    }
                    let (y2, m2, d2) = (r.range(-3000, 4000) as i32, r.range(1, 12) as u8, r.range(1, 28) as u8);
                    if let (Ok(f2), Ok(c2)) = (fpd::PlainDate::create(y2, m2, d2, &fcal), PlainDate::new(y2, m2, d2, cal.clone())) {
                        cx.pair("ffi", "PlainDate::until", fcall(|| fd_.until(&f2, o.f_diff())).map(|x| o_dur_f(&x)), call(|| cd_.until(&c2, o.c_diff()?)).map(|x| o_dur_c(&x)));
                        cx.pair("ffi", "PlainDate::since", fcall(|| fd_.since(&f2, o.f_diff())).map(|x| o_dur_f(&x)), call(|| cd_.since(&c2, o.c_diff()?)).map(|x| o_dur_c(&x)));
                        let lu = r.below(11);
                        cx.pair("ffi", "Calendar::date_until", fcall(|| fcal.date_until(iso(), fiso::IsoDate { year: y2, month: m2, day: d2 }, unit_pair(lu).0)).map(|x| o_dur_f(&x)), call(|| {
                            let mut i2 = temporal_rs::iso::IsoDate::default();
                            i2.year = y2;
                            i2.month = m2;
                            i2.day = d2;
                            cal.date_until(&ciso, &i2, unit_pair(lu).1)
                        }).map(|x| o_dur_c(&x)));
                    }
                    let other_cal = *r.pick(&CALS);
                    if let Ok(fc2) = fc::Calendar::from_utf8(other_cal.as_bytes()) {
                        cx.pair("ffi", "PlainDate::with_calendar", fcall(|| fd_.with_calendar(&fc2)).map(|x| o_date_f(&x)), call(|| cd_.with_calendar(Calendar::from_str(other_cal)?)).map(|x| o_date_c(&x)));
                    }
                    let ft = fpt::PlainTime::create(h.min(23), mi.min(59), s.min(59), ms.min(999), us.min(999), ns.min(999)).ok();
                    let ct = PlainTime::new(h.min(23), mi.min(59), s.min(59), ms.min(999), us.min(999), ns.min(999)).ok();
                    let with_time = r.bool();
                    cx.pair("ffi", "PlainDate::to_plain_date_time", fcall(|| fd_.to_plain_date_time(if with_time { ft.as_deref() } else { None })).map(|x| o_dt_f(&x)), call(|| cd_.to_plain_date_time(if with_time { ct } else { None })).map(|x| o_dt_c(&x)));
                    cx.pair("ffi", "PlainDate::to_plain_month_day", fcall(|| fd_.to_plain_month_day()).map(|x| (x.iso_year(), x.iso_month(), x.iso_day())), call(|| cd_.to_plain_month_day()).map(|x| (x.iso_year(), x.iso_month(), x.iso_day())));
                    cx.pair("ffi", "PlainDate::to_plain_year_month", fcall(|| fd_.to_plain_year_month()).map(|x| (x.iso_year(), x.iso_month())), call(|| cd_.to_plain_year_month()).map(|x| (x.iso_year(), x.iso_month())));
                    let dc_ = r.below(4);
                    acc!("PlainDate::to_ixdtf_string", written(|w| fd_.to_ixdtf_string(dispcal_pair(dc_).0, w)), cd_.to_ixdtf_string(dispcal_pair(dc_).1));
                }
            }
            // ------------------------------------------------------------ FFI: PlainDateTime
            3 | 4 => {
                let (h, mi, s, ms, us, ns) = if r.chance(1, 5) { (h, mi, s, ms, us, ns) } else { (h.min(23), mi.min(59), s.min(59), ms.min(999), us.min(999), ns.min(999)) };
                let (mo, d) = if r.chance(1, 5) { (mo, d) } else { (mo.clamp(1, 12), d.clamp(1, 28)) };
                cx.pair("ffi", "PlainDateTime::create", fcall(|| fpdt::PlainDateTime::create(y, mo, d, h, mi, s, ms, us, ns, &fcal)).map(|x| o_dt_f(&x)), call(|| PlainDateTime::new(y, mo, d, h, mi, s, ms, us, ns, cal.clone())).map(|x| o_dt_c(&x)));
                cx.pair("ffi", "PlainDateTime::try_create", fcall(|| fpdt::PlainDateTime::try_create(y, mo, d, h, mi, s, ms, us, ns, &fcal)).map(|x| o_dt_f(&x)), call(|| PlainDateTime::try_new(y, mo, d, h, mi, s, ms, us, ns, cal.clone())).map(|x| o_dt_c(&x)));
                let bits = r.below(512);
                let b = |k: u32| bits & (1 << k) != 0;
                let fpart = || fpdt::PartialDateTime {
                    date: fpd::PartialDate { year: opt(if b(0) { Some(y) } else { None }), month: opt(if b(1) { Some(mo) } else { None }), month_code: "".as_bytes().into(), day: opt(if b(2) { Some(d) } else { None }), era: "".as_bytes().into(), era_year: opt(None), calendar: &fcal },
                    time: fpt::PartialTime { hour: opt(if b(3) { Some(h) } else { None }), minute: opt(if b(4) { Some(mi) } else { None }), second: opt(if b(5) { Some(s) } else { None }), millisecond: opt(if b(6) { Some(ms) } else { None }), microsecond: opt(if b(7) { Some(us) } else { None }), nanosecond: opt(if b(8) { Some(ns) } else { None }) },
                };
                let cpart = || PartialDateTime {
                    date: PartialDate { year: if b(0) { Some(y) } else { None }, month: if b(1) { Some(mo) } else { None }, day: if b(2) { Some(d) } else { None }, calendar: cal.clone(), ..Default::default() },
                    time: PartialTime { hour: if b(3) { Some(h) } else { None }, minute: if b(4) { Some(mi) } else { None }, second: if b(5) { Some(s) } else { None }, millisecond: if b(6) { Some(ms) } else { None }, microsecond: if b(7) { Some(us) } else { None }, nanosecond: if b(8) { Some(ns) } else { None } },
                };
                cx.pair("ffi", "PlainDateTime::from_partial", fcall(|| fpdt::PlainDateTime::from_partial(fpart(), fov(ov_opt))).map(|x| o_dt_f(&x)), call(|| PlainDateTime::from_partial(cpart(), cov(ov_opt))).map(|x| o_dt_c(&x)));
                let fdt = fcall(|| fpdt::PlainDateTime::create(y, mo, d, h, mi, s, ms, us, ns, &fcal));
                let cdt = call(|| PlainDateTime::new(y, mo, d, h, mi, s, ms, us, ns, cal.clone()));
                if let (Out::Ok(fdt), Out::Ok(cdt)) = (fdt, cdt) {
                    macro_rules! acc {
                        ($name:literal, $f:expr, $c:expr) => {
                            cx.pair("ffi", $name, call_inf(|| $f), call_inf(|| $c));
                        };
                    }
                    acc!("PlainDateTime::iso_year", fdt.iso_year(), cdt.iso_year());
                    acc!("PlainDateTime::iso_month", fdt.iso_month(), cdt.iso_month());
                    acc!("PlainDateTime::iso_day", fdt.iso_day(), cdt.iso_day());
                    acc!("PlainDateTime::hour", fdt.hour(), cdt.hour());
                    acc!("PlainDateTime::minute", fdt.minute(), cdt.minute());
                    acc!("PlainDateTime::second", fdt.second(), cdt.second());
                    acc!("PlainDateTime::millisecond", fdt.millisecond(), cdt.millisecond());
                    acc!("PlainDateTime::microsecond", fdt.microsecond(), cdt.microsecond());
                    acc!("PlainDateTime::nanosecond", fdt.nanosecond(), cdt.nanosecond());
                    acc!("PlainDateTime::year", fdt.year(), cdt.year());
                    acc!("PlainDateTime::month", fdt.month(), cdt.month());
                    acc!("PlainDateTime::month_code", written(|w| fdt.month_code(w)), cdt.month_code().as_str().to_string());
                    acc!("PlainDateTime::day", fdt.day(), cdt.day());
                    acc!("PlainDateTime::day_of_week", fdt.day_of_week(), cdt.day_of_week());
                    acc!("PlainDateTime::day_of_year", fdt.day_of_year(), cdt.day_of_year());
                    acc!("PlainDateTime::days_in_month", fdt.days_in_month(), cdt.days_in_month());
                    acc!("PlainDateTime::days_in_year", fdt.days_in_year(), cdt.days_in_year());
                    acc!("PlainDateTime::months_in_year", fdt.months_in_year(), cdt.months_in_year());
                    acc!("PlainDateTime::in_leap_year", fdt.in_leap_year(), cdt.in_leap_year());
                    acc!("PlainDateTime::era", written(|w| fdt.era(w)), cdt.era().map(|e| e.as_str().to_string()).unwrap_or_default());
                    acc!("PlainDateTime::era_year", fdt.era_year(), cdt.era_year());
                    acc!("PlainDateTime::calendar", fdt.calendar().identifier().to_string(), cdt.calendar().identifier().to_string());
                    cx.pair("ffi", "PlainDateTime::week_of_year", fcall(|| fdt.week_of_year()), call(|| cdt.week_of_year()));
                    cx.pair("ffi", "PlainDateTime::year_of_week", fcall(|| fdt.year_of_week()), call(|| cdt.year_of_week()));
                    cx.pair("ffi", "PlainDateTime::days_in_week", fcall(|| fdt.days_in_week()), call(|| cdt.days_in_week()));
                    cx.pair("ffi", "PlainDateTime::with", fcall(|| fdt.with(fpart(), fov(ov_opt))).map(|x| o_dt_f(&x)), call(|| cdt.with(cpart(), cov(ov_opt))).map(|x| o_dt_c(&x)));
                    if let (Ok(ft), Ok(ct)) = (fpt::PlainTime::create(s.min(23), h.min(59), mi.min(59), ns.min(999), ms.min(999), us.min(999)), PlainTime::new(s.min(23), h.min(59), mi.min(59), ns.min(999), ms.min(999), us.min(999))) {
                        cx.pair("ffi", "PlainDateTime::with_time", fcall(|| fdt.with_time(&ft)).map(|x| o_dt_f(&x)), call(|| cdt.with_time(ct)).map(|x| o_dt_c(&x)));
                    }
                    let other_cal = *r.pick(&CALS);
                    if let Ok(fc2) = fc::Calendar::from_utf8(other_cal.as_bytes()) {
                        cx.pair("ffi", "PlainDateTime::with_calendar", fcall(|| fdt.with_calendar(&fc2)).map(|x| o_dt_f(&x)), call(|| cdt.with_calendar(Calendar::from_str(other_cal)?)).map(|x| o_dt_c(&x)));
                    }
                    if let (Some(df), Some(dc)) = (&dur_f, &dur_c) {
                        cx.pair("ffi", "PlainDateTime::add", fcall(|| fdt.add(df, fov(ov_opt))).map(|x| o_dt_f(&x)), call(|| cdt.add(dc, cov(ov_opt))).map(|x| o_dt_c(&x)));
                        cx.pair("ffi", "PlainDateTime::subtract", fcall(|| fdt.subtract(df, fov(ov_opt))).map(|x| o_dt_f(&x)), call(|| cdt.subtract(dc, cov(ov_opt))).map(|x| o_dt_c(&x)));
                    }
                    let (y2, m2, d2, h2) = (r.range(-3000, 4000) as i32, r.range(1, 12) as u8, r.range(1, 28) as u8, r.range(0, 23) as u8);
                    if let (Ok(f2), Ok(c2)) = (fpdt::PlainDateTime::create(y2, m2, d2, h2, 1, 2, 3, 4, 5, &fcal), PlainDateTime::new(y2, m2, d2, h2, 1, 2, 3, 4, 5, cal.clone())) {
                        cx.pair("ffi", "PlainDateTime::until", fcall(|| fdt.until(&f2, o.f_diff())).map(|x| o_dur_f(&x)), call(|| cdt.until(&c2, o.c_diff()?)).map(|x| o_dur_c(&x)));
                        cx.pair("ffi", "PlainDateTime::since", fcall(|| fdt.since(&f2, o.f_diff())).map(|x| o_dur_f(&x)), call(|| cdt.since(&c2, o.c_diff()?)).map(|x| o_dur_c(&x)));
                    }
                    cx.pair("ffi", "PlainDateTime::round", fcall(|| fdt.round(o.f_round())).map(|x| o_dt_f(&x)), call(|| cdt.round(o.c_round()?)).map(|x| o_dt_c(&x)));
                    cx.pair("ffi", "PlainDateTime::to_plain_date", fcall(|| fdt.to_plain_date()).map(|x| o_date_f(&x)), call(|| cdt.to_plain_date()).map(|x| o_date_c(&x)));
                    cx.pair("ffi", "PlainDateTime::to_plain_time", fcall(|| fdt.to_plain_time()).map(|x| o_time_f(&x)), call(|| cdt.to_plain_time()).map(|x| o_time_c(&x)));
                    let dc_ = r.below(4);
                    cx.pair("ffi", "PlainDateTime::to_ixdtf_string", fcall(|| {
                        let mut res = Ok(());
                        let s = written(|w| res = fdt.to_ixdtf_string(p.f(), dispcal_pair(dc_).0, w));
                        res.map(|_| s)
                    }), call(|| cdt.to_ixdtf_string(p.c(), dispcal_pair(dc_).1)));
                }
            }
            // ------------------------------------------------------------ FFI: Duration
            5 => {
                cx.pair("ffi", "Duration::create", fcall(|| fd::Duration::create(v[0], v[1], v[2], v[3], v[4], v[5], v[6], v[7], v[8], v[9])).map(|x| o_dur_f(&x)), call(|| dur10(v)).map(|x| o_dur_c(&x)));
                let bits = r.below(1024);
                let g = |k: usize| if bits & (1 << k) != 0 { Some(v[k]) } else { None };
                let fpart = fd::PartialDuration { years: opt(g(0)), months: opt(g(1)), weeks: opt(g(2)), days: opt(g(3)), hours: opt(g(4)), minutes: opt(g(5)), seconds: opt(g(6)), milliseconds: opt(g(7)), microseconds: opt(g(8)), nanoseconds: opt(g(9)) };
                let gf = |k: usize| g(k).map(f);
                let cpart = PartialDuration { years: gf(0), months: gf(1), weeks: gf(2), days: gf(3), hours: gf(4), minutes: gf(5), seconds: gf(6), milliseconds: gf(7), microseconds: gf(8), nanoseconds: gf(9) };
                cx.pair("ffi", "PartialDuration::is_empty", call_inf(|| fd::PartialDuration { years: opt(g(0)), months: opt(g(1)), weeks: opt(g(2)), days: opt(g(3)), hours: opt(g(4)), minutes: opt(g(5)), seconds: opt(g(6)), milliseconds: opt(g(7)), microseconds: opt(g(8)), nanoseconds: opt(g(9)) }.is_empty()), call_inf(|| cpart.is_empty()));
                cx.pair("ffi", "Duration::from_partial_duration", fcall(|| fd::Duration::from_partial_duration(fpart)).map(|x| o_dur_f(&x)), call(|| Duration::from_partial_duration(cpart)).map(|x| o_dur_c(&x)));
                if let (Some(df), Some(dc)) = (&dur_f, &dur_c) {
                    macro_rules! acc {
                        ($name:literal, $f:expr, $c:expr) => {
                            cx.pair("ffi", $name, call_inf(|| $f), call_inf(|| $c));
                        };
                    }
                    acc!("Duration::years", df.years().to_bits(), dc.years().as_inner().to_bits());
                    acc!("Duration::months", df.months().to_bits(), dc.months().as_inner().to_bits());
                    acc!("Duration::weeks", df.weeks().to_bits(), dc.weeks().as_inner().to_bits());
                    acc!("Duration::days", df.days().to_bits(), dc.days().as_inner().to_bits());
                    acc!("Duration::hours", df.hours().to_bits(), dc.hours().as_inner().to_bits());
                    acc!("Duration::minutes", df.minutes().to_bits(), dc.minutes().as_inner().to_bits());
                    acc!("Duration::seconds", df.seconds().to_bits(), dc.seconds().as_inner().to_bits());
                    acc!("Duration::milliseconds", df.milliseconds().to_bits(), dc.milliseconds().as_inner().to_bits());
                    acc!("Duration::microseconds", df.microseconds().to_bits(), dc.microseconds().as_inner().to_bits());
                    acc!("Duration::nanoseconds", df.nanoseconds().to_bits(), dc.nanoseconds().as_inner().to_bits());
                    acc!("Duration::sign", df.sign() as i8, dc.sign() as i8);
                    acc!("Duration::is_zero", df.is_zero(), dc.is_zero());
                    acc!("Duration::is_time_within_range", df.is_time_within_range(), dc.is_time_within_range());
                    acc!("Duration::abs", o_dur_f(&df.abs()), o_dur_c(&dc.abs()));
                    acc!("Duration::negated", o_dur_f(&df.negated()), o_dur_c(&dc.negated()));
                    acc!("TimeDuration::sign", df.time().sign() as i8, dc.time().sign() as i8);
                    acc!("TimeDuration::is_within_range", df.time().is_within_range(), dc.time().is_within_range());
                    acc!("DateDuration::sign", df.date().sign() as i8, dc.date().sign() as i8);
                    let free2 = r.bool();
                    let v2 = gen_fields(r, free2);
                    if let (Ok(f2), Ok(c2)) = (fd::Duration::create(v2[0], v2[1], v2[2], v2[3], v2[4], v2[5], v2[6], v2[7], v2[8], v2[9]), dur10(v2)) {
                        cx.pair("ffi", "Duration::add", fcall(|| df.add(&f2)).map(|x| o_dur_f(&x)), call(|| dc.add(&c2)).map(|x| o_dur_c(&x)));
                        cx.pair("ffi", "Duration::subtract", fcall(|| df.subtract(&f2)).map(|x| o_dur_f(&x)), call(|| dc.subtract(&c2)).map(|x| o_dur_c(&x)));
                    }
                    cx.pair("ffi", "Duration::from_day_and_time", fcall(|| fd::Duration::from_day_and_time(v[3], df.time())).map(|x| o_dur_f(&x)), call(|| Ok(Duration::from_day_and_time(f(v[3]), dc.time()))).map(|x| o_dur_c(&x)));
                }
                cx.pair("ffi", "TimeDuration::new", fcall(|| fd::TimeDuration::new(v[4], v[5], v[6], v[7], v[8], v[9])).map(|x| (x.sign() as i8, x.is_within_range())), call(|| temporal_rs::TimeDuration::new(f(v[4]), f(v[5]), f(v[6]), f(v[7]), f(v[8]), f(v[9]))).map(|x| (x.sign() as i8, x.is_within_range())));
                cx.pair("ffi", "DateDuration::new", fcall(|| fd::DateDuration::new(v[0], v[1], v[2], v[3])).map(|x| x.sign() as i8), call(|| temporal_rs::DateDuration::new(f(v[0]), f(v[1]), f(v[2]), f(v[3]))).map(|x| x.sign() as i8));
            }
            // ------------------------------------------------------------ FFI: Instant
            6 => {
                let t: i128 = match r.below(5) {
                    0 => r.range128(-1_000_000, 1_000_000),
                    1 => -r.range128(1, 1i128 << 64),
                    2 => MAX_INSTANT - r.range128(0, 2),
                    3 => -MAX_INSTANT + r.range128(0, 2),
                    _ => r.range128(-MAX_INSTANT - 5, MAX_INSTANT + 5),
                };
                cx.case["instant_ns"] = json!(t.to_string());
                let parts = || fi::I128Nanoseconds { high: (t >> 64) as i64, low: t as u64 };
                cx.pair("ffi", "Instant::try_new", fcall(|| fi::Instant::try_new(parts())).map(|x| o_inst_f(&x)), call(|| Instant::try_new(t)).map(|x| o_inst_c(&x)));
                let msv = (t / 1_000_000) as i64;
                cx.pair("ffi", "Instant::from_epoch_milliseconds", fcall(|| fi::Instant::from_epoch_milliseconds(msv)).map(|x| o_inst_f(&x)), call(|| Instant::from_epoch_milliseconds(msv)).map(|x| o_inst_c(&x)));
                let fi_ = fcall(|| fi::Instant::from_epoch_milliseconds(msv));
                let ci_ = call(|| Instant::from_epoch_milliseconds(msv));
                if let (Out::Ok(fi_), Out::Ok(ci_)) = (fi_, ci_) {
                    cx.pair("ffi", "Instant::epoch_milliseconds", call_inf(|| fi_.epoch_milliseconds()), call_inf(|| ci_.epoch_milliseconds()));
                    cx.pair("ffi", "Instant::epoch_nanoseconds", call_inf(|| o_inst_f(&fi_).0), call_inf(|| ci_.epoch_nanoseconds().as_i128()));
                    if let (Some(df), Some(dc)) = (&dur_f, &dur_c) {
                        cx.pair("ffi", "Instant::add", fcall(|| fi_.add(df)).map(|x| x.epoch_milliseconds()), call(|| ci_.add(*dc)).map(|x| x.epoch_milliseconds()));
                        cx.pair("ffi", "Instant::subtract", fcall(|| fi_.subtract(df)).map(|x| x.epoch_milliseconds()), call(|| ci_.subtract(*dc)).map(|x| x.epoch_milliseconds()));
                        cx.pair("ffi", "Instant::add_time_duration", fcall(|| fi_.add_time_duration(df.time())).map(|x| x.epoch_milliseconds()), call(|| ci_.add_time_duration(dc.time())).map(|x| x.epoch_milliseconds()));
                        cx.pair("ffi", "Instant::subtract_time_duration", fcall(|| fi_.subtract_time_duration(df.time())).map(|x| x.epoch_milliseconds()), call(|| ci_.subtract_time_duration(dc.time())).map(|x| x.epoch_milliseconds()));
                    }
                    let ms2 = r.range(-8_000_000_000_000_000, 8_000_000_000_000_000);
                    if let (Ok(f2), Ok(c2)) = (fi::Instant::from_epoch_milliseconds(ms2), Instant::from_epoch_milliseconds(ms2)) {
                        cx.pair("ffi", "Instant::until", fcall(|| fi_.until(&f2, o.f_diff())).map(|x| o_dur_f(&x)), call(|| ci_.until(&c2, o.c_diff()?)).map(|x| o_dur_c(&x)));
                        cx.pair("ffi", "Instant::since", fcall(|| fi_.since(&f2, o.f_diff())).map(|x| o_dur_f(&x)), call(|| ci_.since(&c2, o.c_diff()?)).map(|x| o_dur_c(&x)));
                    }
                    cx.pair("ffi", "Instant::round", fcall(|| fi_.round(o.f_round())).map(|x| x.epoch_milliseconds()), call(|| ci_.round(o.c_round()?)).map(|x| x.epoch_milliseconds()));
                }
            }
            // ------------------------------------------------------------ FFI: year-month, month-day, calendar
            7 => {
                let refd = if r.bool() { Some(d) } else { None };
                let fym = fcall(|| fpym::PlainYearMonth::create_with_overflow(y, mo, refd, &fcal, overflow_pair(ovi).0));
                let cym = call(|| PlainYearMonth::new_with_overflow(y, mo, refd, cal.clone(), overflow_pair(ovi).1));
                cx.pair("ffi", "PlainYearMonth::create_with_overflow", fcall(|| fpym::PlainYearMonth::create_with_overflow(y, mo, refd, &fcal, overflow_pair(ovi).0)).map(|x| (x.iso_year(), x.iso_month())), call(|| PlainYearMonth::new_with_overflow(y, mo, refd, cal.clone(), overflow_pair(ovi).1)).map(|x| (x.iso_year(), x.iso_month())));
                if let (Out::Ok(fym), Out::Ok(cym)) = (fym, cym) {
                    macro_rules! acc {
                        ($name:literal, $f:expr, $c:expr) => {
                            cx.pair("ffi", $name, call_inf(|| $f), call_inf(|| $c));
                        };
                    }
                    acc!("PlainYearMonth::iso_year", fym.iso_year(), cym.iso_year());
                    acc!("PlainYearMonth::iso_month", fym.iso_month(), cym.iso_month());
                    acc!("PlainYearMonth::padded_iso_year_string", written(|w| fym.padded_iso_year_string(w)), cym.padded_iso_year_string());
                    acc!("PlainYearMonth::year", fym.year(), cym.year());
                    acc!("PlainYearMonth::month", fym.month(), cym.month());
                    acc!("PlainYearMonth::month_code", written(|w| fym.month_code(w)), cym.month_code().as_str().to_string());
                    acc!("PlainYearMonth::in_leap_year", fym.in_leap_year(), cym.in_leap_year());
                    acc!("PlainYearMonth::days_in_month", fym.days_in_month(), cym.days_in_month());
                    acc!("PlainYearMonth::days_in_year", fym.days_in_year(), cym.days_in_year());
                    acc!("PlainYearMonth::months_in_year", fym.months_in_year(), cym.months_in_year());
                    acc!("PlainYearMonth::era", written(|w| fym.era(w)), cym.era().map(|e| e.as_str().to_string()).unwrap_or_default());
                    acc!("PlainYearMonth::era_year", fym.era_year(), cym.era_year());
                    acc!("PlainYearMonth::calendar", fym.calendar().identifier().to_string(), cym.calendar().identifier().to_string());
                    if let (Some(df), Some(dc)) = (&dur_f, &dur_c) {
                        cx.pair("ffi", "PlainYearMonth::add", fcall(|| fym.add(df, overflow_pair(ovi).0)).map(|x| (x.iso_year(), x.iso_month())), call(|| cym.add(dc, overflow_pair(ovi).1)).map(|x| (x.iso_year(), x.iso_month())));
                        cx.pair("ffi", "PlainYearMonth::subtract", fcall(|| fym.subtract(df, overflow_pair(ovi).0)).map(|x| (x.iso_year(), x.iso_month())), call(|| cym.subtract(dc, overflow_pair(ovi).1)).map(|x| (x.iso_year(), x.iso_month())));
                    }
                    let (y2, m2) = (r.range(-3000, 4000) as i32, r.range(1, 12) as u8);
                    if let (Ok(f2), Ok(c2)) = (fpym::PlainYearMonth::create_with_overflow(y2, m2, None, &fcal, fo::ArithmeticOverflow::Constrain), PlainYearMonth::new_with_overflow(y2, m2, None, cal.clone(), ArithmeticOverflow::Constrain)) {
                        cx.pair("ffi", "PlainYearMonth::until", fcall(|| fym.until(&f2, o.f_diff())).map(|x| o_dur_f(&x)), call(|| cym.until(&c2, o.c_diff()?)).map(|x| o_dur_c(&x)));
                        cx.pair("ffi", "PlainYearMonth::since", fcall(|| fym.since(&f2, o.f_diff())).map(|x| o_dur_f(&x)), call(|| cym.since(&c2, o.c_diff()?)).map(|x| o_dur_c(&x)));
                    }
                    cx.pair("ffi", "PlainYearMonth::to_plain_date", fcall(|| fym.to_plain_date()).map(|x| o_date_f(&x)), call(|| cym.to_plain_date()).map(|x| o_date_c(&x)));
                    let wm = if r.bool() { Some(mo) } else { None };
                    let fpart = fpd::PartialDate { year: opt(Some(y.saturating_add(1))), month: opt(wm), month_code: "".as_bytes().into(), day: opt(None), era: "".as_bytes().into(), era_year: opt(None), calendar: &fcal };
                    let cpart = PartialDate { year: Some(y.saturating_add(1)), month: wm, calendar: cal.clone(), ..Default::default() };
                    cx.pair("ffi", "PlainYearMonth::with", fcall(|| fym.with(fpart, fov(ov_opt))).map(|x| (x.iso_year(), x.iso_month())), call(|| cym.with(cpart, cov(ov_opt))).map(|x| (x.iso_year(), x.iso_month())));
                }
                let ry = if r.bool() { Some(y) } else { None };
                let fmd = fcall(|| fpmd::PlainMonthDay::create_with_overflow(mo, d, &fcal, overflow_pair(ovi).0, ry));
                let cmd = call(|| PlainMonthDay::new_with_overflow(mo, d, cal.clone(), overflow_pair(ovi).1, ry));
                cx.pair("ffi", "PlainMonthDay::create_with_overflow", fcall(|| fpmd::PlainMonthDay::create_with_overflow(mo, d, &fcal, overflow_pair(ovi).0, ry)).map(|x| (x.iso_year(), x.iso_month(), x.iso_day())), call(|| PlainMonthDay::new_with_overflow(mo, d, cal.clone(), overflow_pair(ovi).1, ry)).map(|x| (x.iso_year(), x.iso_month(), x.iso_day())));
                if let (Out::Ok(fmd), Out::Ok(cmd)) = (fmd, cmd) {
                    cx.pair("ffi", "PlainMonthDay::iso_year", call_inf(|| fmd.iso_year()), call_inf(|| cmd.iso_year()));
                    cx.pair("ffi", "PlainMonthDay::iso_month", call_inf(|| fmd.iso_month()), call_inf(|| cmd.iso_month()));
                    cx.pair("ffi", "PlainMonthDay::iso_day", call_inf(|| fmd.iso_day()), call_inf(|| cmd.iso_day()));
                    cx.pair("ffi", "PlainMonthDay::month_code", call_inf(|| written(|w| fmd.month_code(w))), call_inf(|| cmd.month_code().as_str().to_string()));
                    cx.pair("ffi", "PlainMonthDay::calendar", call_inf(|| fmd.calendar().identifier().to_string()), call_inf(|| cmd.calendar().identifier().to_string()));
                    cx.pair("ffi", "PlainMonthDay::to_plain_date", fcall(|| fmd.to_plain_date()).map(|x| o_date_f(&x)), call(|| cmd.to_plain_date()).map(|x| o_date_c(&x)));
                    let fpart = fpd::PartialDate { year: opt(None), month: opt(Some(mo)), month_code: "".as_bytes().into(), day: opt(Some(d)), era: "".as_bytes().into(), era_year: opt(None), calendar: &fcal };
                    let cpart = PartialDate { month: Some(mo), day: Some(d), calendar: cal.clone(), ..Default::default() };
                    cx.pair("ffi", "PlainMonthDay::with", fcall(|| fmd.with(fpart, overflow_pair(ovi).0)).map(|x| (x.iso_year(), x.iso_month(), x.iso_day())), call(|| cmd.with(cpart, overflow_pair(ovi).1)).map(|x| (x.iso_year(), x.iso_month(), x.iso_day())));
                }
                // calendar constructors
                let id = if r.bool() { cal_id.to_uppercase() } else { format!("{cal_id}{}", if r.chance(1, 3) { "x" } else { "" }) };
                cx.pair("ffi", "Calendar::from_utf8", fcall(|| fc::Calendar::from_utf8(id.as_bytes())).map(|c| c.identifier().to_string()), call(|| Calendar::from_utf8(id.as_bytes())).map(|c| c.identifier().to_string()));
            }
            // ------------------------------------------------------------ compiled-data layer: ZonedDateTime
            8 => {
                let mut tzid = *r.pick(&TZS);
                let t = match r.below(7) {
                    // within two days of either end of the instant range (the first / last representable local day)
                    6 => {
                        let side: i128 = if r.bool() { 1 } else { -1 };
                        side * (MAX_INSTANT - *r.pick(&[0i128, 1, 3_600_000_000_000, 19_800_000_000_000, 28_800_000_000_000, 86_399_999_999_999, 86_400_000_000_000, 90_000_000_000_000]) - if r.bool() { 0 } else { r.range128(0, 172_800_000_000_000) })
                    }
                    // within a day and a half of a transition of any zone of the database (days whose midnight is skipped or
                    // repeated, short and long days): the wrappers must forward to exactly their own core method there too
                    5 if !midnight_gaps.is_empty() => {
                        // a day whose midnight is skipped by a gap that starts before midnight: its first instant is the end
                        // of the gap, not "00:00 resolved compatibly"
                        let (zi, tt) = *r.pick(&midnight_gaps);
                        tzid = real_zones[zi].name.as_str();
                        cx.rep.hit("compiled/day-with-skipped-midnight");
                        tt as i128 * 1_000_000_000 + r.range128(-3_600, 80_000) * 1_000_000_000
                    }
                    4 | 5 if !real_zones.is_empty() => {
                        let z = r.pick(&real_zones);
                        tzid = z.name.as_str();
                        z.trans[r.below(z.trans.len() as u64) as usize].0 as i128 * 1_000_000_000 + if r.bool() { r.range128(-129_600, 129_600) * 1_000_000_000 } else { *r.pick(&[-1i128, 0, 1, 1_000_000_000, -1_000_000_000]) }
                    }
                    0 => r.range128(-MAX_INSTANT, MAX_INSTANT),
                    1 => *r.pick(&[1_615_705_200i128, 1_636_264_800, 1_325_239_200, 1_301_752_800, 1_317_482_000]) * 1_000_000_000 + r.range128(-7_200_000_000_000, 7_200_000_000_000),
                    _ => r.range128(-2_000_000_000_000_000_000, 4_000_000_000_000_000_000),
                };
                cx.case["zone"] = json!(tzid);
                cx.case["instant_ns"] = json!(t.to_string());
                let Out::Ok(z) = call(|| ZonedDateTime::try_new(t, cal.clone(), TimeZone::try_from_str(tzid)?)) else { continue };
                macro_rules! zp {
                    ($name:literal, $w:expr, $c:expr) => {
                        cx.pair("compiled", $name, call(|| $w), call(|| $c));
                    };
                }
                zp!("ZonedDateTime::year", z.year(), z.year_with_provider(&fresh));
                zp!("ZonedDateTime::month", z.month(), z.month_with_provider(&fresh));
                zp!("ZonedDateTime::month_code", z.month_code().map(|m| m.as_str().to_string()), z.month_code_with_provider(&fresh).map(|m| m.as_str().to_string()));
                zp!("ZonedDateTime::day", z.day(), z.day_with_provider(&fresh));
                zp!("ZonedDateTime::hour", z.hour(), z.hour_with_provider(&fresh));
                zp!("ZonedDateTime::minute", z.minute(), z.minute_with_provider(&fresh));
                zp!("ZonedDateTime::second", z.second(), z.second_with_provider(&fresh));
                zp!("ZonedDateTime::millisecond", z.millisecond(), z.millisecond_with_provider(&fresh));
                zp!("ZonedDateTime::microsecond", z.microsecond(), z.microsecond_with_provider(&fresh));
                zp!("ZonedDateTime::nanosecond", z.nanosecond(), z.nanosecond_with_provider(&fresh));
                zp!("ZonedDateTime::offset", z.offset(), z.offset_with_provider(&fresh));
                zp!("ZonedDateTime::offset_nanoseconds", z.offset_nanoseconds(), z.offset_nanoseconds_with_provider(&fresh));
                zp!("ZonedDateTime::era", z.era().map(|e| e.map(|x| x.as_str().to_string())), z.era_with_provider(&fresh).map(|e| e.map(|x| x.as_str().to_string())));
                zp!("ZonedDateTime::era_year", z.era_year(), z.era_year_with_provider(&fresh));
                zp!("ZonedDateTime::day_of_week", z.day_of_week(), z.day_of_week_with_provider(&fresh));
                zp!("ZonedDateTime::day_of_year", z.day_of_year(), z.day_of_year_with_provider(&fresh));
                zp!("ZonedDateTime::week_of_year", z.week_of_year(), z.week_of_year_with_provider(&fresh));
                zp!("ZonedDateTime::year_of_week", z.year_of_week(), z.year_of_week_with_provider(&fresh));
                zp!("ZonedDateTime::days_in_week", z.days_in_week(), z.days_in_week_with_provider(&fresh));
                zp!("ZonedDateTime::days_in_month", z.days_in_month(), z.days_in_month_with_provider(&fresh));
                zp!("ZonedDateTime::days_in_year", z.days_in_year(), z.days_in_year_with_provider(&fresh));
                zp!("ZonedDateTime::months_in_year", z.months_in_year(), z.months_in_year_with_provider(&fresh));
                zp!("ZonedDateTime::in_leap_year", z.in_leap_year(), z.in_leap_year_with_provider(&fresh));
                zp!("ZonedDateTime::hours_in_day", z.hours_in_day().map(f64::to_bits), z.hours_in_day_with_provider(&fresh).map(f64::to_bits));
                zp!("ZonedDateTime::start_of_day", z.start_of_day().map(|x| x.epoch_nanoseconds().as_i128()), z.start_of_day_with_provider(&fresh).map(|x| x.epoch_nanoseconds().as_i128()));
                zp!("ZonedDateTime::to_plain_date", z.to_plain_date().map(|x| o_date_c(&x)), z.to_plain_date_with_provider(&fresh).map(|x| o_date_c(&x)));
                zp!("ZonedDateTime::to_plain_time", z.to_plain_time().map(|x| o_time_c(&x)), z.to_plain_time_with_provider(&fresh).map(|x| o_time_c(&x)));
                zp!("ZonedDateTime::to_plain_datetime", z.to_plain_datetime().map(|x| o_dt_c(&x)), z.to_plain_datetime_with_provider(&fresh).map(|x| o_dt_c(&x)));
                let dirn = r.bool();
                let dir = || if dirn { temporal_rs::provider::TransitionDirection::Next } else { temporal_rs::provider::TransitionDirection::Previous };
                zp!("ZonedDateTime::get_time_zone_transition", z.get_time_zone_transition(dir()).map(|x| x.map(|y| y.epoch_nanoseconds().as_i128())), z.get_time_zone_transition_with_provider(dir(), &fresh).map(|x| x.map(|y| y.epoch_nanoseconds().as_i128())));
                if let Ok(tm) = PlainTime::new(h.min(23), mi.min(59), s.min(59), ms.min(999), us.min(999), ns.min(999)) {
                    zp!("ZonedDateTime::with_plain_time", z.with_plain_time(tm).map(|x| x.epoch_nanoseconds().as_i128()), z.with_plain_time_and_provider(tm, &fresh).map(|x| x.epoch_nanoseconds().as_i128()));
                }
                if let Some(dc) = &dur_c {
                    zp!("ZonedDateTime::add", z.add(dc, cov(ov_opt)).map(|x| x.epoch_nanoseconds().as_i128()), z.add_with_provider(dc, cov(ov_opt), &fresh).map(|x| x.epoch_nanoseconds().as_i128()));
                    zp!("ZonedDateTime::subtract", z.subtract(dc, cov(ov_opt)).map(|x| x.epoch_nanoseconds().as_i128()), z.subtract_with_provider(dc, cov(ov_opt), &fresh).map(|x| x.epoch_nanoseconds().as_i128()));
                }
                let t2 = t + r.range128(-40_000_000, 40_000_000) * 1_000_000_000;
                if let Out::Ok(z2) = call(|| ZonedDateTime::try_new(t2, cal.clone(), z.timezone().clone())) {
                    zp!("ZonedDateTime::until", z.until(&z2, o.c_diff()?).map(|x| o_dur_c(&x)), z.until_with_provider(&z2, o.c_diff()?, &fresh).map(|x| o_dur_c(&x)));
                    zp!("ZonedDateTime::since", z.since(&z2, o.c_diff()?).map(|x| o_dur_c(&x)), z.since_with_provider(&z2, o.c_diff()?, &fresh).map(|x| o_dur_c(&x)));
                }
                let (dof, dtz, dcal) = (r.bool(), r.below(3), r.below(4));
                let a = || (if dof { DisplayOffset::Auto } else { DisplayOffset::Never }, [DisplayTimeZone::Auto, DisplayTimeZone::Never, DisplayTimeZone::Critical][dtz as usize], dispcal_pair(dcal).1);
                zp!("ZonedDateTime::to_ixdtf_string", z.to_ixdtf_string(a().0, a().1, a().2, p.c()), z.to_ixdtf_string_with_provider(a().0, a().1, a().2, p.c(), &fresh));
                if let Out::Ok(text) = call(|| z.to_ixdtf_string_with_provider(DisplayOffset::Auto, DisplayTimeZone::Auto, DisplayCalendar::Auto, ToStringRoundingOptions::default(), &fresh)) {
                    let (di, oi) = (r.below(4) as usize, r.below(4) as usize);
                    let dis = [Disambiguation::Compatible, Disambiguation::Earlier, Disambiguation::Later, Disambiguation::Reject][di];
                    let od = [OffsetDisambiguation::Use, OffsetDisambiguation::Prefer, OffsetDisambiguation::Ignore, OffsetDisambiguation::Reject][oi];
                    zp!("ZonedDateTime::from_str", ZonedDateTime::from_str(&text, dis, od).map(|x| x.epoch_nanoseconds().as_i128()), ZonedDateTime::from_str_with_provider(&text, dis, od, &fresh).map(|x| x.epoch_nanoseconds().as_i128()));
                    zp!("RelativeTo::try_from_str", RelativeTo::try_from_str(&text).map(|x| format!("{x:?}")), RelativeTo::try_from_str_with_provider(&text, &fresh).map(|x| format!("{x:?}")));
                }
            }
            // ------------------------------------------------------------ compiled-data layer: Duration, Instant, dates
            _ => {
                let tzid = *r.pick(&TZS);
                cx.case["zone"] = json!(tzid);
                let t = *r.pick(&[1_615_705_200i128, 1_636_264_800, 1_710_054_000, 1_301_752_800]) * 1_000_000_000 + r.range128(-90_000_000_000_000, 90_000_000_000_000);
                let rel = match r.below(3) {
                    0 => None,
                    1 => call(|| PlainDate::new(r.range(1900, 2100) as i32, r.range(1, 12) as u8, r.range(1, 31) as u8, cal.clone())).ok().map(RelativeTo::PlainDate),
                    _ => call(|| ZonedDateTime::try_new(t, cal.clone(), TimeZone::try_from_str(tzid)?)).ok().map(RelativeTo::ZonedDateTime),
                };
                cx.case["relative_to"] = json!(format!("{rel:?}").chars().take(120).collect::<String>());
                if let Some(dc) = &dur_c {
                    macro_rules! zp {
                        ($name:literal, $w:expr, $c:expr) => {
                            cx.pair("compiled", $name, call(|| $w), call(|| $c));
                        };
                    }
                    zp!("Duration::round", dc.round(o.c_round()?, rel.clone()).map(|x| o_dur_c(&x)), dc.round_with_provider(o.c_round()?, rel.clone(), &fresh).map(|x| o_dur_c(&x)));
                    let tu = r.below(11);
                    zp!("Duration::total", dc.total(unit_pair(tu).1, rel.clone()).map(|x| x.as_inner().to_bits()), dc.total_with_provider(unit_pair(tu).1, rel.clone(), &fresh).map(|x| x.as_inner().to_bits()));
                    let free2 = r.bool();
                    let v2 = gen_fields(r, free2);
                    if let Ok(c2) = dur10(v2) {
                        zp!("Duration::compare", dc.compare(&c2, rel.clone()), dc.compare_with_provider(&c2, rel.clone(), &fresh));
                    }
                }
                if let Out::Ok(i) = call(|| Instant::try_new(t)) {
                    let tz = if r.bool() { TimeZone::try_from_str(tzid).ok() } else { None };
                    cx.pair("compiled", "Instant::to_ixdtf_string", call(|| i.to_ixdtf_string(tz.as_ref(), p.c())), call(|| i.to_ixdtf_string_with_provider(tz.as_ref(), p.c(), &fresh)));
                }
                if let (Ok(tz), Out::Ok(pd)) = (TimeZone::try_from_str(tzid), call(|| PlainDate::new(y.clamp(1800, 2200), mo.clamp(1, 12), d.clamp(1, 28), cal.clone()))) {
                    let tm = if r.bool() { PlainTime::new(h.min(23), mi.min(59), s.min(59), 0, 0, 0).ok() } else { None };
                    if let Out::Ok(pdt) = call(|| pd.to_plain_date_time(tm)) {
                        let dis = [Disambiguation::Compatible, Disambiguation::Earlier, Disambiguation::Later, Disambiguation::Reject][r.below(4) as usize];
                        cx.pair("compiled", "PlainDateTime::to_zoned_date_time", call(|| pdt.to_zoned_date_time(&tz, dis)).map(|x| x.epoch_nanoseconds().as_i128()), call(|| pdt.to_zoned_date_time_with_provider(&tz, dis, &fresh)).map(|x| x.epoch_nanoseconds().as_i128()));
                    }
                }
            }
        }
        cx.rep.nontrivial(fp!(scenario, sub));
    }
    rep.evaluations += evals;
    rep.add("cases", evals);
    let fns = rep.extra.keys().filter(|k| k.starts_with("fn:")).count() as u64;
    rep.add("functions_paired_in_this_shard", fns);
    for c in ["cases", "pairs/ffi", "pairs/compiled"] {
        rep.require(c);
    }
}
