pub mod c01;

use crate::core::Report;

pub fn dispatch(p: &str, rep: &mut Report) -> bool {
    match p {
        "C01" => c01::run(rep),
        _ => return false,
    }
    true
}
