pub mod c01;
pub mod c02;
pub mod c03;
pub mod c04;
pub mod c05;
pub mod c06;
pub mod c07;
pub mod c08;
pub mod c09;
pub mod c10;
pub mod c11;
pub mod c12;
pub mod c13;
pub mod c14;
pub mod c15;
pub mod c16;
pub mod c17;
pub mod c18;
pub mod c19;
pub mod c20;

use crate::core::Report;

pub fn dispatch(p: &str, rep: &mut Report) -> bool {
    match p {
        "C01" => c01::run(rep),
        "C02" => c02::run(rep),
        "C03" => c03::run(rep),
        "C04" => c04::run(rep),
        "C05" => c05::run(rep),
        "C06" => c06::run(rep),
        "C07" => c07::run(rep),
        "C08" => c08::run(rep),
        "C09" => c09::run(rep),
        "C10" => c10::run(rep),
        "C11" => c11::run(rep),
        "C12" => c12::run(rep),
        "C13" => c13::run(rep),
        "C14" => c14::run(rep),
        "C15" => c15::run(rep),
        "C16" => c16::run(rep),
        "C17" => c17::run(rep),
        "C18" => c18::run(rep),
        "C19" => c19::run(rep),
        "C20" => c20::run(rep),
        _ => return false,
    }
    true
}
