//! C02 - every value produced is in range; out-of-range results are RangeErrors; the boundary is exact.
//!
//! Two monitors. (1) A validity invariant evaluated on every value any call of the workload returns (instant within
//! +-8.64e21 ns, date / date-time / year-month within the ISO limits with valid fields, time fields in range, duration
//! sign-uniform and within the duration limits). (2) Boundary exactness: operands within a few units of every range
//! boundary (and far beyond), the exact result computed by the reference models; the call must succeed iff the exact
//! result is representable and then return exactly it.

use crate::core::*;
use crate::fp;
use crate::mon::c05::model_add;
use crate::refmodel::civil::*;
use crate::refmodel::date::add_date;
use crate::refmodel::dur;
use crate::util::*;
use serde_json::json;
use std::str::FromStr;
use temporal_rs::error::ErrorKind;
use temporal_rs::options::*;
use temporal_rs::{Calendar, Duration, Instant, PlainDate, PlainDateTime, PlainMonthDay, PlainTime, PlainYearMonth, TimeZone, ZonedDateTime};

const MAXI: i128 = MAX_INSTANT;
const DT_LIMIT: i128 = MAX_INSTANT + NS_PER_DAY;

// ---------------------------------------------------------------------------------------- validity invariants

fn v_instant(i: &Instant) -> Result<(), String> {
    let n = i.epoch_nanoseconds().as_i128();
    if n.abs() > MAXI {
        return Err(format!("instant {n} ns outside +-8.64e21"));
    }
    if i.epoch_milliseconds() as i128 != n.div_euclid(1_000_000) {
        return Err(format!("epoch_milliseconds {} is not floor({n}/1e6)", i.epoch_milliseconds()));
    }
    Ok(())
}
fn v_date(d: &PlainDate) -> Result<(), String> {
    let (y, m, dd) = (d.iso_year() as i64, d.iso_month(), d.iso_day());
    if !(1..=12).contains(&m) || dd < 1 || dd > dim(y, m) {
        return Err(format!("invalid ISO fields {y}-{m}-{dd}"));
    }
    let k = days_from_civil(y, m, dd);
    if !(MIN_DAY..=MAX_DAY).contains(&k) {
        return Err(format!("date {y}-{m}-{dd} outside the ISO limits"));
    }
    Ok(())
}
fn v_time(t: &PlainTime) -> Result<(), String> {
    if t.hour() > 23 || t.minute() > 59 || t.second() > 59 || t.millisecond() > 999 || t.microsecond() > 999 || t.nanosecond() > 999 {
        return Err(format!("invalid time fields {t:?}"));
    }
    Ok(())
}
fn v_datetime(d: &PlainDateTime) -> Result<(), String> {
    let (y, m, dd) = (d.iso_year() as i64, d.iso_month(), d.iso_day());
    if !(1..=12).contains(&m) || dd < 1 || dd > dim(y, m) || d.hour() > 23 || d.minute() > 59 || d.second() > 59 || d.millisecond() > 999 || d.microsecond() > 999 || d.nanosecond() > 999 {
        return Err(format!("invalid fields {d:?}"));
    }
    let l = pdt_local_ns(d);
    if l <= -DT_LIMIT || l >= DT_LIMIT {
        return Err(format!("date-time {l} ns outside the limits"));
    }
    Ok(())
}
fn v_ym(d: &PlainYearMonth) -> Result<(), String> {
    let (y, m) = (d.iso_year() as i64, d.iso_month());
    if !(1..=12).contains(&m) {
        return Err(format!("invalid month {m}"));
    }
    // -271821-04 .. +275760-09
    if (y, m) < (-271_821, 4) || (y, m) > (275_760, 9) {
        return Err(format!("year-month {y}-{m} outside the limits"));
    }
    Ok(())
}
fn v_md(d: &PlainMonthDay) -> Result<(), String> {
    let (y, m, dd) = (d.iso_year() as i64, d.iso_month(), d.iso_day());
    if !(1..=12).contains(&m) || dd < 1 || dd > dim(y, m) {
        return Err(format!("invalid month-day {y}-{m}-{dd}"));
    }
    Ok(())
}
fn v_duration(d: &Duration) -> Result<(), String> {
    let f = dur_fields(d);
    if !dur::is_valid(&f) {
        return Err(format!("invalid duration {f:?}"));
    }
    if f.iter().any(|x| x.fract() != 0.0) {
        return Err(format!("non-integral duration field {f:?}"));
    }
    Ok(())
}
fn v_zoned(z: &ZonedDateTime) -> Result<(), String> {
    let n = z.epoch_nanoseconds().as_i128();
    if n.abs() > MAXI {
        return Err(format!("zoned instant {n} outside the range"));
    }
    Ok(())
}

struct Cx<'a> {
    rep: &'a mut Report,
    case: serde_json::Value,
}
impl Cx<'_> {
    /// validity of a successful result
    fn ok<T>(&mut self, op: &str, out: &Out<T>, valid: impl Fn(&T) -> Result<(), String>) {
        self.rep.hit("validity/evaluated");
        match out {
            Out::Ok(v) => {
                if let Err(why) = valid(v) {
                    self.rep.violation("C02.valid_output", op, "invalid-value-returned", self.case.clone(), why, "a well-formed value inside the representable range".into());
                }
            }
            o if o.is_broken() => self.rep.inconclusive("C02.valid_output", &o.kind_str()),
            _ => {}
        }
    }
    /// exact boundary: expected Some(x) -> Ok(x), None -> RangeError
    fn exact<T: PartialEq + std::fmt::Debug>(&mut self, op: &str, shape: &str, got: Out<T>, expected: Option<T>) {
        self.rep.hit("boundary/evaluated");
        match (&got, &expected) {
            (g, _) if g.is_broken() => self.rep.inconclusive("C02.boundary", &g.kind_str()),
            (Out::Ok(g), Some(e)) if g == e => {}
            (Out::Err(ErrorKind::Range, _), None) => {}
            _ => {
                let kind = match (&got, &expected) {
                    (Out::Ok(_), None) => "value-instead-of-RangeError",
                    (Out::Ok(_), Some(_)) => "different-value",
                    (Out::Err(ErrorKind::Range, _), Some(_)) => "RangeError-for-representable-result",
                    _ => "wrong-error-kind",
                };
                self.rep.violation("C02.boundary", op, &format!("({shape},{kind})"), self.case.clone(), got.show(), format!("{expected:?}"));
            }
        }
    }
}

fn small_or_huge(r: &mut Rng) -> i128 {
    match r.below(6) {
        0 => r.range128(-3, 3),
        1 => r.range128(-2_000, 2_000),
        2 => r.range128(-2_000_000_000_000, 2_000_000_000_000),
        3 => r.range128(-3 * NS_PER_DAY, 3 * NS_PER_DAY),
        4 => r.range128(-2 * MAXI, 2 * MAXI),
        _ => *r.pick(&[1i128, -1, 1_000, 1_000_000, 1_000_000_000, 60_000_000_000, 3_600_000_000_000, NS_PER_DAY]) * r.range128(-3, 3),
    }
}

/// ten fields holding exactly `total` nanoseconds as a time-only duration (largest unit chosen at random), if representable
fn time_fields(r: &mut Rng, total: i128) -> Option<[f64; 10]> {
    let u = *r.pick(&[Unit::Hour, Unit::Minute, Unit::Second, Unit::Millisecond, Unit::Microsecond, Unit::Nanosecond]);
    let b = dur::balance(total, u);
    let f = dur::fields_f64(0, 0, 0, b);
    // only when every field is exactly representable
    if f.iter().all(|x| x.abs() < 9_007_199_254_740_992.0) && dur::time_total(&f) == total {
        Some(f)
    } else {
        None
    }
}

pub fn run(rep: &mut Report) {
    let mut rng = rep.cfg.rng("c02");
    let n = rep.cfg.budget(6_000_000, 300_000_000);
    let iso = Calendar::default();
    let fs = temporal_rs::tzdb::FsTzdbProvider::default();
    let mut evals = 0u64;
    for _ in 0..n {
        let scenario = rng.below(9);
        let sub = rng.u64();
        if !rep.begin() {
            continue;
        }
        evals += 1;
        let mut rr = Rng::new(sub, "c02-case", 0);
        let r = &mut rr;
        let mut cx = Cx { rep, case: json!({"scenario": scenario}) };
        match scenario {
            // ------------------------------------------------ instants at the limits
            0 | 1 => {
                let side: i128 = if r.bool() { 1 } else { -1 };
                let t = side * (MAXI - r.range128(0, 3) * *r.pick(&[1i128, 1, 1_000, 1_000_000_000, NS_PER_DAY])) + if r.chance(1, 5) { side * r.range128(0, 4) } else { 0 };
                cx.case["instant_ns"] = json!(t.to_string());
                let inst = call(|| Instant::try_new(t));
                cx.exact("Instant::try_new", if t.abs() > MAXI { "beyond-limit" } else { "at-limit" }, call(|| Instant::try_new(t)).map(|i| i.epoch_nanoseconds().as_i128()), if t.abs() <= MAXI { Some(t) } else { None });
                cx.ok("Instant::try_new", &inst, v_instant);
                if let Out::Ok(i) = inst {
                    let delta = small_or_huge(r);
                    cx.case["delta_ns"] = json!(delta.to_string());
                    if let Some(f) = time_fields(r, delta) {
                        if let Ok(d) = dur10(f) {
                            let exp = |x: i128| if x.abs() <= MAXI { Some(x) } else { None };
                            let shape = if (t + delta).abs() > MAXI { "result-beyond-limit" } else if (t + delta).abs() == MAXI { "result-at-limit" } else { "result-inside" };
                            let a = call(|| i.add(d));
                            cx.ok("Instant::add", &a, v_instant);
                            cx.exact("Instant::add", shape, a.map(|x| x.epoch_nanoseconds().as_i128()), exp(t + delta));
                            let s = call(|| i.subtract(d));
                            cx.ok("Instant::subtract", &s, v_instant);
                            cx.exact("Instant::subtract", if (t - delta).abs() > MAXI { "result-beyond-limit" } else { "result-inside" }, s.map(|x| x.epoch_nanoseconds().as_i128()), exp(t - delta));
                        }
                    }
                    // rounding near the limit
                    let (u, len) = *r.pick(&[(Unit::Hour, 3_600_000_000_000i128), (Unit::Minute, 60_000_000_000), (Unit::Second, 1_000_000_000), (Unit::Millisecond, 1_000_000)]);
                    let inc = *r.pick(&[1u32, 2, 3, 5, 6, 10, 12, 15, 20, 30]);
                    let m = *r.pick(&crate::refmodel::round::ALL_MODES);
                    let rounded = crate::refmodel::round::round_int(t, len * inc as i128, m).0;
                    let valid_inc = match u {
                        Unit::Hour => 24 % inc == 0,
                        Unit::Minute | Unit::Second => (60 * if u == Unit::Minute { 24 } else { 1440 }) % inc as i128 == 0 && 86_400_000_000_000 % (len * inc as i128) == 0,
                        _ => 86_400_000_000_000 % (len * inc as i128) == 0,
                    };
                    if valid_inc {
                        let g = call(|| i.round(round_opts(None, Some(u), Some(m.to_lib()), Some(inc))));
                        cx.ok("Instant::round", &g, v_instant);
                        cx.exact("Instant::round", if rounded.abs() > MAXI { "rounds-beyond-limit" } else { "rounds-inside" }, g.map(|x| x.epoch_nanoseconds().as_i128()), if rounded.abs() <= MAXI { Some(rounded) } else { None });
                    }
                    // differences between extreme instants are valid durations
                    let o = side * -1 * (MAXI - r.range128(0, 5));
                    if let Out::Ok(oi) = call(|| Instant::try_new(o)) {
                        for lu in [Unit::Hour, Unit::Second, Unit::Nanosecond] {
                            let d = call(|| i.until(&oi, diff_largest(lu)));
                            cx.ok("Instant::until", &d, v_duration);
                            let d = call(|| i.since(&oi, diff_largest(lu)));
                            cx.ok("Instant::since", &d, v_duration);
                        }
                    }
                    let ms = t.div_euclid(1_000_000) as i64 + r.range(-2, 2);
                    let g = call(|| Instant::from_epoch_milliseconds(ms));
                    cx.ok("Instant::from_epoch_milliseconds", &g, v_instant);
                    cx.exact("Instant::from_epoch_milliseconds", "near-limit", g.map(|x| x.epoch_nanoseconds().as_i128()), if (ms as i128 * 1_000_000).abs() <= MAXI { Some(ms as i128 * 1_000_000) } else { None });
                }
            }
            // ------------------------------------------------ dates at the limits
            2 | 3 => {
                let k = match r.below(5) {
                    0 => r.range(-20_000, 30_000), // an ordinary date: wrapped day counts land inside the range from here
                    _ => (if r.bool() { MAX_DAY - r.range(0, 40) } else { MIN_DAY + r.range(0, 40) }) + if r.chance(1, 6) { r.range(-3, 3) } else { 0 },
                };
                let (y, m, d) = civil_from_days(k);
                cx.case["date"] = json!(format!("{}-{:02}-{:02}", fmt_year(y), m, d));
                let in_range = (MIN_DAY..=MAX_DAY).contains(&k);
                let made = call(|| PlainDate::try_new(y as i32, m, d, iso.clone()));
                cx.ok("PlainDate::try_new", &made, v_date);
                cx.exact("PlainDate::try_new", if in_range { "inside" } else { "beyond-limit" }, call(|| PlainDate::try_new(y as i32, m, d, iso.clone())).map(|p| pdate_days(&p)), if in_range { Some(k) } else { None });
                if let Out::Ok(pd) = made {
                    let v = match r.below(6) {
                        0 => [0.0, 0.0, 0.0, r.range(-80, 80) as f64, 0.0, 0.0, 0.0, 0.0, 0.0, 0.0],
                        1 => [0.0, 0.0, r.range(-12, 12) as f64, r.range(-10, 10) as f64, 0.0, 0.0, 0.0, 0.0, 0.0, 0.0],
                        2 => [0.0, r.range(-3, 3) as f64, 0.0, r.range(-40, 40) as f64, 0.0, 0.0, 0.0, 0.0, 0.0, 0.0],
                        3 => [r.range(-2, 2) as f64, r.range(-13, 13) as f64, 0.0, 0.0, 0.0, 0.0, 0.0, 0.0, 0.0, 0.0],
                        4 => [*r.pick(&[0.0, 547_581.0, -547_581.0, 547_582.0]), 0.0, 0.0, *r.pick(&[0.0, 200_000_000.0, 200_000_001.0, -200_000_001.0, 1e10]), 0.0, 0.0, 0.0, 0.0, 0.0, 0.0],
                        _ => {
                            // day counts around the 32-bit boundaries, alone or as weeks x 7 + days
                            let total: i64 = *r.pick(&[1i64 << 31, -(1i64 << 31), 1i64 << 32, -(1i64 << 32), (1i64 << 32) + 3, -((1i64 << 32) + 3), 3 * (1i64 << 31)]) + r.range(-3, 3) + if r.bool() { 0 } else { r.range(-40, 40) };
                            if r.bool() {
                                [0.0, 0.0, 0.0, total as f64, 0.0, 0.0, 0.0, 0.0, 0.0, 0.0]
                            } else {
                                [0.0, 0.0, (total / 7) as f64, (total % 7) as f64, 0.0, 0.0, 0.0, 0.0, 0.0, 0.0]
                            }
                        }
                    };
                    let sign_ok = !(v.iter().any(|x| *x > 0.0) && v.iter().any(|x| *x < 0.0));
                    cx.case["duration"] = json!(format!("{v:?}"));
                    if sign_ok {
                        if let Ok(du) = dur10(v) {
                            for (neg, name) in [(false, "PlainDate::add"), (true, "PlainDate::subtract")] {
                                let s: i128 = if neg { -1 } else { 1 };
                                let exp = add_date((y, m, d), s * dur::exact(v[0]), s * dur::exact(v[1]), s * dur::exact(v[2]), s * dur::exact(v[3]), 0, false).ok().map(|(a, b, c)| days_from_civil(a, b, c));
                                let g = call(|| if neg { pd.subtract(&du, None) } else { pd.add(&du, None) });
                                cx.ok(name, &g, v_date);
                                cx.exact(name, if exp.is_none() { "result-beyond-limit" } else if exp == Some(MAX_DAY) || exp == Some(MIN_DAY) { "result-at-limit" } else { "result-inside" }, g.map(|p| pdate_days(&p)), exp);
                            }
                        }
                    }
                    // the whole range as a difference
                    let other = if r.bool() { MAX_DAY - r.range(0, 3) } else { MIN_DAY + r.range(0, 3) };
                    if let Out::Ok(od) = call(|| pdate_from_days(other)) {
                        for lu in [Unit::Day, Unit::Week, Unit::Month, Unit::Year] {
                            let dd = call(|| pd.until(&od, diff_largest(lu)));
                            cx.ok("PlainDate::until", &dd, v_duration);
                            let dd = call(|| pd.since(&od, diff_largest(lu)));
                            cx.ok("PlainDate::since", &dd, v_duration);
                        }
                    }
                    let ym = call(|| pd.to_plain_year_month());
                    cx.ok("PlainDate::to_plain_year_month", &ym, v_ym);
                    let md = call(|| pd.to_plain_month_day());
                    cx.ok("PlainDate::to_plain_month_day", &md, v_md);
                    let dt = call(|| pd.to_plain_date_time(None));
                    cx.ok("PlainDate::to_plain_date_time", &dt, v_datetime);
                    // midnight of the first representable date is not a representable date-time
                    cx.exact("PlainDate::to_plain_date_time", if k == MIN_DAY { "first-date-midnight" } else { "inside" }, dt.map(|x| pdt_local_ns(&x)), if k as i128 * NS_PER_DAY > -DT_LIMIT { Some(k as i128 * NS_PER_DAY) } else { None });
                    // the infallible conversion must not hand out an unrepresentable date-time either
                    let dt = call_inf(|| PlainDateTime::from(pd.clone()));
                    cx.ok("PlainDateTime::from(PlainDate)", &dt, v_datetime);
                    // into a zone, with an explicit time of day and at the start of the day
                    let tod = *r.pick(&[0i128, 0, 1, NS_PER_DAY - 1, 43_200_000_000_000, 3_600_000_000_000]);
                    let off_min = *r.pick(&[0i64, 0, 60, -60, 1439, -1439, 330, -420]);
                    let zone = if off_min == 0 { "UTC".to_string() } else { format!("{}{:02}:{:02}", if off_min < 0 { '-' } else { '+' }, off_min.abs() / 60, off_min.abs() % 60) };
                    cx.case["zone"] = json!(zone);
                    cx.case["time_of_day_ns"] = json!(tod.to_string());
                    if let (Ok(tz), Ok(time)) = (TimeZone::try_from_str(&zone), PlainTime::new((tod / 3_600_000_000_000) as u8, (tod / 60_000_000_000 % 60) as u8, (tod / 1_000_000_000 % 60) as u8, (tod / 1_000_000 % 1000) as u16, (tod / 1000 % 1000) as u16, (tod % 1000) as u16)) {
                        let local = k as i128 * NS_PER_DAY + tod;
                        let inst = local - off_min as i128 * 60_000_000_000;
                        let fits = local > -DT_LIMIT && local < DT_LIMIT && inst.abs() <= MAXI;
                        let g = call(|| pd.to_zoned_date_time_with_provider(tz.clone(), Some(time), &fs));
                        cx.ok("PlainDate::to_zoned_date_time(time)", &g, v_zoned);
                        cx.exact("PlainDate::to_zoned_date_time(time)", if fits { "inside" } else { "beyond-limit" }, g.map(|z| z.epoch_nanoseconds().as_i128()), if fits { Some(inst) } else { None });
                        let inst0 = k as i128 * NS_PER_DAY - off_min as i128 * 60_000_000_000;
                        let fits0 = inst0.abs() <= MAXI;
                        let g = call(|| pd.to_zoned_date_time_with_provider(tz.clone(), None, &fs));
                        cx.ok("PlainDate::to_zoned_date_time(start of day)", &g, v_zoned);
                        cx.exact("PlainDate::to_zoned_date_time(start of day)", if fits0 { "inside" } else { "beyond-limit" }, g.map(|z| z.epoch_nanoseconds().as_i128()), if fits0 { Some(inst0) } else { None });
                    }
                }
            }
            // ------------------------------------------------ date-times at the limits
            4 | 5 => {
                let side: i128 = if r.bool() { 1 } else { -1 };
                let l = side * (DT_LIMIT - 1 - r.range128(0, 3) * *r.pick(&[1i128, 1_000, 1_000_000_000, 3_600_000_000_000, NS_PER_DAY])) + if r.chance(1, 5) { side * r.range128(0, 3) } else { 0 };
                // a quarter of the time an ordinary receiver and a time part worth about a multiple of 2^31 days: far beyond
                // the range, but back near the receiver if a 32-bit day count wraps
                let wrap = r.chance(1, 4);
                let l = if wrap { r.range128(-1_000_000, 1_000_000) * NS_PER_DAY + r.range128(0, NS_PER_DAY - 1) } else { l };
                cx.case["local_ns"] = json!(l.to_string());
                let inside = l > -DT_LIMIT && l < DT_LIMIT;
                let made = call(|| pdt_from_local(l));
                cx.ok("PlainDateTime::try_new", &made, v_datetime);
                if (MIN_DAY as i128 * NS_PER_DAY..(MAX_DAY as i128 + 1) * NS_PER_DAY).contains(&l) {
                    cx.exact("PlainDateTime::try_new", if inside { "inside" } else { "beyond-limit" }, call(|| pdt_from_local(l)).map(|p| pdt_local_ns(&p)), if inside { Some(l) } else { None });
                }
                if let Out::Ok(pdt) = made {
                    let delta = if wrap { (if r.bool() { 1 } else { -1 }) * ((*r.pick(&[1i128 << 31, 1 << 32, 1 << 33, 3 << 31, 5 << 32, 24 << 32]) + r.range128(-3, 3)) * NS_PER_DAY + r.range128(-NS_PER_DAY, NS_PER_DAY)) } else { small_or_huge(r) / 4 };
                    let days = r.range(-3, 3);
                    if let Some(mut f) = time_fields(r, delta) {
                        if delta.signum() as i64 * days.signum() >= 0 || delta == 0 || days == 0 {
                            f[3] = days as f64;
                        }
                        cx.case["duration"] = json!(format!("{f:?}"));
                        if let Ok(du) = dur10(f) {
                            for (neg, name) in [(false, "PlainDateTime::add"), (true, "PlainDateTime::subtract")] {
                                let exp = model_add(l, &f, neg, false).ok();
                                let g = call(|| if neg { pdt.subtract(&du, None) } else { pdt.add(&du, None) });
                                cx.ok(name, &g, v_datetime);
                                cx.exact(name, if exp.is_none() { "result-beyond-limit" } else { "result-inside" }, g.map(|p| pdt_local_ns(&p)), exp);
                            }
                        }
                    }
                    // rounding up across the upper limit
                    let (u, len) = *r.pick(&[(Unit::Day, NS_PER_DAY), (Unit::Hour, 3_600_000_000_000i128), (Unit::Minute, 60_000_000_000), (Unit::Second, 1_000_000_000)]);
                    let m = *r.pick(&crate::refmodel::round::ALL_MODES);
                    // rounding acts on the (non-negative) time elapsed since midnight of the same day
                    let tod = l.rem_euclid(NS_PER_DAY);
                    let rounded = l - tod + crate::refmodel::round::round_int(tod, len, m).0;
                    let g = call(|| pdt.round(round_opts(None, Some(u), Some(m.to_lib()), None)));
                    cx.ok("PlainDateTime::round", &g, v_datetime);
                    let ok = rounded > -DT_LIMIT && rounded < DT_LIMIT;
                    cx.exact("PlainDateTime::round", if ok { "rounds-inside" } else { "rounds-beyond-limit" }, g.map(|p| pdt_local_ns(&p)), if ok { Some(rounded) } else { None });
                    let o = -side * (DT_LIMIT - 1 - r.range128(0, 5));
                    if let Out::Ok(od) = call(|| pdt_from_local(o)) {
                        for lu in [Unit::Year, Unit::Day, Unit::Hour, Unit::Nanosecond] {
                            let dd = call(|| pdt.until(&od, diff_largest(lu)));
                            cx.ok("PlainDateTime::until", &dd, v_duration);
                        }
                    }
                    let pd = call(|| pdt.to_plain_date());
                    cx.ok("PlainDateTime::to_plain_date", &pd, v_date);
                    let pt = call(|| pdt.to_plain_time());
                    cx.ok("PlainDateTime::to_plain_time", &pt, v_time);
                }
            }
            // ------------------------------------------------ year-months at the limits
            6 => {
                let (y, m) = if r.bool() { (275_760i32, r.range(7, 11) as u8) } else { (-271_821, r.range(2, 6) as u8) };
                cx.case["year_month"] = json!(format!("{y}-{m}"));
                let inside = (y as i64, m) >= (-271_821, 4) && (y as i64, m) <= (275_760, 9);
                let made = call(|| PlainYearMonth::new_with_overflow(y, m, None, iso.clone(), ArithmeticOverflow::Reject));
                cx.ok("PlainYearMonth::new_with_overflow", &made, v_ym);
                cx.exact("PlainYearMonth::new_with_overflow", if inside { "inside" } else { "beyond-limit" }, call(|| PlainYearMonth::new_with_overflow(y, m, None, iso.clone(), ArithmeticOverflow::Reject)).map(|p| (p.iso_year(), p.iso_month())), if inside { Some((y, m)) } else { None });
                if let Out::Ok(ym) = made {
                    let months = r.range(-6, 6);
                    if let Ok(du) = dur10([0.0, months as f64, 0.0, 0.0, 0.0, 0.0, 0.0, 0.0, 0.0, 0.0]) {
                        let total = y as i64 * 12 + (m as i64 - 1) + months;
                        let (ey, em) = (total.div_euclid(12), (total.rem_euclid(12) + 1) as u8);
                        let ok = (ey, em) >= (-271_821, 4) && (ey, em) <= (275_760, 9);
                        let g = call(|| ym.add(&du, ArithmeticOverflow::Constrain));
                        cx.ok("PlainYearMonth::add", &g, v_ym);
                        // -271821-04 is representable but arithmetic from its first day (before the first date) is not defined
                        if (ey, em) != (-271_821, 4) && (y as i64, m) != (-271_821, 4) {
                            cx.exact("PlainYearMonth::add", if ok { "result-inside" } else { "result-beyond-limit" }, g.map(|p| (p.iso_year() as i64, p.iso_month())), if ok { Some((ey, em)) } else { None });
                        }
                    }
                    let pd = call(|| ym.to_plain_date());
                    cx.ok("PlainYearMonth::to_plain_date", &pd, v_date);
                }
            }
            // ------------------------------------------------ durations at the limits
            7 => {
                let mut v = [0.0f64; 10];
                let lim = [4_294_967_295.0f64, 4_294_967_295.0, 4_294_967_295.0, 104_249_991_374.0, 2_501_999_792_983.0, 150_119_987_579_016.0, 9_007_199_254_740_991.0, 9_007_199_254_740_991.0, 9_007_199_254_740_991.0, 9_007_199_254_740_991.0];
                let k = r.below(10) as usize;
                v[k] = lim[k] + r.range(-2, 2) as f64;
                if r.bool() {
                    let j = r.below(10) as usize;
                    if j != k {
                        v[j] = *r.pick(&[1.0, 59.0, 999.0, 1e6]);
                    }
                }
                if r.bool() {
                    for x in v.iter_mut() {
                        *x = -*x;
                    }
                }
                cx.case["fields"] = json!(format!("{v:?}"));
                let valid = dur::is_valid(&v);
                let made = call(|| dur10(v));
                cx.ok("Duration::new", &made, v_duration);
                cx.exact("Duration::new", if valid { "at-or-inside-limit" } else { "beyond-limit" }, call(|| dur10(v)).map(|d| dur_fields(&d)), if valid { Some(v) } else { None });
                if let Out::Ok(d) = made {
                    let n = call_inf(|| d.negated());
                    cx.ok("Duration::negated", &n, v_duration);
                    let a = call_inf(|| d.abs());
                    cx.ok("Duration::abs", &a, v_duration);
                    if let Ok(o) = dur10([0.0, 0.0, 0.0, 0.0, *r.pick(&[0.0, 1.0, 24.0]), 0.0, *r.pick(&[0.0, 1.0, 3.0]), 0.0, 0.0, *r.pick(&[0.0, 1.0, 999.0])]) {
                        let o = if d.sign() as i8 >= 0 { o } else { o.negated() };
                        if v[0] == 0.0 && v[1] == 0.0 && v[2] == 0.0 {
                            let s = call(|| d.add(&o));
                            cx.ok("Duration::add", &s, v_duration);
                            let s = call(|| d.subtract(&o.negated()));
                            cx.ok("Duration::subtract", &s, v_duration);
                            let total = dur::time_total(&v) + dur::time_total(&dur_fields(&o));
                            let exp_valid = total.abs() < dur::MAX_TIME_NS_EXCL;
                            let g = call(|| d.add(&o)).map(|x| dur::time_total(&dur_fields(&x)));
                            // the sum is re-balanced: compare totals only when every field stays exactly representable
                            if exp_valid && total.abs() < (1i128 << 53) {
                                cx.exact("Duration::add", "sum-inside", g, Some(total));
                            } else if !exp_valid {
                                cx.exact("Duration::add", "sum-beyond-limit", g, None);
                            }
                        }
                    }
                    let rr = call(|| d.round_with_provider(round_opts(Some(*r.pick(&[Unit::Hour, Unit::Second, Unit::Nanosecond, Unit::Day])), Some(*r.pick(&[Unit::Nanosecond, Unit::Second, Unit::Hour])), None, None), None, &NoZones));
                    cx.ok("Duration::round", &rr, v_duration);
                }
            }
            // ------------------------------------------------ strings at the limits
            _ => {
                let side = r.bool();
                let k = if side { MAX_DAY - r.range(0, 1) } else { MIN_DAY + r.range(0, 1) } + r.range(-1, 1);
                let (y, m, d) = civil_from_days(k);
                let tod = *r.pick(&[0i128, 1, 3_600_000_000_000, NS_PER_DAY - 1, NS_PER_DAY - 3_600_000_000_000, 43_200_000_000_000]);
                let off_min = *r.pick(&[0i64, 0, 60, -60, 1439, -1439, 330]);
                let date = format!("{}-{:02}-{:02}", fmt_year(y), m, d);
                let time = fmt_ns_of_day(tod);
                let off = if off_min == 0 && r.bool() { "Z".to_string() } else { format!("{}{:02}:{:02}", if off_min < 0 { '-' } else { '+' }, off_min.abs() / 60, off_min.abs() % 60) };
                let local = k as i128 * NS_PER_DAY + tod;
                let day_ok = (MIN_DAY..=MAX_DAY).contains(&k);
                cx.case["text"] = json!(format!("{date}T{time}{off}"));
                let g = call(|| PlainDate::from_str(&date));
                cx.ok("PlainDate::from_str", &g, v_date);
                cx.exact("PlainDate::from_str", if day_ok { "inside" } else { "beyond-limit" }, g.map(|p| pdate_days(&p)), if day_ok { Some(k) } else { None });
                let text = format!("{date}T{time}");
                let g = call(|| PlainDateTime::from_str(&text));
                cx.ok("PlainDateTime::from_str", &g, v_datetime);
                let dt_ok = local > -DT_LIMIT && local < DT_LIMIT;
                cx.exact("PlainDateTime::from_str", if dt_ok { "inside" } else { "beyond-limit" }, g.map(|p| pdt_local_ns(&p)), if dt_ok { Some(local) } else { None });
                let text = format!("{date}T{time}{off}");
                let inst = local - off_min as i128 * 60_000_000_000;
                let g = call(|| Instant::from_str(&text));
                cx.ok("Instant::from_str", &g, v_instant);
                // the wall-clock part itself must be a valid date-time for the string to be read
                if dt_ok {
                    cx.exact("Instant::from_str", if inst.abs() <= MAXI { "inside" } else { "beyond-limit" }, g.map(|p| p.epoch_nanoseconds().as_i128()), if inst.abs() <= MAXI { Some(inst) } else { None });
                }
                let ztext = format!("{date}T{time}{off}[{}]", if off == "Z" { "UTC".to_string() } else { off.clone() });
                let g = call(|| ZonedDateTime::from_str_with_provider(&ztext, Disambiguation::Compatible, OffsetDisambiguation::Reject, &NoZones));
                cx.ok("ZonedDateTime::from_str", &g, v_zoned);
                if dt_ok && (k as i128).abs() <= 100_000_000 {
                    cx.exact("ZonedDateTime::from_str", if inst.abs() <= MAXI { "inside" } else { "beyond-limit" }, g.map(|p| p.epoch_nanoseconds().as_i128()), if inst.abs() <= MAXI { Some(inst) } else { None });
                }
                // a wall-clock reading within a UTC offset of the limit, resolved in a named zone through the bundled provider
                if dt_ok {
                    if let Out::Ok(pdt) = call(|| pdt_from_local(local)) {
                        for zone in ["America/Phoenix", "Asia/Kolkata", "Etc/GMT+12", "Etc/GMT-14", "America/New_York", "Pacific/Kiritimati"] {
                            if let Ok(tz) = TimeZone::try_from_str(zone) {
                                let g = call(|| pdt.to_zoned_date_time_with_provider(&tz, Disambiguation::Compatible, &fs));
                                cx.case["zone"] = json!(zone);
                                cx.ok("PlainDateTime::to_zoned_date_time(named zone)", &g, v_zoned);
                                if let Out::Ok(z) = &g {
                                    let back = call(|| z.to_plain_datetime_with_provider(&fs)).map(|p| pdt_local_ns(&p));
                                    cx.exact("ZonedDateTime::to_plain_datetime(named zone)", "at-limit-round-trip", back, Some(local));
                                }
                            }
                        }
                    }
                }
                // wall-clock readings whose instant lies within a second of the limit, resolved through the bundled zone data
                // (zones whose offset is constant there; the lower limit only for zones that never had another offset)
                {
                    let (zone, off_s, both_sides) = *r.pick(&[("UTC", 0i128, true), ("America/Phoenix", -25_200, false), ("Asia/Kolkata", 19_800, false), ("Etc/GMT+12", -43_200, true), ("Etc/GMT-14", 50_400, true), ("Pacific/Kiritimati", 50_400, false)]);
                    let side: i128 = if both_sides && r.bool() { -1 } else { 1 };
                    let delta = *r.pick(&[-1_000_000_001i128, -1_000_000_000, -999_999_999, -500_000_000, -1, 0, 1, 500_000_000, 999_999_999, 1_000_000_000, 1_000_000_001]);
                    let inst = side * MAXI + delta;
                    let local = inst + off_s * 1_000_000_000;
                    cx.case["zone"] = json!(zone);
                    cx.case["instant_ns"] = json!(inst.to_string());
                    // a wall-clock date more than 1e8 days from the epoch is refused before the zone is consulted (CheckISODaysRange),
                    // although its instant may be representable: not judged
                    if local.div_euclid(NS_PER_DAY).abs() > 100_000_000 {
                        cx.rep.hit("boundary/local-day-beyond-1e8-not-judged");
                    } else if let (Ok(tz), Out::Ok(pdt)) = (TimeZone::try_from_str(zone), call(|| pdt_from_local(local))) {
                        let exp = if inst.abs() <= MAXI { Some(inst) } else { None };
                        let shape = if inst.abs() < MAXI { "just-inside-limit" } else if inst.abs() == MAXI { "at-limit" } else { "just-beyond-limit" };
                        let ld = local.div_euclid(NS_PER_DAY);
                        let (y, m, d) = civil_from_days(ld as i64);
                        let text = format!("{}-{:02}-{:02}T{}[{}]", fmt_year(y), m, d, fmt_ns_of_day(local.rem_euclid(NS_PER_DAY)), zone);
                        cx.case["text"] = json!(text);
                        let g = call(|| pdt.to_zoned_date_time_with_provider(&tz, Disambiguation::Compatible, &fs));
                        cx.ok("PlainDateTime::to_zoned_date_time(named zone)", &g, v_zoned);
                        cx.exact("PlainDateTime::to_zoned_date_time(named zone)", shape, g.map(|z| z.epoch_nanoseconds().as_i128()), exp);
                        let g = call(|| ZonedDateTime::from_str_with_provider(&text, Disambiguation::Compatible, OffsetDisambiguation::Reject, &fs));
                        cx.ok("ZonedDateTime::from_str(named zone)", &g, v_zoned);
                        cx.exact("ZonedDateTime::from_str(named zone)", shape, g.map(|z| z.epoch_nanoseconds().as_i128()), exp);
                    }
                }
                // zoned arithmetic at the limits stays in range
                if inst.abs() <= MAXI {
                    if let Out::Ok(z) = call(|| ZonedDateTime::try_new(inst, iso.clone(), TimeZone::try_from_str(if off == "Z" { "UTC" } else { &off })?)) {
                        if let Ok(du) = dur10([0.0, 0.0, 0.0, r.range(-2, 2) as f64, 0.0, 0.0, 0.0, 0.0, 0.0, 0.0]) {
                            let g = call(|| z.add_with_provider(&du, None, &NoZones));
                            cx.ok("ZonedDateTime::add", &g, v_zoned);
                        }
                    }
                }
            }
        }
        cx.rep.nontrivial(fp!(scenario, sub));
    }
    rep.evaluations += evals;
    rep.add("cases", evals);
    for c in ["cases", "validity/evaluated", "boundary/evaluated"] {
        rep.require(c);
    }
}
