//! C16 - non-ISO calendar fields describe the same day as the ISO date.
//!
//! Oracle: the ISO date itself (round trip through the calendar fields), the day odometer (consecutive ISO days
//! must be consecutive calendar days) and structural invariants of the reported fields. No calendar arithmetic
//! is re-implemented: every judgement is a relation between observations and the ISO day that produced them.

use crate::core::*;
use crate::fp;
use crate::refmodel::civil::*;
use serde_json::json;
use std::str::FromStr;
use temporal_rs::options::ArithmeticOverflow;
use temporal_rs::partial::PartialDate;
use temporal_rs::{Calendar, MonthCode, PlainDate, TinyAsciiStr};

/// Candidate identifiers (BCP 47 calendar types); the ones the crate accepts are the calendars under test.
pub const CANDIDATES: [&str; 21] = [
    "iso8601", "buddhist", "chinese", "coptic", "dangi", "ethioaa", "ethiopic", "gregory", "hebrew", "indian", "islamic", "islamic-civil", "islamic-rgsa", "islamic-tbla", "islamic-umalqura", "islamicc", "japanese", "japanext",
    "persian", "roc", "ethiopic-amete-alem",
];

/// Names that denote the same era, per calendar (intl-era-monthcode proposal): a reported era and its aliases.
fn alias_groups(cal: &str) -> Vec<Vec<&'static str>> {
    match cal {
        "buddhist" => vec![vec!["buddhist", "be"]],
        "coptic" => vec![vec!["coptic", "am"], vec!["coptic-inverse"]],
        "ethioaa" => vec![vec!["ethioaa", "ethiopic-amete-alem", "mundi", "aa"]],
        "ethiopic" => vec![vec!["ethiopic", "incar", "am"], vec!["ethioaa", "ethiopic-amete-alem", "mundi", "aa"]],
        "gregory" => vec![vec!["gregory", "ce", "ad"], vec!["gregory-inverse", "bce", "bc"]],
        "hebrew" => vec![vec!["hebrew", "am"]],
        "indian" => vec![vec!["indian", "saka", "shaka"]],
        "islamic" => vec![vec!["islamic", "ah"]],
        "islamic-civil" => vec![vec!["islamic-civil", "islamicc", "ah"]],
        "islamic-tbla" => vec![vec!["islamic-tbla", "ah"]],
        "islamic-umalqura" => vec![vec!["islamic-umalqura", "ah"]],
        "japanese" | "japanext" => vec![vec!["japanese", "gregory", "ce", "ad"], vec!["japanese-inverse", "gregory-inverse", "bce", "bc"], vec!["reiwa"], vec!["heisei"], vec!["showa"], vec!["taisho"], vec!["meiji"]],
        "persian" => vec![vec!["persian", "ap"]],
        "roc" => vec![vec!["roc", "minguo"], vec!["roc-inverse", "before-roc", "broc"]],
        _ => vec![],
    }
}

#[derive(Debug, Clone, PartialEq)]
struct Obs {
    era: Option<String>,
    era_year: Option<i32>,
    year: i32,
    month: u8,
    code: String,
    day: u8,
    doy: u16,
    dim: u16,
    diy: u16,
    miy: u16,
    leap: bool,
    iso: (i32, u8, u8),
}

fn observe(d: &PlainDate) -> Obs {
    Obs {
        era: d.era().map(|e| e.as_str().to_string()),
        era_year: d.era_year(),
        year: d.year(),
        month: d.month(),
        code: d.month_code().as_str().to_string(),
        day: d.day(),
        doy: d.day_of_year(),
        dim: d.days_in_month(),
        diy: d.days_in_year(),
        miy: d.months_in_year(),
        leap: d.in_leap_year(),
        iso: (d.iso_year(), d.iso_month(), d.iso_day()),
    }
}

/// Far-away dates of the astronomical calendars: the calendrical dependency's approximations break down there in every
/// respect at once, so all clauses are reported under one signature per calendar.
#[allow(clippy::too_many_arguments)]
fn far_violation(rep: &mut Report, far: bool, canon: &str, clause: &str, op: &str, shape: &str, case: serde_json::Value, got: String, expected: String) {
    if far {
        rep.violation("C16.astronomical_far", canon, "any-clause", json!({"clause": clause, "op": op, "shape": shape, "case": case}), got, expected);
    } else {
        rep.violation(clause, op, shape, case, got, expected);
    }
}

fn era_tiny(s: &str) -> Option<TinyAsciiStr<19>> {
    TinyAsciiStr::<19>::try_from_str(s).ok()
}

/// ISO days to visit for one calendar: dense windows where calendars change eras, years and leap months.
fn workload(rng: &mut Rng, thorough: bool, astronomical: bool) -> Vec<i64> {
    let mut v: Vec<i64> = Vec::new();
    let mut span = |y0: i64, y1: i64, step: i64| {
        let (a, b) = (days_from_civil(y0, 1, 1), days_from_civil(y1, 12, 31));
        let mut k = a;
        while k <= b {
            v.push(k);
            k += step;
        }
    };
    // era boundaries and epochs (ISO years)
    for (a, b) in [(-1, 2), (7, 9), (77, 79), (283, 285), (621, 623), (1867, 1869), (1911, 1913), (1925, 1927), (1988, 1990), (2018, 2020), (-544, -542), (-3762, -3759), (-5494, -5491), (-2637, -2635), (-2333, -2331)] {
        span(a, b, 1);
    }
    // the modern period, every day (thorough: 1800..2200; quick: 1990..2040); shorter for the astronomical calendars
    if astronomical {
        if thorough {
            span(1900, 2100, 1);
            span(1000, 1899, 17);
            span(2101, 3000, 17);
        } else {
            span(2016, 2028, 1);
            span(1800, 2015, 23);
            span(2029, 2200, 23);
        }
    } else if thorough {
        span(1800, 2200, 1);
        span(-300, 1799, 13);
        span(2201, 3500, 13);
    } else {
        span(1990, 2040, 1);
        span(1500, 1989, 29);
        span(2041, 2400, 29);
    }
    // both limits and random days of the whole range. The astronomical calendars (chinese, dangi, islamic, islamic-umalqura)
    // cost milliseconds per far-away date in the calendrical library: they get the modern millennia densely and only a
    // handful of far dates (class "far" in the shapes)
    if astronomical {
        let n = if thorough { 12_000 } else { 1_500 };
        for _ in 0..n {
            v.push(rng.range(days_from_civil(1, 1, 1), days_from_civil(3000, 12, 31)));
        }
        for _ in 0..(if thorough { 48 } else { 8 }) {
            v.push(rng.range(MIN_DAY + 1, MAX_DAY));
        }
    } else {
        for k in 0..40 {
            v.push(MIN_DAY + 1 + k);
            v.push(MAX_DAY - k);
        }
        let n = if thorough { 60_000 } else { 6_000 };
        for _ in 0..n {
            v.push(match rng.below(3) {
                0 => rng.range(MIN_DAY + 1, MAX_DAY),
                1 => rng.range(days_from_civil(-6000, 1, 1), days_from_civil(6000, 1, 1)),
                _ => rng.range(days_from_civil(1, 1, 1), days_from_civil(3000, 1, 1)),
            });
        }
    }
    v
}

pub fn run(rep: &mut Report) {
    let mut rng = rep.cfg.rng("c16");
    let iso = Calendar::default();
    let mut evals = 0u64;
    // ---------------- identifiers: case-insensitive, canonical identifier reported
    let mut accepted: Vec<(&str, Calendar)> = Vec::new();
    for id in CANDIDATES {
        let base = call(|| Calendar::from_str(id));
        match &base {
            Out::Ok(c) => accepted.push((id, c.clone())),
            _ => {
                rep.hit(&format!("identifier/not-accepted/{id}"));
                continue;
            }
        }
        if rep.cfg.shard != 0 {
            continue;
        }
        let canon = base.as_ok().map(|c| c.identifier().to_string()).unwrap_or_default();
        let expect_canon = match id {
            "islamicc" => "islamic-civil",
            other => other,
        };
        if !rep.begin() {
            continue;
        }
        evals += 1;
        if canon != expect_canon {
            rep.violation("C16.identifier", "Calendar::identifier", "canonical", json!({"id": id}), canon.clone(), expect_canon.into());
        }
        let variants = [id.to_uppercase(), {
            let mut s = String::new();
            for (i, c) in id.chars().enumerate() {
                s.push(if i % 2 == 0 { c.to_ascii_uppercase() } else { c });
            }
            s
        }];
        for v in variants {
            for (op, got) in [("Calendar::from_str", call(|| Calendar::from_str(&v))), ("Calendar::from_utf8", call(|| Calendar::from_utf8(v.as_bytes())))] {
                let ok = got.as_ok().map(|c| c.identifier() == canon) == Some(true);
                if !ok {
                    rep.violation("C16.identifier", op, "case-variant", json!({"id": v}), got.show_with(|c| c.identifier().to_string()), canon.clone());
                }
                rep.hit("identifier/case-variant");
            }
        }
    }
    rep.add("calendars/accepted", accepted.len() as u64);

    // ---------------- per calendar day sweep
    let days_plain = workload(&mut rng, rep.cfg.thorough(), false);
    let days_astro = workload(&mut rng, rep.cfg.thorough(), true);
    for (ci, (id, cal)) in accepted.iter().enumerate() {
        let canon = cal.identifier();
        let astronomical = matches!(canon, "chinese" | "dangi" | "islamic" | "islamic-umalqura");
        let days = if astronomical { &days_astro } else { &days_plain };
        let groups = alias_groups(canon);
        let mut prev: Option<(i64, Obs)> = None;
        for (di, &k) in days.iter().enumerate() {
            // consecutive runs stay in one shard: shard by (calendar, block of 512 days)
            if !rep.cfg.mine((ci as u64) * 7919 + (di as u64 / 128)) {
                prev = None;
                continue;
            }
            if !rep.begin() {
                prev = None;
                continue;
            }
            evals += 1;
            let (y, m, d) = civil_from_days(k);
            let case = || json!({"calendar": id, "iso": format!("{}-{:02}-{:02}", fmt_year(y), m, d)});
            let made = call(|| PlainDate::try_new(y as i32, m, d, iso.clone())?.with_calendar(cal.clone()));
            let pd = match made {
                Out::Ok(p) => p,
                other => {
                    if other.is_broken() {
                        rep.inconclusive("C16.with_calendar", &other.show_with(|_| String::new()));
                    } else {
                        rep.violation("C16.with_calendar", "PlainDate::with_calendar", "refused", case(), other.show_with(|_| String::new()), "a date".into());
                    }
                    prev = None;
                    continue;
                }
            };
            let o = match call_inf(|| observe(&pd)) {
                Out::Ok(o) => o,
                other => {
                    rep.inconclusive("C16.fields", &other.show_with(|_| String::new()));
                    prev = None;
                    continue;
                }
            };
            let far = astronomical && !(1..=3000).contains(&y);
            let era_class = match (o.era.is_some(), far) {
                (true, false) => "era",
                (false, false) => "no-era",
                (true, true) => "era,far",
                (false, true) => "no-era,far",
            };
            // (1) the calendar never changes the ISO date
            if o.iso != (y as i32, m, d) {
                far_violation(rep, far, canon, "C16.iso_preserved", "PlainDate::with_calendar", canon, case(), format!("{:?}", o.iso), "same ISO date".into());
            }
            let back = call(|| pd.with_calendar(iso.clone())).map(|p| (p.year(), p.month(), p.day()));
            if back.as_ok() != Some(&(y as i32, m, d)) && !back.is_broken() {
                far_violation(rep, far, canon, "C16.iso_preserved", "with_calendar(iso8601)", canon, case(), back.show(), "same ISO date".into());
            }
            // (2) structural invariants
            let ok = o.day >= 1 && (o.day as u16) <= o.dim && o.month >= 1 && (o.month as u16) <= o.miy && o.doy >= 1 && o.doy <= o.diy && o.code.len() >= 3;
            if !ok {
                let what = if o.day == 0 { "day=0" } else if o.code.len() < 3 { "no-month-code" } else if (o.day as u16) > o.dim { "day>daysInMonth" } else if o.doy > o.diy { "dayOfYear>daysInYear" } else { "other" };
                far_violation(rep, far, canon, "C16.invariants", "field getters", &format!("({canon},{},{what})", if far { "far" } else { "near" }), case(), format!("{o:?}"), "1<=day<=daysInMonth, 1<=month<=monthsInYear, 1<=dayOfYear<=daysInYear".into());
                // the remaining clauses would only restate this
                prev = None;
                continue;
            }
            if canon != "iso8601" && o.era.is_some() != o.era_year.is_some() {
                far_violation(rep, far, canon, "C16.invariants", "era/era_year", canon, case(), format!("{o:?}"), "era and eraYear both present or both absent".into());
            }
            // (3) consecutive ISO days are consecutive calendar days
            if let Some((pk, p)) = &prev {
                if *pk + 1 == k {
                    let same_month = o.year == p.year && o.month == p.month && o.code == p.code && o.day == p.day + 1 && o.doy == p.doy + 1;
                    let next_month = o.year == p.year && o.month == p.month + 1 && o.day == 1 && (p.day as u16) == p.dim && o.doy == p.doy + 1;
                    let next_year = o.year == p.year + 1 && o.month == 1 && o.day == 1 && o.doy == 1 && (p.day as u16) == p.dim && (p.month as u16) == p.miy && p.doy == p.diy;
                    if !(same_month || next_month || next_year) {
                        far_violation(rep, far, canon, "C16.consecutive", "successive days", canon, case(), format!("{o:?}"), format!("successor of {p:?}"));
                    }
                    if next_month || next_year {
                        rep.nontrivial(fp!(1u64, ci, k as u64));
                        rep.hit(if next_year { "boundary/year" } else { "boundary/month" });
                    }
                    if o.era != p.era {
                        rep.hit("boundary/era");
                        rep.nontrivial(fp!(2u64, ci, k as u64));
                    }
                }
            }
            // (4) rebuild from the reported fields
            let code = match call(|| MonthCode::from_str(&o.code)) {
                Out::Ok(c) => c,
                other => {
                    far_violation(rep, far, canon, "C16.rebuild", "MonthCode::from_str", canon, case(), other.show_with(|_| String::new()), format!("month code {} accepted", o.code));
                    prev = Some((k, o));
                    continue;
                }
            };
            let leap_month = o.code.ends_with('L');
            let mk = |year: Option<i32>, era: Option<&str>, era_year: Option<i32>, month: Option<u8>, mc: Option<MonthCode>| PartialDate { year, month, month_code: mc, day: Some(o.day), era: era.and_then(era_tiny), era_year, calendar: cal.clone() };
            let mut rebuilds: Vec<(&str, String, PartialDate)> = vec![("year+monthCode+day", format!("({canon},{era_class})"), mk(Some(o.year), None, None, None, Some(code))), ("year+month+day", format!("({canon},{era_class},{})", if o.month as usize != o.code[1..3].parse::<usize>().unwrap_or(0) || leap_month { "ordinal-differs-from-code" } else { "ordinal-equals-code" }), mk(Some(o.year), None, None, Some(o.month), None))];
            rebuilds.push(("year+month+monthCode+day", format!("({canon},{era_class},{})", if leap_month { "leap-month" } else { "common-month" }), mk(Some(o.year), None, None, Some(o.month), Some(code))));
            if let (Some(e), Some(ey)) = (&o.era, o.era_year) {
                rebuilds.push(("era+eraYear+monthCode+day", format!("({canon},reported-era:{e}{})", if far { ",far" } else { "" }), mk(None, Some(e), Some(ey), None, Some(code))));
            }
            for (what, shape, partial) in rebuilds {
                for ov in [ArithmeticOverflow::Reject, ArithmeticOverflow::Constrain] {
                    let got = call(|| PlainDate::from_partial(partial.clone(), Some(ov))).map(|p| (p.iso_year(), p.iso_month(), p.iso_day()));
                    match &got {
                        Out::Ok(g) if *g == (y as i32, m, d) => {}
                        g if g.is_broken() => rep.inconclusive("C16.rebuild", &g.show_with(|_| String::new())),
                        _ => far_violation(rep, far, canon, "C16.rebuild", what, &shape, json!({"calendar": id, "iso": format!("{}-{:02}-{:02}", fmt_year(y), m, d), "fields": format!("{o:?}"), "overflow": format!("{ov:?}")}), got.show(), format!("{:?}", (y, m, d))),
                    }
                }
                rep.hit(&format!("rebuild/{what}"));
            }
            // every alias of the reported era
            if let (Some(e), Some(ey)) = (&o.era, o.era_year) {
                if let Some(g) = groups.iter().find(|g| g.contains(&e.as_str())) {
                    for alias in g.iter().filter(|a| **a != e.as_str()) {
                        let got = call(|| PlainDate::from_partial(mk(None, Some(alias), Some(ey), None, Some(code)), Some(ArithmeticOverflow::Reject))).map(|p| (p.iso_year(), p.iso_month(), p.iso_day()));
                        match &got {
                            Out::Ok(gg) if *gg == (y as i32, m, d) => rep.hit("alias/round-trip"),
                            gg if gg.is_broken() => rep.inconclusive("C16.rebuild", &gg.show_with(|_| String::new())),
                            Out::Err(_, msg) if msg.contains("Invalid era") => rep.hit(&format!("undecided/alias-not-recognised/{canon}/{alias}")),
                            _ => far_violation(rep, far, canon, "C16.rebuild", "era alias", &format!("({canon},{e} as {alias}{})", if far { ",far" } else { "" }), json!({"calendar": id, "iso": format!("{}-{:02}-{:02}", fmt_year(y), m, d), "fields": format!("{o:?}")}), got.show(), format!("{:?}", (y, m, d))),
                        }
                    }
                } else {
                    rep.hit(&format!("undecided/era-without-alias-group/{canon}/{e}"));
                }
            }
            if evals % 20_011 == 1 {
                rep.sample(&format!("e{evals}"), || json!({"calendar": id, "iso": format!("{}-{:02}-{:02}", fmt_year(y), m, d), "fields": format!("{o:?}")}));
            }
            prev = Some((k, o));
        }
    }
    rep.evaluations += evals;
    rep.add("cases", evals);
    for c in ["cases", "boundary/month", "rebuild/year+monthCode+day", "rebuild/era+eraYear+monthCode+day"] {
        rep.require(c);
    }
}
