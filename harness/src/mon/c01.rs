//! C01 - ISO dates <-> day timeline is a Gregorian bijection.
//!
//! Oracle: the odometer (refmodel::civil::Odo). Workload: a walk over days of the supported
//! range (thorough: every day; quick: the regions listed in DESIGN.md), plus random pairs.

use crate::core::*;
use crate::fp;
use crate::refmodel::civil::*;
use crate::util::*;
use serde_json::json;
use std::cmp::Ordering;
use std::str::FromStr;
use temporal_rs::iso::{IsoDateTime, IsoTime};
use temporal_rs::options::{ToStringRoundingOptions, Unit};
use temporal_rs::{Calendar, Instant, PlainDate, PlainDateTime, PlainTime};

fn quick_intervals() -> Vec<(i64, i64)> {
    let mut v: Vec<(i64, i64)> = Vec::new();
    // every day of 1500..2500
    v.push((days_from_civil(1500, 1, 1), days_from_civil(2500, 12, 31)));
    // both limits
    v.push((MIN_DAY, MIN_DAY + 800));
    v.push((MAX_DAY - 800, MAX_DAY));
    // year 0 and around
    v.push((days_from_civil(-1, 1, 1), days_from_civil(1, 12, 31)));
    // Neri-Schneider 16-bit limits
    for y in [-32768i64, -32767, 32767, 32768] {
        v.push((days_from_civil(y, 1, 1) - 40, days_from_civil(y, 12, 31) + 40));
    }
    // +-40 days around every century boundary (Jan 1 and Mar 1 of every year divisible by 100)
    let mut c = -271_800i64;
    while c <= 275_700 {
        v.push((days_from_civil(c, 1, 1) - 40, days_from_civil(c, 3, 1) + 40));
        c += 100;
    }
    v.sort();
    // merge
    let mut out: Vec<(i64, i64)> = Vec::new();
    for (a, b) in v {
        let a = a.max(MIN_DAY);
        let b = b.min(MAX_DAY);
        if let Some(last) = out.last_mut() {
            if a <= last.1 + 1 {
                last.1 = last.1.max(b);
                continue;
            }
        }
        out.push((a, b));
    }
    out
}

/// Slice the concatenation of `intervals` into this shard's contiguous share.
fn shard_share(intervals: &[(i64, i64)], shard: u64, n: u64) -> Vec<(i64, i64)> {
    let total: i64 = intervals.iter().map(|(a, b)| b - a + 1).sum();
    let lo = (total as i128 * shard as i128 / n as i128) as i64;
    let hi = (total as i128 * (shard as i128 + 1) / n as i128) as i64; // exclusive
    let mut out = Vec::new();
    let mut pos = 0i64;
    for &(a, b) in intervals {
        let len = b - a + 1;
        let s = lo.max(pos);
        let e = hi.min(pos + len);
        if s < e {
            out.push((a + (s - pos), a + (e - pos) - 1));
        }
        pos += len;
    }
    out
}

fn region(k: i64) -> &'static str {
    if k < MIN_DAY + 1000 {
        "min-limit"
    } else if k > MAX_DAY - 1000 {
        "max-limit"
    } else if k < days_from_civil(-32768, 1, 1) {
        "below-ns16"
    } else if k < days_from_civil(0, 1, 1) {
        "negative-years"
    } else if k < days_from_civil(1500, 1, 1) {
        "0..1500"
    } else if k <= days_from_civil(2500, 12, 31) {
        "1500..2500"
    } else if k <= days_from_civil(32768, 1, 1) {
        "2500..32768"
    } else {
        "above-ns16"
    }
}

struct Cx {
    iso: Calendar,
    anchor: PlainDate,
    prov: NoZones,
}

fn viol(rep: &mut Report, clause: &str, op: &str, shape: &str, o: &Odo, got: String, exp: String) {
    rep.violation(
        clause,
        op,
        shape,
        json!({"k": o.k, "date": format!("{}-{:02}-{:02}", fmt_year(o.y), o.m, o.d), "region": region(o.k)}),
        got,
        exp,
    );
}


/// All per-day clauses. `prev` is the previous day's date when it exists in range.
fn check_day(rep: &mut Report, cx: &Cx, o: &Odo, prev: Option<&PlainDate>) -> Option<PlainDate> {
    let (y, m, d) = (o.y as i32, o.m, o.d);
    // 1. constructor + plain getters
    let date = match call(|| PlainDate::try_new(y, m, d, cx.iso.clone())) {
        Out::Ok(v) => v,
        other => {
            if other.is_broken() {
                rep.inconclusive("C01.ctor", "panic");
            } else {
                viol(rep, "C01.ctor", "PlainDate::try_new", "rejected-valid", o, other.kind_str(), "Ok".into());
            }
            return None;
        }
    };
    let r = call_inf(|| {
        (
            date.iso_year(),
            date.iso_month(),
            date.iso_day(),
            date.year(),
            date.month(),
            date.day(),
            date.month_code().as_str().to_string(),
        )
    });
    match r {
        Out::Ok(g) => {
            let exp = (y, m, d, y, m, d, format!("M{:02}", m));
            if g != exp {
                viol(rep, "C01.fields", "PlainDate getters", "value", o, format!("{g:?}"), format!("{exp:?}"));
            }
        }
        _ => rep.inconclusive("C01.fields", "panic"),
    }
    // 2. derived fields
    let (wk, yow) = iso_week(o.y, o.doy, o.dow);
    let r = call(|| {
        Ok((
            date.day_of_week(),
            date.day_of_year(),
            date.days_in_month(),
            date.days_in_year(),
            date.in_leap_year(),
            date.months_in_year(),
            date.days_in_week()?,
            date.week_of_year()?,
            date.year_of_week()?,
        ))
    });
    match r {
        Out::Ok(g) => {
            let exp = (
                o.dow as u16,
                o.doy,
                dim(o.y, o.m) as u16,
                diy(o.y),
                is_leap(o.y),
                12u16,
                7u16,
                Some(wk as u16),
                Some(yow as i32),
            );
            if g != exp {
                let shape = if g.0 != exp.0 {
                    "day_of_week"
                } else if g.1 != exp.1 {
                    "day_of_year"
                } else if g.2 != exp.2 {
                    "days_in_month"
                } else if g.3 != exp.3 {
                    "days_in_year"
                } else if g.4 != exp.4 {
                    "in_leap_year"
                } else if g.7 != exp.7 {
                    "week_of_year"
                } else if g.8 != exp.8 {
                    "year_of_week"
                } else {
                    "const"
                };
                viol(rep, "C01.derived", "PlainDate derived getters", shape, o, format!("{g:?}"), format!("{exp:?}"));
            }
        }
        Out::Err(k, msg) => viol(rep, "C01.derived", "PlainDate derived getters", "error", o, format!("Err({k}: {msg})"), "Ok".into()),
        Out::Panic(..) => rep.inconclusive("C01.derived", "panic"),
    }
    // 3. successor / order / distance 1
    if let Some(p) = prev {
        let one = dur_days(1);
        let r = call(|| {
            let ord = p.compare_iso(&date);
            let nxt = p.add(&one, None)?;
            let back = date.subtract(&one, None)?;
            let dist = p.until(&date, diff_largest(Unit::Day))?;
            let dist_back = date.since(p, diff_largest(Unit::Day))?;
            Ok((ord, nxt == date, back == *p, dur_fields(&dist), dur_fields(&dist_back)))
        });
        match r {
            Out::Ok(g) => {
                let one_f = [0., 0., 0., 1., 0., 0., 0., 0., 0., 0.];
                let exp = (Ordering::Less, true, true, one_f, one_f);
                if g != exp {
                    let shape = if g.0 != exp.0 {
                        "order"
                    } else if !g.1 {
                        "add1"
                    } else if !g.2 {
                        "sub1"
                    } else {
                        "dist1"
                    };
                    viol(rep, "C01.succ", "PlainDate add/subtract/until/compare_iso", shape, o, format!("{g:?}"), format!("{exp:?}"));
                }
            }
            Out::Err(k, msg) => viol(rep, "C01.succ", "PlainDate add/subtract/until/compare_iso", "error", o, format!("Err({k}: {msg})"), "Ok".into()),
            Out::Panic(..) => rep.inconclusive("C01.succ", "panic"),
        }
    }
    // 4. against the anchor 1970-01-01
    {
        let kd = dur_days(o.k);
        let r = call(|| {
            let dist = cx.anchor.until(&date, diff_largest(Unit::Day))?;
            let fwd = cx.anchor.add(&kd, None)?;
            let ord = cx.anchor.compare_iso(&date);
            Ok((dur_fields(&dist), fwd == date, ord))
        });
        match r {
            Out::Ok(g) => {
                let exp = ([0., 0., 0., o.k as f64, 0., 0., 0., 0., 0., 0.], true, 0.cmp(&o.k));
                if g != exp {
                    let shape = if g.0 != exp.0 {
                        "until"
                    } else if !g.1 {
                        "add"
                    } else {
                        "order"
                    };
                    viol(rep, "C01.anchor", "PlainDate until/add from 1970-01-01", shape, o, format!("{g:?}"), format!("{exp:?}"));
                }
            }
            Out::Err(k, msg) => viol(rep, "C01.anchor", "PlainDate until/add from 1970-01-01", "error", o, format!("Err({k}: {msg})"), "Ok".into()),
            Out::Panic(..) => rep.inconclusive("C01.anchor", "panic"),
        }
    }
    // 5. UTC instant: date at 00:00 <-> k * 86400e9 ns; text round trip; date-time order
    {
        let ns = o.k as i128 * NS_PER_DAY;
        let mut isod = temporal_rs::iso::IsoDate::default();
        isod.year = y;
        isod.month = m;
        isod.day = d;
        let r = call(|| IsoDateTime::new(isod, IsoTime::default())?.as_nanoseconds());
        let in_instant_range = o.k.abs() <= 100_000_000;
        match (&r, in_instant_range) {
            (Out::Ok(e), true) => {
                if e.as_i128() != ns {
                    viol(rep, "C01.instant", "IsoDateTime::as_nanoseconds", "value", o, format!("{}", e.as_i128()), format!("{ns}"));
                }
            }
            (Out::Err(temporal_rs::error::ErrorKind::Range, _), false) => {}
            (Out::Panic(..), _) => rep.inconclusive("C01.instant", "panic"),
            (other, _) => viol(
                rep,
                "C01.instant",
                "IsoDateTime::as_nanoseconds",
                "kind",
                o,
                other.kind_str(),
                if in_instant_range { "Ok".into() } else { "Err(RangeError)".into() },
            ),
        }
        if in_instant_range {
            let r = call(|| {
                let i = Instant::try_new(ns)?;
                let s = i.to_ixdtf_string_with_provider(None, ToStringRoundingOptions::default(), &cx.prov)?;
                let back = Instant::from_str(&s)?;
                Ok((s, back.as_i128()))
            });
            match r {
                Out::Ok((s, back)) => {
                    let exp_s = format!("{}-{:02}-{:02}T00:00:00Z", fmt_year(o.y), m, d);
                    if s != exp_s {
                        viol(rep, "C01.instant", "Instant::to_ixdtf_string", "text", o, s.clone(), exp_s);
                    }
                    if back != ns {
                        viol(rep, "C01.instant", "Instant::from_str", "roundtrip", o, format!("{back} from {s}"), format!("{ns}"));
                    }
                }
                Out::Err(k, msg) => viol(rep, "C01.instant", "Instant try_new/to_string/from_str", "error", o, format!("Err({k}: {msg})"), "Ok".into()),
                Out::Panic(..) => rep.inconclusive("C01.instant", "panic"),
            }
            // the date as a zoned date-time in UTC (named zone and zero offset): midnight is k days from the epoch, and back
            if o.k.abs() >= 99_999_990 || o.k % 61 == 0 {
                for zone in ["UTC", "+00:00"] {
                    let r = call(|| {
                        let tz = temporal_rs::TimeZone::try_from_str(zone)?;
                        let z = PlainDate::try_new(y, m, d, Calendar::default())?.to_zoned_date_time_with_provider(tz, None, &cx.prov)?;
                        let back = z.to_plain_date_with_provider(&cx.prov)?;
                        Ok((z.epoch_nanoseconds().as_i128(), back.iso_year(), back.iso_month(), back.iso_day()))
                    });
                    match r {
                        Out::Ok(g) if g == (ns, y, m, d) => {}
                        Out::Ok(g) => viol(rep, "C01.instant", "PlainDate::to_zoned_date_time(UTC)", "value", o, format!("{g:?}"), format!("({ns}, {y}, {m}, {d})")),
                        Out::Err(k, msg) => viol(rep, "C01.instant", "PlainDate::to_zoned_date_time(UTC)", "error", o, format!("Err({k}: {msg})"), "Ok".into()),
                        Out::Panic(..) => rep.inconclusive("C01.instant", "panic"),
                    }
                }
            }
            // order of instants and date-times across midnight
            if let Some(p) = prev {
                if o.k > -100_000_000 {
                    let r = call(|| {
                        let a = Instant::try_new(ns - 1)?;
                        let b = Instant::try_new(ns)?;
                        let last = PlainTime::try_new(23, 59, 59, 999, 999, 999)?;
                        let pa = PlainDateTime::from_date_and_time(p.clone(), last)?;
                        let pb = PlainDateTime::from_date_and_time(date.clone(), PlainTime::default())?;
                        Ok((a.cmp(&b), pa.compare_iso(&pb), pb.compare_iso(&pa)))
                    });
                    match r {
                        Out::Ok(g) => {
                            let exp = (Ordering::Less, Ordering::Less, Ordering::Greater);
                            if g != exp {
                                viol(rep, "C01.order", "Instant::cmp / PlainDateTime::compare_iso", "midnight", o, format!("{g:?}"), format!("{exp:?}"));
                            }
                        }
                        Out::Err(k, msg) => viol(rep, "C01.order", "Instant::cmp / PlainDateTime::compare_iso", "error", o, format!("Err({k}: {msg})"), "Ok".into()),
                        Out::Panic(..) => rep.inconclusive("C01.order", "panic"),
                    }
                }
            }
        }
    }
    // 6. month end: dim+1 rejected, constrain clamps
    if d == dim(o.y, m) {
        let r = call_inf(|| {
            let rej = PlainDate::try_new(y, m, d + 1, cx.iso.clone()).map(|_| ()).map_err(|e| e.kind());
            let con = PlainDate::new(y, m, d + 1, cx.iso.clone()).map(|v| (v.iso_year(), v.iso_month(), v.iso_day())).map_err(|e| e.kind());
            let con31 = PlainDate::new(y, m, 31, cx.iso.clone()).map(|v| (v.iso_year(), v.iso_month(), v.iso_day())).map_err(|e| e.kind());
            (rej, con, con31)
        });
        match r {
            Out::Ok(g) => {
                let exp = (Err(temporal_rs::error::ErrorKind::Range), Ok((y, m, d)), Ok((y, m, d)));
                // the clamp of the very last month lands on 275760-09-30 which is out of range
                let at_max_month = o.y == 275_760 && m == 9;
                if !at_max_month && g != exp {
                    viol(rep, "C01.monthend", "PlainDate::try_new/new", "dim+1", o, format!("{g:?}"), format!("{exp:?}"));
                }
                rep.hit("monthends");
            }
            _ => rep.inconclusive("C01.monthend", "panic"),
        }
    }
    // 7. hooks: raw kernel
    {
        let r = call_inf(|| {
            (
                temporal_rs::verif_hooks::epoch_days_from_ymd(y, m, d),
                temporal_rs::verif_hooks::ymd_from_epoch_days(o.k as i32),
            )
        });
        match r {
            Out::Ok(g) => {
                let exp = (o.k as i32, (y, m, d));
                if g != exp {
                    let shape = if g.0 != exp.0 { "date->days" } else { "days->date" };
                    viol(rep, "C01.kernel", "neri_schneider kernel (hook)", shape, o, format!("{g:?}"), format!("{exp:?}"));
                }
            }
            _ => rep.inconclusive("C01.kernel", "panic"),
        }
    }
    Some(date)
}

pub fn run(rep: &mut Report) {
    let cx = Cx {
        iso: Calendar::default(),
        anchor: PlainDate::try_new(1970, 1, 1, Calendar::default()).expect("anchor"),
        prov: NoZones,
    };
    let thorough = rep.cfg.thorough();
    let all = vec![(MIN_DAY, MAX_DAY)];
    let intervals = if thorough { all } else { quick_intervals() };
    let mine = shard_share(&intervals, rep.cfg.shard, rep.cfg.nshards);
    let mut visited: u64 = 0;
    let mut by_region: std::collections::BTreeMap<&'static str, u64> = Default::default();
    for (a, b) in mine {
        // start one day early (when possible) so the first day of the slice has a predecessor
        let start = if a > MIN_DAY { a - 1 } else { a };
        let mut o = Odo::at(start);
        let mut prev: Option<PlainDate> = None;
        if start < a {
            prev = call(|| PlainDate::try_new(o.y as i32, o.m, o.d, cx.iso.clone())).ok();
            o.step();
        }
        loop {
            if rep.begin() {
                let cur = check_day(rep, &cx, &o, prev.as_ref());
                visited += 1;
                *by_region.entry(region(o.k)).or_insert(0) += 1;
                if visited % 1_000_003 == 1 || o.k == MIN_DAY || o.k == MAX_DAY || (o.m == 2 && o.d == 29 && visited % 1013 == 0) {
                    rep.sample(&format!("day{}", o.k), || {
                        json!({"k": o.k, "date": format!("{}-{:02}-{:02}", fmt_year(o.y), o.m, o.d), "dow": o.dow, "doy": o.doy,
                               "iso_week": iso_week(o.y, o.doy, o.dow).0, "clauses": "ctor,fields,derived,succ,anchor,instant,order,monthend,kernel"})
                    });
                }
                prev = cur;
            } else {
                prev = None;
            }
            if o.k == b {
                break;
            }
            o.step();
        }
        // hand-over: the odometer's final state must equal the closed form (independent start of the next slice)
        let h = Odo::at(o.k);
        if h != o {
            rep.harness_error(format!("odometer/closed-form disagreement at k={}: {:?} vs {:?}", o.k, o, h));
        }
        // outside the limits
        if b == MAX_DAY {
            let r = call(|| PlainDate::try_new(275_760, 9, 14, cx.iso.clone()));
            if !r.is_range_err() && !r.is_broken() {
                viol(rep, "C01.limits", "PlainDate::try_new", "max+1", &o, r.kind_str(), "Err(RangeError)".into());
            }
            rep.hit("limit_probes");
        }
        if a == MIN_DAY {
            let r = call(|| PlainDate::try_new(-271_821, 4, 18, cx.iso.clone()));
            if !r.is_range_err() && !r.is_broken() {
                viol(rep, "C01.limits", "PlainDate::try_new", "min-1", &Odo::at(MIN_DAY), r.kind_str(), "Err(RangeError)".into());
            }
            rep.hit("limit_probes");
        }
    }
    rep.evaluations += visited;
    rep.nontrivial_direct(visited);
    rep.add("days_visited", visited);
    for (r, n) in by_region {
        rep.add(&format!("days/{r}"), n);
    }

    // ---- random days (quick only: thorough visits all of them) and random pairs
    let mut rng = rep.cfg.rng("pairs");
    if !thorough {
        let n = rep.cfg.budget(2_000_000, 0);
        let mut cnt = 0u64;
        for _ in 0..n {
            let k = rng.range(MIN_DAY + 1, MAX_DAY);
            let o = Odo::at(k);
            let p = Odo::at(k - 1);
            if rep.begin() {
                let prev = call(|| PlainDate::try_new(p.y as i32, p.m, p.d, cx.iso.clone())).ok();
                check_day(rep, &cx, &o, prev.as_ref());
                rep.nontrivial(fp!(1u64, k));
                cnt += 1;
            }
        }
        rep.evaluations += cnt;
        rep.add("random_days", cnt);
    }
    let npairs = rep.cfg.budget(1_000_000, 10_000_000);
    let mut cnt = 0u64;
    for i in 0..npairs {
        let ka = rng.range(MIN_DAY, MAX_DAY);
        let kb = match i % 4 {
            0 => rng.range(MIN_DAY, MAX_DAY),
            1 => (ka + rng.range(-800, 800)).clamp(MIN_DAY, MAX_DAY),
            2 => (ka + rng.range(-150_000, 150_000)).clamp(MIN_DAY, MAX_DAY),
            _ => {
                if rng.bool() {
                    MAX_DAY - rng.range(0, 1000)
                } else {
                    MIN_DAY + rng.range(0, 1000)
                }
            }
        };
        if !rep.begin() {
            continue;
        }
        cnt += 1;
        let (oa, ob) = (Odo::at(ka), Odo::at(kb));
        let r = call(|| {
            let a = PlainDate::try_new(oa.y as i32, oa.m, oa.d, cx.iso.clone())?;
            let b = PlainDate::try_new(ob.y as i32, ob.m, ob.d, cx.iso.clone())?;
            let dist = a.until(&b, diff_largest(Unit::Day))?;
            let dflt = a.until(&b, Default::default())?;
            let fwd = a.add(&dist, None)?;
            let back = b.subtract(&dist, None)?;
            Ok((dur_fields(&dist), dur_fields(&dflt), fwd == b, back == a, a.compare_iso(&b)))
        });
        match r {
            Out::Ok(g) => {
                let df = [0., 0., 0., (kb - ka) as f64, 0., 0., 0., 0., 0., 0.];
                let exp = (df, df, true, true, ka.cmp(&kb));
                if g != exp {
                    let shape = if g.0 != exp.0 || g.1 != exp.1 {
                        "until"
                    } else if !g.2 {
                        "add"
                    } else if !g.3 {
                        "subtract"
                    } else {
                        "order"
                    };
                    rep.violation(
                        "C01.pairs",
                        "PlainDate until/add/subtract/compare_iso",
                        shape,
                        json!({"ka": ka, "kb": kb}),
                        format!("{g:?}"),
                        format!("{exp:?}"),
                    );
                }
                rep.nontrivial(fp!(2u64, ka, kb));
            }
            Out::Err(k, msg) => rep.violation(
                "C01.pairs",
                "PlainDate until/add/subtract/compare_iso",
                "error",
                json!({"ka": ka, "kb": kb}),
                format!("Err({k}: {msg})"),
                "Ok".into(),
            ),
            Out::Panic(..) => rep.inconclusive("C01.pairs", "panic"),
        }
        if i % 200_003 == 0 {
            rep.sample(&format!("pair{i}"), || json!({"pair": [ka, kb], "expected_days": kb - ka}));
        }
    }
    rep.evaluations += cnt;
    rep.add("pairs", cnt);
    rep.exhaustive = Some(thorough);
    rep.require("days_visited");
    rep.require("pairs");
}
