//! tvh - the runtime-monitoring harness for boa-dev/temporal.
//!
//! `tvh run <Cxx> --tier quick|thorough --seed N --shard i/n --out file.json [--only IDX] [--scale F]`

#![allow(dead_code)]

mod core;
mod mon;
mod refmodel;
mod util;
mod zones;

use crate::core::{Config, Report};

fn main() {
    let args: Vec<String> = std::env::args().collect();
    if args.len() >= 3 && args[1] == "parse" {
        // debugging aid: show what every parser and the grammar model say about the given strings
        core::install_panic_hook();
        for s in &args[2..] {
            mon::c12::show(s);
        }
        return;
    }
    if args.len() < 3 || args[1] != "run" {
        eprintln!("usage: tvh run <Cxx> --tier T --seed N --shard i/n --out FILE [--only IDX] [--scale F] [--verbose]");
        std::process::exit(2);
    }
    let property = args[2].clone();
    let mut tier = "quick".to_string();
    let mut seed = 1u64;
    let mut shard = 0u64;
    let mut nshards = 1u64;
    let mut out: Option<String> = None;
    let mut only = None;
    let mut scale = 1.0f64;
    let mut verbose = false;
    let mut build = "chk".to_string();
    let mut i = 3;
    while i < args.len() {
        let a = args[i].as_str();
        let mut val = || {
            i += 1;
            args.get(i).cloned().unwrap_or_else(|| {
                eprintln!("missing value for {a}");
                std::process::exit(2)
            })
        };
        match a {
            "--tier" => tier = val(),
            "--seed" => seed = val().parse().expect("seed"),
            "--shard" => {
                let v = val();
                let (a, b) = v.split_once('/').expect("i/n");
                shard = a.parse().expect("i");
                nshards = b.parse().expect("n");
            }
            "--out" => out = Some(val()),
            "--only" => only = Some(val().parse().expect("idx")),
            "--scale" => scale = val().parse().expect("scale"),
            "--build" => build = val(),
            "--verbose" => verbose = true,
            _ => {
                eprintln!("unknown argument {a}");
                std::process::exit(2);
            }
        }
        i += 1;
    }
    core::install_panic_hook();
    let cfg = Config { property: property.clone(), tier, seed, shard, nshards, only, build, scale, verbose };
    let mut rep = Report::new(cfg);
    rep.open_marker(out.as_deref());
    let ok = std::panic::catch_unwind(std::panic::AssertUnwindSafe(|| mon::dispatch(&property, &mut rep)));
    match ok {
        Ok(true) => {}
        Ok(false) => {
            eprintln!("unknown property {property}");
            std::process::exit(2);
        }
        Err(_) => {
            // a panic in the harness itself (not inside a call into /repo): report it and die
            let (loc, msg) = core::last_panic();
            eprintln!("HARNESS PANIC at {loc}: {msg} (case {})", rep.case_idx);
            std::process::exit(101);
        }
    }
    rep.finish_cases();
    let js = rep.to_json();
    let text = serde_json::to_string(&js).expect("json");
    match out {
        Some(p) => {
            std::fs::write(&p, text).expect("write out");
            let _ = std::fs::remove_file(format!("{p}.cur"));
        }
        None => println!("{text}"),
    }
}
