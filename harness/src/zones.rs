//! Explicit transition tables: a `TimeZoneProvider` over them (binary search) and, separately,
//! brute-force reference functions over the same tables (linear scans) used as the oracle.

use crate::core::Rng;
use crate::util::local_ns;
use std::collections::BTreeMap;
use temporal_rs::iso::IsoDateTime;
use temporal_rs::provider::{TimeZoneOffset, TimeZoneProvider, TransitionDirection};
use temporal_rs::time::EpochNanoseconds;
use temporal_rs::{TemporalError, TemporalResult};

pub const SEC: i128 = 1_000_000_000;

#[derive(Clone, Debug)]
pub struct Zone {
    pub name: String,
    /// offset (seconds) before the first transition
    pub initial: i64,
    /// (instant seconds, new offset seconds), strictly increasing instants, every entry changes the offset
    pub trans: Vec<(i64, i64)>,
}

impl Zone {
    // ---------------- reference functions (linear, independent of the provider code below)

    /// offset in force at instant t (seconds): the transition second itself already has the new offset
    pub fn ref_offset_at(&self, t_s: i64) -> i64 {
        let mut o = self.initial;
        for &(t, no) in &self.trans {
            if t <= t_s {
                o = no;
            } else {
                break;
            }
        }
        o
    }

    /// All instants (ns) whose wall-clock reading is `local` (ns since epoch, wall clock), ascending.
    pub fn ref_instants_of(&self, local: i128) -> Vec<i128> {
        let mut out = Vec::new();
        let n = self.trans.len();
        for i in 0..=n {
            let off = if i == 0 { self.initial } else { self.trans[i - 1].1 } as i128;
            let start = if i == 0 { i128::MIN } else { self.trans[i - 1].0 as i128 * SEC };
            let end = if i == n { i128::MAX } else { self.trans[i].0 as i128 * SEC };
            let cand = local - off * SEC;
            if cand >= start && cand < end {
                out.push(cand);
            }
        }
        out.sort();
        out
    }

    /// For a wall-clock reading nobody has: the (offset before, offset after) of the single forward
    /// transition whose gap contains it. None when it is not inside exactly one gap.
    pub fn ref_gap_around(&self, local: i128) -> Option<(i64, i64)> {
        let mut found = None;
        for i in 0..self.trans.len() {
            let before = if i == 0 { self.initial } else { self.trans[i - 1].1 };
            let after = self.trans[i].1;
            if after > before {
                let t = self.trans[i].0 as i128 * SEC;
                if local >= t + before as i128 * SEC && local < t + after as i128 * SEC {
                    if found.is_some() {
                        return None;
                    }
                    found = Some((before, after));
                }
            }
        }
        found
    }

    /// Smallest instant (ns) whose local date (days since epoch) is `day`: the start of that local day.
    pub fn ref_start_of_day(&self, day: i64) -> Option<i128> {
        let lo_local = day as i128 * 86_400 * SEC;
        let hi_local = lo_local + 86_400 * SEC;
        let n = self.trans.len();
        let mut best: Option<i128> = None;
        for i in 0..=n {
            let off = if i == 0 { self.initial } else { self.trans[i - 1].1 } as i128 * SEC;
            let start = if i == 0 { i128::MIN / 2 } else { self.trans[i - 1].0 as i128 * SEC };
            let end = if i == n { i128::MAX / 2 } else { self.trans[i].0 as i128 * SEC };
            // instants t in [start, end) with lo_local <= t + off < hi_local
            let a = start.max(lo_local - off);
            let b = end.min(hi_local - off);
            if a < b {
                best = Some(best.map_or(a, |x: i128| x.min(a)));
            }
        }
        best
    }
}

pub struct TableProvider {
    pub zones: BTreeMap<String, Zone>,
}

impl TableProvider {
    pub fn new(zs: Vec<Zone>) -> Self {
        let mut zones = BTreeMap::new();
        for z in zs {
            zones.insert(z.name.clone(), z);
        }
        // the default TimeZone of the library is the named zone UTC
        zones.entry("UTC".to_string()).or_insert(Zone { name: "UTC".into(), initial: 0, trans: vec![] });
        TableProvider { zones }
    }
    fn zone(&self, id: &str) -> TemporalResult<&Zone> {
        self.zones.get(id).ok_or_else(|| TemporalError::range().with_message("TableProvider: unknown zone"))
    }
}

impl TimeZoneProvider for TableProvider {
    fn check_identifier(&self, id: &str) -> bool {
        self.zones.contains_key(id)
    }

    fn get_named_tz_epoch_nanoseconds(&self, id: &str, dt: IsoDateTime) -> TemporalResult<Vec<EpochNanoseconds>> {
        let z = self.zone(id)?;
        let local = local_ns(&dt);
        // candidate segments: those whose start is within +-2 days of the wall-clock reading, found by binary search
        let approx = (local.div_euclid(SEC)) as i64;
        let lo = z.trans.partition_point(|(t, _)| *t < approx - 3 * 86_400);
        let hi = z.trans.partition_point(|(t, _)| *t <= approx + 3 * 86_400);
        let mut out: Vec<i128> = Vec::new();
        for seg in lo..=hi {
            // segment `seg` lies between transition seg-1 and transition seg
            let off = if seg == 0 { z.initial } else { z.trans[seg - 1].1 } as i128;
            let cand = local - off * SEC;
            let start_ok = seg == 0 || cand >= z.trans[seg - 1].0 as i128 * SEC;
            let end_ok = seg == z.trans.len() || cand < z.trans[seg].0 as i128 * SEC;
            if start_ok && end_ok {
                out.push(cand);
            }
        }
        out.sort();
        out.dedup();
        out.into_iter().map(EpochNanoseconds::try_from).collect()
    }

    fn get_named_tz_offset_nanoseconds(&self, id: &str, ns: i128) -> TemporalResult<TimeZoneOffset> {
        let z = self.zone(id)?;
        let t = ns.div_euclid(SEC) as i64;
        let idx = z.trans.partition_point(|(tt, _)| *tt <= t);
        if idx == 0 {
            Ok(TimeZoneOffset { transition_epoch: None, offset: z.initial })
        } else {
            Ok(TimeZoneOffset { transition_epoch: Some(z.trans[idx - 1].0), offset: z.trans[idx - 1].1 })
        }
    }

    fn get_named_tz_transition(&self, id: &str, ns: i128, direction: TransitionDirection) -> TemporalResult<Option<EpochNanoseconds>> {
        let z = self.zone(id)?;
        let r = match direction {
            TransitionDirection::Next => {
                let t = ns.div_euclid(SEC) as i64;
                let idx = z.trans.partition_point(|(tt, _)| *tt <= t);
                z.trans.get(idx).map(|x| x.0)
            }
            TransitionDirection::Previous => {
                let idx = z.trans.partition_point(|(tt, _)| (*tt as i128) * SEC < ns);
                if idx == 0 {
                    None
                } else {
                    Some(z.trans[idx - 1].0)
                }
            }
        };
        r.map(|s| EpochNanoseconds::try_from(s as i128 * SEC)).transpose()
    }
}

/// The table provider and the library's own file-system provider behind one value: the monitors run the same
/// checks through either (the real zones only make sense through the second one).
pub struct SwitchProvider {
    pub table: TableProvider,
    pub fs: temporal_rs::tzdb::FsTzdbProvider,
    pub use_fs: std::cell::Cell<bool>,
}

impl SwitchProvider {
    pub fn new(zs: Vec<Zone>) -> Self {
        SwitchProvider { table: TableProvider::new(zs), fs: temporal_rs::tzdb::FsTzdbProvider::default(), use_fs: std::cell::Cell::new(false) }
    }
}

impl TimeZoneProvider for SwitchProvider {
    fn check_identifier(&self, id: &str) -> bool {
        if self.use_fs.get() { self.fs.check_identifier(id) } else { self.table.check_identifier(id) }
    }
    fn get_named_tz_epoch_nanoseconds(&self, id: &str, dt: IsoDateTime) -> TemporalResult<Vec<EpochNanoseconds>> {
        if self.use_fs.get() { self.fs.get_named_tz_epoch_nanoseconds(id, dt) } else { self.table.get_named_tz_epoch_nanoseconds(id, dt) }
    }
    fn get_named_tz_offset_nanoseconds(&self, id: &str, ns: i128) -> TemporalResult<TimeZoneOffset> {
        if self.use_fs.get() { self.fs.get_named_tz_offset_nanoseconds(id, ns) } else { self.table.get_named_tz_offset_nanoseconds(id, ns) }
    }
    fn get_named_tz_transition(&self, id: &str, ns: i128, direction: TransitionDirection) -> TemporalResult<Option<EpochNanoseconds>> {
        if self.use_fs.get() { self.fs.get_named_tz_transition(id, ns, direction) } else { self.table.get_named_tz_transition(id, ns, direction) }
    }
}

/// Load the tables exported by oracle_py/export_zones.py.
pub fn load_real(path: &str) -> Vec<Zone> {
    let text = std::fs::read_to_string(path).unwrap_or_default();
    let mut out: Vec<Zone> = Vec::new();
    for line in text.lines() {
        let p: Vec<&str> = line.split(' ').collect();
        match p.as_slice() {
            ["Z", name, init] => out.push(Zone { name: name.to_string(), initial: init.parse().unwrap_or(0), trans: Vec::new() }),
            ["T", t, o] => {
                if let Some(z) = out.last_mut() {
                    z.trans.push((t.parse().unwrap_or(0), o.parse().unwrap_or(0)));
                }
            }
            _ => {}
        }
    }
    out
}

/// A synthetic zone with irregular transitions.
pub fn synthetic(rng: &mut Rng, idx: u64) -> Zone {
    let quarter = |rng: &mut Rng, lo: i64, hi: i64| rng.range(lo, hi) * 900;
    let mut off = match rng.below(4) {
        0 => quarter(rng, -48, 56),
        1 => rng.range(-50_000, 50_000),
        _ => rng.range(-12, 14) * 3600,
    };
    let initial = off;
    let n = match rng.below(5) {
        0 => rng.below(3),
        1 => rng.range(3, 12) as u64,
        _ => rng.range(12, 300) as u64,
    };
    // transitions spread over a few centuries around the epoch, sometimes far away
    let mut t: i64 = match rng.below(4) {
        0 => rng.range(-6_000_000_000, -2_000_000_000),
        1 => rng.range(-100_000_000, 100_000_000),
        _ => rng.range(-2_000_000_000, 2_000_000_000),
    };
    let mut trans = Vec::new();
    let dst_like = rng.bool();
    let mut toggle = false;
    for _ in 0..n {
        let gap = match rng.below(8) {
            0 => rng.range(3600, 86_400),          // back-to-back
            1 => rng.range(86_400, 30 * 86_400),
            2 => rng.range(1, 3) * 365 * 86_400,
            _ => rng.range(100, 250) * 86_400,     // season-like
        };
        t += gap;
        let change = if dst_like && !rng.chance(1, 10) {
            toggle = !toggle;
            if toggle { 3600 } else { -3600 }
        } else {
            let mag = match rng.below(6) {
                0 => rng.range(1, 59) * 60,
                1 => rng.range(1, 3) * 1800,
                2 => rng.range(3, 26) * 3600,
                3 => 86_400,
                4 => rng.range(1, 5000),
                _ => 3600,
            };
            if rng.bool() { mag } else { -mag }
        };
        let new = off + change;
        if new.abs() > 20 * 3600 || new == off {
            continue;
        }
        off = new;
        trans.push((t, off));
    }
    Zone { name: format!("Synth/Z{idx}"), initial, trans }
}

/// A hand-made zone with the shapes the property names: 1 h DST pair, a 24 h date-line jump, a 30 min change,
/// a gap larger than 3 h, an LMT-like seconds offset.
pub fn directed_zones() -> Vec<Zone> {
    vec![
        Zone { name: "Test/Dst".into(), initial: -18_000, trans: vec![(1_615_705_200, -14_400), (1_636_264_800, -18_000), (1_647_154_800, -14_400), (1_667_714_400, -18_000)] },
        Zone { name: "Test/DateLine".into(), initial: -36_000, trans: vec![(1_325_239_200, 50_400)] },
        Zone { name: "Test/HalfHour".into(), initial: 34_200, trans: vec![(1_000_000_000, 36_000), (1_020_000_000, 34_200)] },
        Zone { name: "Test/BigGap".into(), initial: 0, trans: vec![(500_000_000, 5 * 3600), (520_000_000, 0), (540_000_000, 12 * 3600 + 1800)] },
        Zone { name: "Test/Lmt".into(), initial: -17_762, trans: vec![(-2_717_650_800, -18_000)] },
        Zone { name: "Test/Midnight".into(), initial: -10_800, trans: vec![(1_540_695_600, -7_200), (1_550_368_800, -10_800)] }, // forward at local 00:00 -> 01:00
        Zone { name: "Test/Fixed".into(), initial: 12_345, trans: vec![] },
    ]
}
