//! Small helpers shared by the monitors: constructors for option structs, durations, a
//! provider that knows no named zones.

use temporal_rs::iso::IsoDateTime;
use temporal_rs::options::{DifferenceSettings, RoundingIncrement, RoundingMode, RoundingOptions, Unit};
use temporal_rs::primitive::FiniteF64;
use temporal_rs::provider::{TimeZoneOffset, TimeZoneProvider, TransitionDirection};
use temporal_rs::time::EpochNanoseconds;
use temporal_rs::{Duration, TemporalError, TemporalResult};

pub const MODES: [RoundingMode; 9] = [
    RoundingMode::Ceil,
    RoundingMode::Floor,
    RoundingMode::Expand,
    RoundingMode::Trunc,
    RoundingMode::HalfCeil,
    RoundingMode::HalfFloor,
    RoundingMode::HalfExpand,
    RoundingMode::HalfTrunc,
    RoundingMode::HalfEven,
];

pub const UNITS: [Unit; 10] = [
    Unit::Nanosecond,
    Unit::Microsecond,
    Unit::Millisecond,
    Unit::Second,
    Unit::Minute,
    Unit::Hour,
    Unit::Day,
    Unit::Week,
    Unit::Month,
    Unit::Year,
];

pub fn mode_name(m: RoundingMode) -> &'static str {
    match m {
        RoundingMode::Ceil => "ceil",
        RoundingMode::Floor => "floor",
        RoundingMode::Expand => "expand",
        RoundingMode::Trunc => "trunc",
        RoundingMode::HalfCeil => "halfCeil",
        RoundingMode::HalfFloor => "halfFloor",
        RoundingMode::HalfExpand => "halfExpand",
        RoundingMode::HalfTrunc => "halfTrunc",
        RoundingMode::HalfEven => "halfEven",
    }
}

pub fn unit_name(u: Unit) -> &'static str {
    match u {
        Unit::Auto => "auto",
        Unit::Nanosecond => "nanosecond",
        Unit::Microsecond => "microsecond",
        Unit::Millisecond => "millisecond",
        Unit::Second => "second",
        Unit::Minute => "minute",
        Unit::Hour => "hour",
        Unit::Day => "day",
        Unit::Week => "week",
        Unit::Month => "month",
        Unit::Year => "year",
    }
}

pub fn unit_ns(u: Unit) -> Option<i128> {
    Some(match u {
        Unit::Nanosecond => 1,
        Unit::Microsecond => 1_000,
        Unit::Millisecond => 1_000_000,
        Unit::Second => 1_000_000_000,
        Unit::Minute => 60_000_000_000,
        Unit::Hour => 3_600_000_000_000,
        Unit::Day => 86_400_000_000_000,
        _ => return None,
    })
}

pub fn f(x: f64) -> FiniteF64 {
    FiniteF64::try_from(x).expect("finite")
}

pub fn dur_days(k: i64) -> Duration {
    Duration::new(f(0.), f(0.), f(0.), f(k as f64), f(0.), f(0.), f(0.), f(0.), f(0.), f(0.)).expect("valid day duration")
}

/// Construct a duration from ten f64 fields through the public validating constructor.
pub fn dur10(v: [f64; 10]) -> TemporalResult<Duration> {
    Duration::new(f(v[0]), f(v[1]), f(v[2]), f(v[3]), f(v[4]), f(v[5]), f(v[6]), f(v[7]), f(v[8]), f(v[9]))
}

pub fn dur_fields(d: &Duration) -> [f64; 10] {
    [
        d.years().as_inner(),
        d.months().as_inner(),
        d.weeks().as_inner(),
        d.days().as_inner(),
        d.hours().as_inner(),
        d.minutes().as_inner(),
        d.seconds().as_inner(),
        d.milliseconds().as_inner(),
        d.microseconds().as_inner(),
        d.nanoseconds().as_inner(),
    ]
}

pub fn diff_largest(u: Unit) -> DifferenceSettings {
    let mut s = DifferenceSettings::default();
    s.largest_unit = Some(u);
    s
}

pub fn diff_settings(
    largest: Option<Unit>,
    smallest: Option<Unit>,
    mode: Option<RoundingMode>,
    inc: Option<u32>,
) -> DifferenceSettings {
    let mut s = DifferenceSettings::default();
    s.largest_unit = largest;
    s.smallest_unit = smallest;
    s.rounding_mode = mode;
    s.increment = inc.map(|i| RoundingIncrement::try_new(i).expect("increment"));
    s
}

pub fn round_opts(
    largest: Option<Unit>,
    smallest: Option<Unit>,
    mode: Option<RoundingMode>,
    inc: Option<u32>,
) -> RoundingOptions {
    let mut s = RoundingOptions::default();
    s.largest_unit = largest;
    s.smallest_unit = smallest;
    s.rounding_mode = mode;
    s.increment = inc.map(|i| RoundingIncrement::try_new(i).expect("increment"));
    s
}

/// Wall-clock reading -> nanoseconds since the epoch at UTC (reference model arithmetic).
pub fn local_ns(dt: &IsoDateTime) -> i128 {
    let days = crate::refmodel::civil::days_from_civil(dt.date.year as i64, dt.date.month, dt.date.day) as i128;
    let t = &dt.time;
    days * 86_400_000_000_000
        + ((t.hour as i128 * 60 + t.minute as i128) * 60 + t.second as i128) * 1_000_000_000
        + t.millisecond as i128 * 1_000_000
        + t.microsecond as i128 * 1_000
        + t.nanosecond as i128
}

/// A provider that knows exactly one named zone, "UTC" (offset 0, no transitions); every
/// other identifier is a RangeError. Used where the property under test is not about zones.
pub struct NoZones;

impl TimeZoneProvider for NoZones {
    fn check_identifier(&self, id: &str) -> bool {
        id == "UTC"
    }
    fn get_named_tz_epoch_nanoseconds(&self, id: &str, dt: IsoDateTime) -> TemporalResult<Vec<EpochNanoseconds>> {
        if id != "UTC" {
            return Err(TemporalError::range().with_message("NoZones"));
        }
        Ok(vec![EpochNanoseconds::try_from(local_ns(&dt))?])
    }
    fn get_named_tz_offset_nanoseconds(&self, id: &str, _: i128) -> TemporalResult<TimeZoneOffset> {
        if id != "UTC" {
            return Err(TemporalError::range().with_message("NoZones"));
        }
        Ok(TimeZoneOffset { transition_epoch: None, offset: 0 })
    }
    fn get_named_tz_transition(&self, id: &str, _: i128, _: TransitionDirection) -> TemporalResult<Option<EpochNanoseconds>> {
        if id != "UTC" {
            return Err(TemporalError::range().with_message("NoZones"));
        }
        Ok(None)
    }
}
