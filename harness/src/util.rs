//! Small helpers shared by the monitors: constructors for option structs, durations, a
//! provider that knows no named zones.

use temporal_rs::iso::IsoDateTime;
use temporal_rs::options::{DifferenceSettings, RoundingIncrement, RoundingMode, RoundingOptions, Unit};
use temporal_rs::primitive::FiniteF64;
use temporal_rs::provider::{TimeZoneOffset, TimeZoneProvider, TransitionDirection};
use temporal_rs::time::EpochNanoseconds;
use temporal_rs::{Duration, TemporalError, TemporalResult};

pub const MODES: [RoundingMode; 9] = [
    RoundingMode::Ceil,
    RoundingMode::Floor,
    RoundingMode::Expand,
    RoundingMode::Trunc,
    RoundingMode::HalfCeil,
    RoundingMode::HalfFloor,
    RoundingMode::HalfExpand,
    RoundingMode::HalfTrunc,
    RoundingMode::HalfEven,
];

pub const UNITS: [Unit; 10] = [
    Unit::Nanosecond,
    Unit::Microsecond,
    Unit::Millisecond,
    Unit::Second,
    Unit::Minute,
    Unit::Hour,
    Unit::Day,
    Unit::Week,
    Unit::Month,
    Unit::Year,
];

pub fn mode_name(m: RoundingMode) -> &'static str {
    match m {
        RoundingMode::Ceil => "ceil",
        RoundingMode::Floor => "floor",
        RoundingMode::Expand => "expand",
        RoundingMode::Trunc => "trunc",
        RoundingMode::HalfCeil => "halfCeil",
        RoundingMode::HalfFloor => "halfFloor",
        RoundingMode::HalfExpand => "halfExpand",
        RoundingMode::HalfTrunc => "halfTrunc",
        RoundingMode::HalfEven => "halfEven",
    }
}

pub fn unit_name(u: Unit) -> &'static str {
    match u {
        Unit::Auto => "auto",
        Unit::Nanosecond => "nanosecond",
        Unit::Microsecond => "microsecond",
        Unit::Millisecond => "millisecond",
        Unit::Second => "second",
        Unit::Minute => "minute",
        Unit::Hour => "hour",
        Unit::Day => "day",
        Unit::Week => "week",
        Unit::Month => "month",
        Unit::Year => "year",
    }
}

pub fn unit_ns(u: Unit) -> Option<i128> {
    Some(match u {
        Unit::Nanosecond => 1,
        Unit::Microsecond => 1_000,
        Unit::Millisecond => 1_000_000,
        Unit::Second => 1_000_000_000,
        Unit::Minute => 60_000_000_000,
        Unit::Hour => 3_600_000_000_000,
        Unit::Day => 86_400_000_000_000,
        _ => return None,
    })
}

pub fn f(x: f64) -> FiniteF64 {
    FiniteF64::try_from(x).expect("finite")
}

pub fn dur_days(k: i64) -> Duration {
    Duration::new(f(0.), f(0.), f(0.), f(k as f64), f(0.), f(0.), f(0.), f(0.), f(0.), f(0.)).expect("valid day duration")
}

/// Construct a duration from ten f64 fields through the public validating constructor.
pub fn dur10(v: [f64; 10]) -> TemporalResult<Duration> {
    Duration::new(f(v[0]), f(v[1]), f(v[2]), f(v[3]), f(v[4]), f(v[5]), f(v[6]), f(v[7]), f(v[8]), f(v[9]))
}

pub fn dur_fields(d: &Duration) -> [f64; 10] {
    [
        d.years().as_inner(),
        d.months().as_inner(),
        d.weeks().as_inner(),
        d.days().as_inner(),
        d.hours().as_inner(),
        d.minutes().as_inner(),
        d.seconds().as_inner(),
        d.milliseconds().as_inner(),
        d.microseconds().as_inner(),
        d.nanoseconds().as_inner(),
    ]
}

pub fn diff_largest(u: Unit) -> DifferenceSettings {
    let mut s = DifferenceSettings::default();
    s.largest_unit = Some(u);
    s
}

pub fn diff_settings(
    largest: Option<Unit>,
    smallest: Option<Unit>,
    mode: Option<RoundingMode>,
    inc: Option<u32>,
) -> DifferenceSettings {
    let mut s = DifferenceSettings::default();
    s.largest_unit = largest;
    s.smallest_unit = smallest;
    s.rounding_mode = mode;
    s.increment = inc.map(|i| RoundingIncrement::try_new(i).expect("increment"));
    s
}

pub fn round_opts(
    largest: Option<Unit>,
    smallest: Option<Unit>,
    mode: Option<RoundingMode>,
    inc: Option<u32>,
) -> RoundingOptions {
    let mut s = RoundingOptions::default();
    s.largest_unit = largest;
    s.smallest_unit = smallest;
    s.rounding_mode = mode;
    s.increment = inc.map(|i| RoundingIncrement::try_new(i).expect("increment"));
    s
}

/// Wall-clock reading -> nanoseconds since the epoch at UTC (reference model arithmetic).
pub fn local_ns(dt: &IsoDateTime) -> i128 {
    let days = crate::refmodel::civil::days_from_civil(dt.date.year as i64, dt.date.month, dt.date.day) as i128;
    let t = &dt.time;
    days * 86_400_000_000_000
        + ((t.hour as i128 * 60 + t.minute as i128) * 60 + t.second as i128) * 1_000_000_000
        + t.millisecond as i128 * 1_000_000
        + t.microsecond as i128 * 1_000
        + t.nanosecond as i128
}

/// A provider that knows exactly one named zone, "UTC" (offset 0, no transitions); every
/// other identifier is a RangeError. Used where the property under test is not about zones.
pub struct NoZones;

impl TimeZoneProvider for NoZones {
    fn check_identifier(&self, id: &str) -> bool {
        id == "UTC"
    }
    fn get_named_tz_epoch_nanoseconds(&self, id: &str, dt: IsoDateTime) -> TemporalResult<Vec<EpochNanoseconds>> {
        if id != "UTC" {
            return Err(TemporalError::range().with_message("NoZones"));
        }
        Ok(vec![EpochNanoseconds::try_from(local_ns(&dt))?])
    }
    fn get_named_tz_offset_nanoseconds(&self, id: &str, _: i128) -> TemporalResult<TimeZoneOffset> {
        if id != "UTC" {
            return Err(TemporalError::range().with_message("NoZones"));
        }
        Ok(TimeZoneOffset { transition_epoch: None, offset: 0 })
    }
    fn get_named_tz_transition(&self, id: &str, _: i128, _: TransitionDirection) -> TemporalResult<Option<EpochNanoseconds>> {
        if id != "UTC" {
            return Err(TemporalError::range().with_message("NoZones"));
        }
        Ok(None)
    }
}

// ---- value construction / observation through the public API only ----

use crate::refmodel::civil::{civil_from_days, days_from_civil};
use temporal_rs::{Calendar, PlainDate, PlainDateTime, PlainTime};

pub const DAY_NS: i128 = 86_400_000_000_000;

pub fn split_ns_of_day(ns: i128) -> (u8, u8, u8, u16, u16, u16) {
    debug_assert!((0..DAY_NS).contains(&ns));
    let n = (ns % 1000) as u16;
    let us = ((ns / 1_000) % 1000) as u16;
    let ms = ((ns / 1_000_000) % 1000) as u16;
    let s = ((ns / 1_000_000_000) % 60) as u8;
    let mi = ((ns / 60_000_000_000) % 60) as u8;
    let h = (ns / 3_600_000_000_000) as u8;
    (h, mi, s, ms, us, n)
}

pub fn ptime(ns_of_day: i128) -> TemporalResult<PlainTime> {
    let (h, mi, s, ms, us, n) = split_ns_of_day(ns_of_day);
    PlainTime::try_new(h, mi, s, ms, us, n)
}

pub fn ptime_ns(t: &PlainTime) -> i128 {
    ((t.hour() as i128 * 60 + t.minute() as i128) * 60 + t.second() as i128) * 1_000_000_000
        + t.millisecond() as i128 * 1_000_000
        + t.microsecond() as i128 * 1_000
        + t.nanosecond() as i128
}

/// PlainDateTime (ISO calendar) from "local nanoseconds since 1970-01-01T00:00 wall clock".
pub fn pdt_from_local(local_ns: i128) -> TemporalResult<PlainDateTime> {
    let days = local_ns.div_euclid(DAY_NS);
    let (h, mi, s, ms, us, n) = split_ns_of_day(local_ns.rem_euclid(DAY_NS));
    let (y, m, d) = civil_from_days(days as i64);
    PlainDateTime::try_new(y as i32, m, d, h, mi, s, ms, us, n, Calendar::default())
}

pub fn pdt_local_ns(dt: &PlainDateTime) -> i128 {
    days_from_civil(dt.iso_year() as i64, dt.iso_month(), dt.iso_day()) as i128 * DAY_NS
        + ((dt.hour() as i128 * 60 + dt.minute() as i128) * 60 + dt.second() as i128) * 1_000_000_000
        + dt.millisecond() as i128 * 1_000_000
        + dt.microsecond() as i128 * 1_000
        + dt.nanosecond() as i128
}

pub fn pdate_from_days(k: i64) -> TemporalResult<PlainDate> {
    let (y, m, d) = civil_from_days(k);
    PlainDate::try_new(y as i32, m, d, Calendar::default())
}

pub fn pdate_days(d: &PlainDate) -> i64 {
    days_from_civil(d.iso_year() as i64, d.iso_month(), d.iso_day())
}

/// Exact total of the day + time fields of a duration in nanoseconds (a day counting 24 h).
pub fn dur_time_total_ns(d: &Duration) -> i128 {
    let v = dur_fields(d);
    v[3] as i128 * DAY_NS
        + v[4] as i128 * 3_600_000_000_000
        + v[5] as i128 * 60_000_000_000
        + v[6] as i128 * 1_000_000_000
        + v[7] as i128 * 1_000_000
        + v[8] as i128 * 1_000
        + v[9] as i128
}

pub fn fmt_ns_of_day(ns: i128) -> String {
    let (h, mi, s, ms, us, n) = split_ns_of_day(ns);
    format!("{h:02}:{mi:02}:{s:02}.{ms:03}{us:03}{n:03}")
}

// ---- a tiny reader for the *canonical output* forms (used to decode formatted values) ----

fn digits(b: &[u8], i: &mut usize, n: usize) -> Option<i64> {
    if *i + n > b.len() {
        return None;
    }
    let mut v = 0i64;
    for k in 0..n {
        let c = b[*i + k];
        if !c.is_ascii_digit() {
            return None;
        }
        v = v * 10 + (c - b'0') as i64;
    }
    *i += n;
    Some(v)
}

/// Reads `[+-YY]YYYY-MM-DD` at `i`. Returns days since epoch.
pub fn read_date(b: &[u8], i: &mut usize) -> Option<i64> {
    let y = if *i < b.len() && (b[*i] == b'+' || b[*i] == b'-') {
        let neg = b[*i] == b'-';
        *i += 1;
        let v = digits(b, i, 6)?;
        if neg {
            -v
        } else {
            v
        }
    } else {
        digits(b, i, 4)?
    };
    if b.get(*i) != Some(&b'-') {
        return None;
    }
    *i += 1;
    let m = digits(b, i, 2)?;
    if b.get(*i) != Some(&b'-') {
        return None;
    }
    *i += 1;
    let d = digits(b, i, 2)?;
    if !(1..=12).contains(&m) || d < 1 || d > crate::refmodel::civil::dim(y, m as u8) as i64 {
        return None;
    }
    Some(days_from_civil(y, m as u8, d as u8))
}

/// Reads `HH:MM[:SS[.f{1,9}]]` at `i`. Returns (ns of day, number of fraction digits or -1 if no seconds).
pub fn read_time(b: &[u8], i: &mut usize) -> Option<(i128, i32)> {
    let h = digits(b, i, 2)?;
    if b.get(*i) != Some(&b':') {
        return None;
    }
    *i += 1;
    let mi = digits(b, i, 2)?;
    let mut ns = (h as i128 * 60 + mi as i128) * 60_000_000_000;
    if h > 23 || mi > 59 {
        return None;
    }
    if b.get(*i) != Some(&b':') {
        return Some((ns, -1));
    }
    *i += 1;
    let s = digits(b, i, 2)?;
    if s > 59 {
        return None;
    }
    ns += s as i128 * 1_000_000_000;
    if b.get(*i) != Some(&b'.') {
        return Some((ns, 0));
    }
    *i += 1;
    let mut nd = 0;
    let mut frac = 0i128;
    while *i < b.len() && b[*i].is_ascii_digit() && nd < 9 {
        frac = frac * 10 + (b[*i] - b'0') as i128;
        nd += 1;
        *i += 1;
    }
    if nd == 0 {
        return None;
    }
    for _ in nd..9 {
        frac *= 10;
    }
    Some((ns + frac, nd))
}

/// Reads `date T time`, returns (local ns since epoch, fraction digits, index after).
pub fn read_datetime(s: &str) -> Option<(i128, i32, usize)> {
    let b = s.as_bytes();
    let mut i = 0;
    let days = read_date(b, &mut i)?;
    if b.get(i) != Some(&b'T') {
        return None;
    }
    i += 1;
    let (t, nd) = read_time(b, &mut i)?;
    Some((days as i128 * DAY_NS + t, nd, i))
}
