#!/usr/bin/env python3
"""Export the transition tables of the system zoneinfo (TZif files) as plain text for the harness.

For every Zone/Link name of tzdata.zi: the TZif v2+ data block gives the explicit transitions; beyond the
last one the POSIX footer rule is expanded with Python's `zoneinfo` (an independent TZif/POSIX-TZ evaluator)
year by year up to `--until` by bisecting `utcoffset` changes. Every exported transition is then re-verified
against `zoneinfo` at t-1, t, t+1.

Output format (one file):
  Z <name> <initial utc offset seconds>
  T <instant seconds> <new utc offset seconds>
"""
import datetime as dt
import os
import struct
import sys
import zoneinfo

ZI = "/usr/share/zoneinfo"
UTC = dt.timezone.utc


def names():
    out = []
    for line in open(os.path.join(ZI, "tzdata.zi")):
        p = line.split()
        if not p:
            continue
        if p[0] == "Z":
            out.append(p[1])
        elif p[0] == "L":
            out.append(p[2])
    return sorted(set(out))


def parse_tzif(path):
    data = open(path, "rb").read()
    if data[:4] != b"TZif":
        return None
    ver = data[4:5]

    def header(off):
        return struct.unpack(">6l", data[off + 20:off + 44])

    isutc, isstd, leap, timecnt, typecnt, charcnt = header(0)
    off = 44 + timecnt * 4 + timecnt + typecnt * 6 + charcnt + leap * 8 + isstd + isutc
    if ver < b"2":
        return None
    isutc, isstd, leap, timecnt, typecnt, charcnt = header(off)
    o = off + 44
    times = struct.unpack(">%dq" % timecnt, data[o:o + 8 * timecnt])
    o += 8 * timecnt
    idx = data[o:o + timecnt]
    o += timecnt
    types = []
    for i in range(typecnt):
        utoff, isdst, ab = struct.unpack(">lBB", data[o + 6 * i:o + 6 * i + 6])
        types.append(utoff)
    o += 6 * typecnt + charcnt + leap * 12 + isstd + isutc
    footer = data[o:].strip(b"\n").decode()
    return times, [types[i] for i in idx], types, footer


def off_at(z, t):
    return int(dt.datetime.fromtimestamp(t, UTC).astimezone(z).utcoffset().total_seconds())


def export(name, until_year, out):
    p = parse_tzif(os.path.join(ZI, name))
    if p is None:
        return 0
    times, offs, types, footer = p
    z = zoneinfo.ZoneInfo(name)
    initial = types[0] if types else 0
    trans = []
    prev = initial
    for t, o in zip(times, offs):
        # Python's datetime cannot represent instants before year 1: such leading "big bang" transitions fold into the initial offset
        if t < -62135596800 + 86400 * 366:
            prev = o
            initial = o
            continue
        if o != prev:
            trans.append((t, o))
            prev = o
    # expand the footer rule
    start = (times[-1] + 1) if times else -2**31
    start = max(start, -62135596800 + 86400 * 366)
    y0 = dt.datetime.fromtimestamp(max(start, -62100000000), UTC).year
    t = start
    cur = off_at(z, t) if t > -62100000000 else prev
    step = 86400 * 7
    end = int(dt.datetime(until_year, 1, 1, tzinfo=UTC).timestamp())
    if footer and "," in footer:
        while t < end:
            n = t + step
            o = off_at(z, n)
            if o != cur:
                lo, hi = t, n
                while hi - lo > 1:
                    mid = (lo + hi) // 2
                    if off_at(z, mid) == cur:
                        lo = mid
                    else:
                        hi = mid
                trans.append((hi, o))
                cur = o
            t = n
    # verify against zoneinfo
    for (t, o) in trans:
        if t - 1 > -62100000000 and t < 253370764800:
            a, b = off_at(z, t - 1), off_at(z, t)
            if b != o:
                raise SystemExit(f"self-check failed for {name} at {t}: zoneinfo says {a}->{b}, table says ->{o}")
    out.write(f"Z {name} {initial}\n")
    for (t, o) in trans:
        out.write(f"T {t} {o}\n")
    return len(trans)


FAR_YEARS = (2400, 2801, 5000, 9998)


def export_far(name, out):
    """Windows far beyond the table, for zones whose footer carries a DST rule: the transitions of
    [Y-1 Dec 1, Y+1 Feb 1) found by bisecting zoneinfo's utcoffset, emitted as a separate `Z` entry."""
    p = parse_tzif(os.path.join(ZI, name))
    if p is None or "," not in p[3]:
        return 0
    z = zoneinfo.ZoneInfo(name)
    n = 0
    for y in FAR_YEARS:
        a = int(dt.datetime(y - 1, 12, 1, tzinfo=UTC).timestamp())
        b = int(dt.datetime(min(y + 1, 9999), 2 if y + 1 < 9999 else 12, 1, tzinfo=UTC).timestamp())
        t, cur = a, off_at(z, a)
        initial = cur
        trans = []
        while t < b:
            nx = min(t + 86400 * 5, b)
            o = off_at(z, nx)
            if o != cur:
                lo, hi = t, nx
                while hi - lo > 1:
                    mid = (lo + hi) // 2
                    if off_at(z, mid) == cur:
                        lo = mid
                    else:
                        hi = mid
                trans.append((hi, o))
                cur = o
            t = nx
        # keep only windows whose transitions are well inside
        trans = [(t, o) for (t, o) in trans]
        if not trans or trans[0][0] - a < 25 * 86400 or b - trans[-1][0] < 25 * 86400:
            continue
        out.write(f"Z {name} {initial}\n")
        for (t, o) in trans:
            out.write(f"T {t} {o}\n")
        n += len(trans)
    return n


def main():
    if len(sys.argv) > 2 and sys.argv[1] == "--far":
        dest = sys.argv[2]
        n = 0
        with open(dest + ".tmp", "w") as out:
            for name in names():
                try:
                    n += export_far(name, out)
                except (zoneinfo.ZoneInfoNotFoundError, FileNotFoundError, ValueError):
                    continue
        os.replace(dest + ".tmp", dest)
        print(f"exported {n} far-future transitions to {dest}")
        return
    dest = sys.argv[1]
    until = int(sys.argv[2]) if len(sys.argv) > 2 else 2120
    tmp = dest + ".tmp"
    n = 0
    with open(tmp, "w") as out:
        for name in names():
            try:
                n += export(name, until, out)
            except (zoneinfo.ZoneInfoNotFoundError, FileNotFoundError, ValueError):
                continue
    os.replace(tmp, dest)
    print(f"exported {n} transitions to {dest}")


if __name__ == "__main__":
    main()
