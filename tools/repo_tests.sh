#!/bin/bash
# Run the pinned suite (92 nextest) and the compiled_data lib tests of /repo's working tree.
cd /repo || exit 2
log=${1:-/dev/null}
(cargo nextest run --workspace --no-fail-fast --tool-config-file pb:/w/lib/nextest.toml --profile pb --test-threads 8 --offline 2>&1 | tee -a $log | grep -E "Summary|FAIL" | head -5) 
cargo test --offline --features compiled_data --lib 2>&1 | tee -a $log | grep -E "^test result|FAILED|failed" | head -5
