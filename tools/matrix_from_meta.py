#!/usr/bin/env python3
"""Rewrite seeded/MATRIX.md from the seeds' meta.json files (written by tools/seed_matrix.py when it ran them).
Nothing is run here; use it to tidy the table after partial re-runs of the matrix."""
import json, os, re

SEEDED = os.path.join(os.path.dirname(os.path.dirname(os.path.abspath(__file__))), "seeded")


def key(sid):
    m = re.match(r"C(\d+)-(\d+)", sid)
    return (int(m.group(1)), int(m.group(2))) if m else (999, 0)


rows = []
for sid in sorted((d for d in os.listdir(SEEDED) if os.path.isdir(os.path.join(SEEDED, d))), key=key):
    meta = json.load(open(os.path.join(SEEDED, sid, "meta.json")))
    d = meta.get("detected_by") or {}
    detected = d.get("exit_code") == 1 and d.get("detected", True)
    first_miss = meta.get("first_run_not_detected")
    note = "caught after the workload was extended (see meta.json)" if first_miss else ""
    rows.append((sid, meta.get("breaks_property", sid[:3])[:3], "DETECTED" if detected else f"not detected (exit {d.get('exit_code')})", d.get("first_signature") or "", note))
with open(os.path.join(SEEDED, "MATRIX.md"), "w") as f:
    f.write("# Seeded changes and the check that catches them\n\nEach change was produced by a fresh sub-agent that saw only the property text, confirmed here (patch applies at the "
            "recorded commit, the existing suite passes with it, the demonstration fails with it and passes without it) and then applied to /repo, checked with the property's quick "
            "tier and reverted (tools/seed_matrix.py). Changes numbered 4 and above come from the second and third rounds of independent sub-agents.\n\n"
            "| seed | property | quick check | first new signature | note |\n|---|---|---|---|---|\n")
    for row in rows:
        f.write("| " + " | ".join(str(x).replace("|", "\\|") for x in row) + " |\n")
    n = sum(1 for r in rows if r[2] == "DETECTED")
    f.write(f"\n{n} of {len(rows)} detected.\n")
print(f"{len(rows)} seeds, {sum(1 for r in rows if r[2] == 'DETECTED')} detected")
