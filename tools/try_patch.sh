#!/bin/bash
# usage: tools/try_patch.sh <patch.diff> <Cxx> [<Cxx> ...]
# Applies a seeded change to /repo, runs the quick checks named, and always restores /repo.
set -u
patch="$(realpath "$1")"; shift
cd /repo || exit 2
if [ -n "$(git status --porcelain --untracked-files=no)" ]; then echo "/repo has uncommitted changes; refusing"; exit 2; fi
if ! git apply --check "$patch" 2>/dev/null; then
  if git apply --3way --check "$patch" 2>/dev/null; then :; else echo "PATCH DOES NOT APPLY: $patch"; exit 2; fi
fi
git apply "$patch" || { echo "apply failed"; git checkout -- .; exit 2; }
trap 'git -C /repo checkout -- . ; git -C /repo clean -fdq -e target' EXIT
cd /verif
for c in "$@"; do
  out=$(./check run "$c" --tier quick 2>/dev/null)
  rc=$?
  echo "== $c rc=$rc"
  echo "$out" | grep -E "^(VIOLATION|KNOWN-FINDING|INCONCLUSIVE|  signature|  case|  got|  expected|C[0-9]+ tier)" | cut -c1-300 | head -${TRY_LINES:-14}
done
