#!/usr/bin/env python3
"""Apply every seeded change to /repo in turn, run the quick check of the property it breaks, restore /repo, and
record the outcome in seeded/<id>/meta.json (detected_by) and seeded/MATRIX.md. Nothing is committed to /repo."""
import json, os, re, subprocess, sys, time

VERIF = os.path.dirname(os.path.dirname(os.path.abspath(__file__)))
SEEDED = os.path.join(VERIF, "seeded")


def sh(cmd, **kw):
    return subprocess.run(cmd, shell=True, capture_output=True, text=True, **kw)


def main():
    only = sys.argv[1:]
    rows = []
    ids = sorted(d for d in os.listdir(SEEDED) if os.path.isdir(os.path.join(SEEDED, d)))
    for sid in ids:
        if only and not any(sid.startswith(o) for o in only):
            continue
        d = os.path.join(SEEDED, sid)
        meta = json.load(open(os.path.join(d, "meta.json")))
        prop = meta.get("breaks_property", sid.split("-")[0])[:3]
        if sh("git -C /repo status --porcelain").stdout.strip():
            print("repo not clean, aborting")
            return 2
        ap = sh(f"git -C /repo apply {d}/patch.diff")
        if ap.returncode != 0:
            rows.append((sid, prop, "patch does not apply", "", ""))
            continue
        t0 = time.time()
        r = sh(f"{VERIF}/check run {prop} --tier quick", cwd=VERIF)
        sh("git -C /repo checkout -- .")
        out = r.stdout
        sigs = re.findall(r"signature: (.*?)\s+\(x\d+\)", out)
        first = re.search(r"^(C\d\d tier=.*)$", out, re.M)
        detected = r.returncode == 1 and "VIOLATION property=" in out
        meta["detected_by"] = {"check": f"{prop} quick", "exit_code": r.returncode, "new_violating_signatures": len(sigs), "first_signature": sigs[0] if sigs else None} if detected else {"check": f"{prop} quick", "exit_code": r.returncode, "detected": False}
        json.dump(meta, open(os.path.join(d, "meta.json"), "w"), indent=1)
        rows.append((sid, prop, "DETECTED" if detected else f"not detected (exit {r.returncode})", sigs[0] if sigs else "", f"{time.time() - t0:.0f}s"))
        print(rows[-1], flush=True)
    with open(os.path.join(SEEDED, "MATRIX.md"), "w" if not only else "a") as f:
        if not only:
            f.write("# Seeded changes and the check that catches them\n\nEach change was produced by a fresh sub-agent that saw only the property text, confirmed here (patch applies at the recorded commit, the existing suite passes with it, the demonstration fails with it and passes without it) and then applied to /repo, checked with the property's quick tier and reverted.\n\n| seed | property | quick check | first new signature | time |\n|---|---|---|---|---|\n")
        for row in rows:
            f.write("| " + " | ".join(str(x).replace("|", "\\|") for x in row) + " |\n")
    return 0


if __name__ == "__main__":
    sys.exit(main())
