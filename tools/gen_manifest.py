#!/usr/bin/env python3
"""Regenerates /verif/MANIFEST.json from driver/legs.py (PROPS[..]['manifest']) and properties.jsonl."""
import json, os, subprocess, sys
V = os.path.dirname(os.path.dirname(os.path.abspath(__file__)))
sys.path.insert(0, os.path.join(V, "driver"))
import legs
props = [json.loads(l) for l in open(os.path.join(V, "properties.jsonl"))]
checks, na = [], []
for p in props:
    pid = p["id"]
    spec = legs.PROPS.get(pid)
    if spec and spec.get("manifest"):
        m = spec["manifest"]
        checks.append({
            "property_id": pid,
            "quick_cmd": f"./check run {pid} --tier quick",
            "thorough_cmd": f"./check run {pid} --tier thorough",
            "evidence_file": f"/verif/evidence/{pid}.json",
            "replay_cmd_template": "./check replay {path}",
            "engine": "tvh",
            "technique": m["technique"],
            "level_claimed": {"category": spec.get("level", "exploration"), "text": m["text"], "design_ref": f"DESIGN.md section 6, {pid}"},
            "level_note": m["note"],
        })
    else:
        na.append({"property_id": pid, "reason": legs.NOT_CLAIMED.get(pid, "check not built yet in this round (design in DESIGN.md section 6); it will be claimed once its monitor is silent on the unchanged tree")})
hooks = subprocess.run(["git", "-C", "/repo", "log", "--format=%h", "--grep=^verif[_ ]hooks"], capture_output=True, text=True).stdout.split()
man = {
    "version": 1,
    "setup_cmd": "./check setup",
    "hooks": {"guard": "verif_hooks",
              "enable": "cargo feature `verif_hooks` of temporal_rs (the harness crate /verif/harness depends on /repo by path with features compiled_data+verif_hooks)",
              "baseline_off_cmd": "cd /repo && cargo nextest run --workspace --no-fail-fast --tool-config-file pb:/w/lib/nextest.toml --profile pb --test-threads 8 --offline",
              "source_commits": hooks, "add_only": True},
    "engines": [{"name": "tvh", "path": "/verif/harness", "serves_properties": [c["property_id"] for c in checks],
                 "kind_free_text": "Rust harness: seeded workload generators, clean-room reference-model oracles, panic-capturing call wrapper, per-clause counters; driven by /verif/check (python3 stdlib) which shards, merges, classifies against KNOWN_FINDINGS.txt and writes evidence"}],
    "checks": checks,
    "not_applicable": na,
    "notes": "Runtime monitoring and sanitizers only (see DESIGN.md). Exit 0 = held on everything explored, 1 = VIOLATION, 3 = inconclusive (harness problem).",
}
json.dump(man, open(os.path.join(V, "MANIFEST.json"), "w"), indent=1)
print(f"claimed: {[c['property_id'] for c in checks]}  not claimed: {[n['property_id'] for n in na]}")
