#!/bin/bash
# usage: tools/confirm_seed.sh <Cxx> <i> <breaks-property> 
# Confirms, in the scratch worktree /tmp/seed/<Cxx>, that patch_i compiles, the existing test suite passes with it,
# and demo_i fails with it and passes without it. On success stores /verif/seeded/<Cxx>-<i>/.
set -u
id="$1"; i="$2"; prop="${3:-$1}"
wt=/tmp/seed/$id
out=$wt/out
export CARGO_TARGET_DIR=$wt/target CARGO_NET_OFFLINE=true
cd $wt || exit 2
head=$(git -C /repo rev-parse HEAD)
git checkout -q -- . ; git clean -fdq -e target -e out
git checkout -q --detach $head || exit 2
log=$out/confirm_$i.log; : > $log
res() { echo "$1" | tee -a $log; }
git apply --check $out/patch_$i.diff 2>>$log || { res "RESULT $id-$i: patch does not apply at $head"; exit 1; }
mkdir -p tests; cp $out/demo_$i.rs tests/demo_$i.rs
# clean tree: demo passes
if cargo test --offline --features compiled_data --test demo_$i >>$log 2>&1; then res "clean: demo passes"; else res "RESULT $id-$i: demo FAILS on clean tree"; rm -rf tests; exit 1; fi
git apply $out/patch_$i.diff
if cargo test --offline --features compiled_data --test demo_$i >>$log 2>&1; then res "RESULT $id-$i: demo PASSES with patch (not a demonstration)"; git checkout -q -- .; rm -rf tests; exit 1; else res "patched: demo fails"; fi
rm -rf tests
# existing suite with the patch
if (cargo nextest run --workspace --no-fail-fast --tool-config-file pb:/w/lib/nextest.toml --profile pb --test-threads 8 --offline >>$log 2>&1) && (cargo test --offline --features compiled_data --lib >>$log 2>&1); then res "patched: existing suite passes (92 nextest + 128 compiled_data lib)"; else res "RESULT $id-$i: existing suite FAILS with patch"; git checkout -q -- .; exit 1; fi
git checkout -q -- .
d=/verif/seeded/$id-$i; mkdir -p $d
cp $out/patch_$i.diff $d/patch.diff; cp $out/demo_$i.rs $d/demo.rs; cp $out/notes_$i.md $d/notes.md
python3 - "$d" "$prop" "$head" <<'PY'
import json,sys
d,prop,head=sys.argv[1:4]
notes=open(d+'/notes.md').read()
json.dump({"breaks_property":prop,"base_commit":head,"needs_to_manifest":notes.strip().split('\n')[0:12],
 "confirmed":{"patch_applies":True,"demo_passes_on_clean_tree":True,"demo_fails_with_patch":True,"existing_suite_passes_with_patch":True,
 "commands":["cargo test --offline --features compiled_data --test demo (clean, patched)","cargo nextest run --workspace ... --offline (patched)","cargo test --offline --features compiled_data --lib (patched)"]},
 "detected_by":None},open(d+'/meta.json','w'),indent=1)
PY
res "RESULT $id-$i: CONFIRMED -> $d"
