"""Triage of a shard process that did not finish: death by signal, a non-zero exit without a report, or no progress.

The harness writes the index of the case it is working on to `<out>.cur` (8 bytes, little endian) before every case.
When a shard dies, the case it was in is replayed ALONE, twice, in a child process with a CPU budget (RLIMIT_CPU) and an
address-space limit. The verdict is three-valued:

  * both replays end the same abnormal way (same signal, or both exhaust the CPU budget)  -> confirmed: the call neither
    returned a value nor an error. That is a violation (C03 names it; for every other property the expected value or
    error was not produced either).
  * a replay finishes normally, or the two replays disagree                                -> not reproduced: inconclusive
    (machine load, OOM killer, ...). Never a violation.

Nothing here looks at wall-clock time for the verdict: the no-progress detector and the replay budget both count CPU seconds
of the process itself, and they are sized far above the slowest legitimate case (evidence field max_case_ms).
"""
import os, re, resource, signal, struct, subprocess, time

# CPU seconds one isolated case may use before it counts as not terminating; the slowest legitimate case of any
# monitor measured on this tree is in the evidence files (max_case_ms), two orders of magnitude below.
CASE_CPU_BUDGET = 900
# CPU seconds a running shard may spend inside ONE case before it is stopped and triaged
STALL_CPU = 1200
ADDRESS_SPACE = 24 << 30


def marker_path(out):
    return out + ".cur"


def read_marker(out):
    try:
        b = open(marker_path(out), "rb").read(8)
        return struct.unpack("<Q", b)[0] if len(b) == 8 else None
    except OSError:
        return None


def proc_cpu_seconds(pid):
    try:
        f = open(f"/proc/{pid}/stat").read()
        rest = f[f.rindex(")") + 2:].split()
        return (int(rest[11]) + int(rest[12])) / os.sysconf("SC_CLK_TCK")
    except (OSError, ValueError, IndexError):
        return None


_case_budget = [CASE_CPU_BUDGET]


def _limits():
    resource.setrlimit(resource.RLIMIT_CPU, (_case_budget[0], _case_budget[0] + 10))
    resource.setrlimit(resource.RLIMIT_AS, (ADDRESS_SPACE, ADDRESS_SPACE))
    resource.setrlimit(resource.RLIMIT_CORE, (0, 0))


def _mask(s):
    return re.sub(r"\d+", "N", s)


def classify(returncode, stderr):
    """A short stable label of how a process ended abnormally, or None if it ended normally."""
    text = stderr or ""
    if returncode == 0:
        return None
    if returncode < 0:
        sig = -returncode
        if sig in (signal.SIGXCPU, signal.SIGKILL) and "cpu-budget" in text:
            return "no termination within the CPU budget"
        if sig == signal.SIGXCPU:
            return "no termination within the CPU budget"
        name = signal.Signals(sig).name if sig in signal.Signals._value2member_map_ else f"signal {sig}"
        m = None
        for line in text.splitlines():
            if "panicked at" in line or "overflowed its stack" in line or "memory allocation of" in line or "unsafe precondition" in line:
                m = line.strip()
        if m:
            # keep file (and line inside the repository) but mask other digits
            loc = re.search(r"panicked at ([^\s:]+):(\d+)", m)
            if loc:
                f = loc.group(1)
                return f"{name}: panic that cannot unwind at {f}" + (f":{loc.group(2)}" if "/repo/" in f or f.startswith("src/") else "")
            return f"{name}: {_mask(m)[:120]}"
        return name
    return f"exit {returncode}"


def replay_once(cmd, out, idx, cwd):
    tri = out + ".triage.json"
    if os.path.exists(tri):
        os.remove(tri)
    c = list(cmd) + ["--only", str(idx), "--out", tri]
    t0 = time.time()
    try:
        p = subprocess.run(c, cwd=cwd, stdout=subprocess.DEVNULL, stderr=subprocess.PIPE, preexec_fn=_limits, timeout=_case_budget[0] * 6)
        rc, err = p.returncode, (p.stderr or b"").decode(errors="replace")
    except subprocess.TimeoutExpired as e:
        # wall-clock watchdog of the replay itself: inconclusive by construction
        return {"label": None, "watchdog": True, "seconds": time.time() - t0, "stderr": ""}
    err = "\n".join(l for l in err.splitlines() if not l.startswith("ICU4X data error"))
    for f in (tri, marker_path(tri)):
        if os.path.exists(f):
            os.remove(f)
    return {"label": classify(rc, err), "watchdog": False, "returncode": rc, "seconds": time.time() - t0, "stderr": err[-1500:]}


def triage(cmd, out, cwd, how):
    """`how`: text saying how the shard ended ('exit -6', 'no progress', 'watchdog').
    Returns {"confirmed": bool, "label": str|None, "case_idx": int|None, "detail": str, "cmd": [...]}"""
    idx = read_marker(out)
    res = {"confirmed": False, "label": None, "case_idx": idx, "how": how, "detail": "", "cmd": None}
    if idx is None:
        res["detail"] = "no progress marker: the shard died before its first case"
        return res
    res["cmd"] = list(cmd) + ["--only", str(idx)]
    a = replay_once(cmd, out, idx, cwd)
    if a["label"] is None:
        res["detail"] = "isolated replay of the case finished normally" if not a["watchdog"] else "isolated replay hit the wall-clock watchdog"
        return res
    b = replay_once(cmd, out, idx, cwd)
    if b["label"] != a["label"]:
        res["detail"] = f"two isolated replays disagree: {a['label']!r} vs {b['label']!r}"
        return res
    res.update(confirmed=True, label=a["label"], detail=a["stderr"][-800:], seconds=[round(a["seconds"], 1), round(b["seconds"], 1)])
    return res


def violation(prop, workload, tri, shard, build, seed, tier, nshards):
    """The violation record (same layout as the harness's) for a confirmed death."""
    clause = "C03.death" if prop == "C03" else f"{prop}.no_result"
    sig = f"{prop}/{clause}/{workload}/{tri['label']}"
    return {"sig": sig, "count": 1,
            "witnesses": [{"clause": clause, "op": workload, "shape": tri["label"],
                           "case": {"shard": shard, "nshards": nshards, "build": build, "seed": seed, "tier": tier, "case_idx": tri["case_idx"],
                                    "replay_command": " ".join(tri["cmd"] or []), "how_the_shard_ended": tri["how"], "isolated_replays_seconds": tri.get("seconds")},
                           "got": f"process death, reproduced twice replaying the case alone: {tri['label']}\n{tri['detail']}",
                           "expected": "a value or a Type/Range/Syntax error", "case_idx": tri["case_idx"] or 0}]}


MAX_TRIAGED = 3


def run_procs(jobs, cwd, prop, workload, tier, seed, timeout=None, log=None, budgets=None):
    """Run shard processes in parallel with a no-progress detector; triage shards that do not finish.

    jobs: list of {"shard": i, "nshards": n, "build": b, "cmd": [...], "out": path, "env": dict|None}
    Returns (reports, problems): reports are the shards' JSON reports plus one synthetic report per confirmed death
    (carrying the violation); problems are the inconclusive endings. At most MAX_TRIAGED dead shards are replayed (in
    parallel); further dead shards are only counted - a violation if one of the replayed ones was confirmed,
    inconclusive otherwise."""
    import json
    from concurrent.futures import ThreadPoolExecutor
    # budgets: (CPU seconds inside one case before a running shard is stopped, CPU seconds of an isolated replay); a monitor
    # whose legitimate cases are long (C16 thorough: one case scans a calendar over 3000 years, about 5 min) passes larger ones
    stall_cpu, case_cpu = budgets or (STALL_CPU, CASE_CPU_BUDGET)
    _case_budget[0] = case_cpu
    live = {}
    for j in jobs:
        for f in (j["out"], marker_path(j["out"])):
            if os.path.exists(f):
                os.remove(f)
        errf = open(j["out"] + ".stderr", "wb")
        p = subprocess.Popen(j["cmd"], cwd=cwd, env=j.get("env"), stdout=subprocess.DEVNULL, stderr=errf)
        live[j["shard"]] = {"job": j, "p": p, "errf": errf, "idx": None, "cpu_at_change": 0.0, "last_poll": 0.0}
    reports, problems, dead = [], [], []
    deadline = time.time() + (timeout or 3 * 3600)

    def stderr_of(j):
        try:
            t = open(j["out"] + ".stderr", "rb").read().decode(errors="replace")
        except OSError:
            return ""
        return "\n".join(l for l in t.splitlines() if not l.startswith("ICU4X data error"))

    def ended(st, how, rc):
        j = st["job"]
        st["errf"].close()
        if rc == 0 and os.path.exists(j["out"]):
            reports.append(json.load(open(j["out"])))
            if os.path.exists(j["out"] + ".stderr"):
                os.remove(j["out"] + ".stderr")
            return
        err = stderr_of(j)
        # exit code 101 = a panic of the harness itself (reported on stderr): a harness error, never a verdict
        if rc is not None and rc > 0:
            problems.append({"shard": j["shard"], "build": j["build"], "kind": f"exit {rc}", "cmd": j["cmd"], "stderr": err[-2000:]})
            return
        dead.append((j, how, err))

    while live:
        time.sleep(0.25)
        now = time.time()
        for i in list(live):
            st = live[i]
            rc = st["p"].poll()
            if rc is not None:
                del live[i]
                ended(st, f"exit {rc}" if rc >= 0 else (classify(rc, "") or f"exit {rc}"), rc)
                continue
            if now > deadline:
                st["p"].kill()
                st["p"].wait()
                del live[i]
                ended(st, "stopped by the wall-clock watchdog of the run", None)
                continue
            if now - st["last_poll"] >= 5:
                st["last_poll"] = now
                idx = read_marker(st["job"]["out"])
                cpu = proc_cpu_seconds(st["p"].pid)
                if cpu is None:
                    continue
                if idx != st["idx"]:
                    st["idx"], st["cpu_at_change"] = idx, cpu
                elif idx is not None and cpu - st["cpu_at_change"] > stall_cpu:
                    st["p"].kill()
                    st["p"].wait()
                    del live[i]
                    ended(st, f"stopped after {stall_cpu} CPU seconds inside one case", None)
    if not dead:
        return reports, problems
    chosen, rest = dead[:MAX_TRIAGED], dead[MAX_TRIAGED:]
    if log:
        log(f"{len(dead)} shard(s) of the {workload} ended abnormally ({'; '.join(sorted({h for _, h, _ in dead}))}); "
            f"replaying the case {len(chosen)} of them were in, alone, twice, with a CPU budget of {case_cpu} s")
    with ThreadPoolExecutor(max_workers=MAX_TRIAGED) as ex:
        tris = list(ex.map(lambda d: triage(d[0]["cmd"], d[0]["out"], cwd, d[1]), chosen))
    confirmed = 0
    for (j, how, err), tri in zip(chosen, tris):
        if tri["confirmed"]:
            confirmed += 1
            v = violation(prop, workload, tri, j["shard"], j["build"], seed, tier, j["nshards"])
            reports.append({"evaluations": 0, "distinct_nontrivial": 0, "counters": {"deaths/confirmed": 1}, "samples": [], "violations": [v],
                            "shard": j["shard"], "nshards": j["nshards"], "seed": seed, "tier": tier, "build": j["build"], "harness_errors": [],
                            "notes": [f"shard {j['shard']} ({j['build']}) did not finish its workload: {tri['label']} in case {tri['case_idx']}"]})
        else:
            problems.append({"shard": j["shard"], "build": j["build"], "kind": f"{how}; not reproduced in isolation ({tri['detail']})", "cmd": j["cmd"],
                             "stderr": err[-1500:]})
    for j, how, err in rest:
        if confirmed:
            reports.append({"evaluations": 0, "distinct_nontrivial": 0, "counters": {"deaths/not_replayed": 1}, "samples": [], "violations": [],
                            "shard": j["shard"], "nshards": j["nshards"], "seed": seed, "tier": tier, "build": j["build"], "harness_errors": [],
                            "notes": [f"shard {j['shard']} ({j['build']}) did not finish its workload either ({how}); not replayed"]})
        else:
            problems.append({"shard": j["shard"], "build": j["build"], "kind": f"{how}; not replayed", "cmd": j["cmd"], "stderr": err[-800:]})
    return reports, problems
