"""Per-property configuration of the driver: builds, extra legs, evidence rule text."""

PROPS = {
    "C01": {
        "builds": ["chk"],
        "rule": ("walk of the day odometer (thorough: all 200 000 002 days of -271821-04-19..+275760-09-13, exhaustive; quick: every day "
                 "of 1500..2500, +-800 days at both limits, year 0, the 16-bit Neri-Schneider limits, +-40 days around every century "
                 "boundary, 2e6 seeded random days) plus seeded random pairs; every visited day is a distinct case and non-trivial "
                 "(nine clauses evaluated per day: ctor, fields, derived, succ, anchor, instant, order, monthend, kernel); pairs are "
                 "distinct by (ka,kb) fingerprint"),
        "assumptions": ["the day odometer (textbook leap rule, 12-entry month table) is the reference; cross-checked against Hinnant's closed forms at every slice hand-over and against Python datetime in setup"],
    },
}


def setup(ctx):
    return 0
