"""Per-property configuration of the driver: builds, extra legs, evidence rule text."""

PROPS = {
    "C01": {
        "builds": ["chk"],
        "rule": ("walk of the day odometer (thorough: all 200 000 002 days of -271821-04-19..+275760-09-13, exhaustive; quick: every day "
                 "of 1500..2500, +-800 days at both limits, year 0, the 16-bit Neri-Schneider limits, +-40 days around every century "
                 "boundary, 2e6 seeded random days) plus seeded random pairs; every visited day is a distinct case and non-trivial "
                 "(nine clauses evaluated per day: ctor, fields, derived, succ, anchor, instant, order, monthend, kernel); pairs are "
                 "distinct by (ka,kb) fingerprint"),
        "assumptions": ["the day odometer (textbook leap rule, 12-entry month table) is the reference; cross-checked against Hinnant's closed forms at every slice hand-over and against Python datetime in setup"],
        "manifest": {
            "technique": "runtime monitoring: exhaustive day-odometer walk over the public API with a reference-model oracle",
            "text": "Thorough tier enumerates all 200 000 002 days of the supported range (exhaustive: true in evidence) and evaluates nine oracle clauses per day against an independent day odometer; quick tier walks ~1.1e6 boundary-directed days plus 2e6 random days and 1e6 random pairs. A clean thorough run means the statement holds for every day of the finite range for the listed public entry points.",
            "note": "Trusted: the odometer reference model (textbook leap rule), rustc. Nothing is said about non-ISO calendars (C16).",
        },
    },
    "C04": {
        "builds": ["chk", "rel"],
        "rule": ("add/subtract: hostile dates (month ends 28..31, Feb 29, Jan 1/Dec 31, both limits +-40 days, years -3..3, negative years, random) x sign-uniform durations "
                 "(each unit alone and mixed; magnitudes {0,1,11,12,13,7,28..31,365,366,1e5, range size +-2, 2^31 +-1, 2^32-1, random}; time units contributing whole days) x both "
                 "overflow modes, compared with the AddISODate model; until/since: pairs at distances {0, +-1 d, ~1 month, ~1 year, centuries, whole range, limits} x four largest "
                 "units compared with the DifferenceISODate model and with the laws add(until)=end, since=-until, balanced/sign-uniform, day distance; since(rounded, mode m) = "
                 "-until(rounded, mirrored m). non-trivial = month-end/leap-day/out-of-range (add) or month-end/long/negative span (diff); distinct by case fingerprint"),
        "assumptions": ["refmodel::date transcribes AddISODate/DifferenceISODate from the specification; the model itself satisfies the inverse law (unit test)"],
        "manifest": {
            "technique": "runtime monitoring: transcribed-specification reference model plus algebraic laws evaluated on every observed add/subtract/until/since call, two builds",
            "text": "Each observed result of PlainDate add/subtract/until/since is compared with a clean-room AddISODate/DifferenceISODate model (including the error kind at the limits and under reject) and the laws stated in the property are evaluated on the implementation's own outputs. Inputs are generated, not enumerated: month ends, leap days, range limits, i32/u32 extremes and random values; both the overflow-checking and the release build are exercised.",
            "note": "Trusted: refmodel::date, refmodel::civil. A panicking operation is counted inconclusive here and reported by C03.",
        },
    },
    "C05": {
        "builds": ["chk", "rel"],
        "rule": ("add/subtract: hostile date-times (C04 date generator x times {00:00, 23:59:59.999999999, within 1 s of midnight, whole seconds, all-distinct, random}) x sign-uniform durations "
                 "mixing date units with time parts that carry 0, +-1 or many days (incl. landing exactly on/around midnight) x both overflow modes vs the AddDateTime model (exact "
                 "ns-of-day carry + AddISODate + date-time limit); until/since: pairs incl. the borrow branch (time-of-day order opposite to date order), ~1 month, ~1 year, random, "
                 "x all ten largest units vs the DifferenceISODateTime model and the laws (inverse when all fields < 2^53, since=-until, sign-uniform, |time part| < 24 h); round: every "
                 "unit x admissible increment x 9 modes x position-in-step incl. the last step of the day and the first/last representable days vs the exact rounding oracle. "
                 "non-trivial = time carry crosses a day (add), borrow branch (diff), value not a multiple (round); distinct by case fingerprint"),
        "assumptions": ["refmodel::date + exact ns-of-day arithmetic; duration fields above 2^53 are the nearest double of the exact value, so the inverse law is not judged for them (counted)"],
        "manifest": {
            "technique": "runtime monitoring: exact carry/borrow reference model and laws over observed PlainDateTime add/subtract/until/since/round calls, two builds",
            "text": "Every observed PlainDateTime add/subtract result is compared with an exact model (nanosecond-of-day carry, then the C04 date model, then the date-time limits, RangeError otherwise); until/since with the transcribed DifferenceISODateTime for all ten largest units plus the property's laws on the implementation's own output; round with exact RoundNumberToIncrement from midnight including day carry and the range limit. Generated workloads concentrate on midnight carries, the borrow branch and the two range limits.",
            "note": "Trusted: refmodel::date/civil/round/dur. Panics and internal-assertion errors are counted inconclusive here and judged by C03.",
        },
    },
    "C06": {
        "builds": ["chk", "rel"],
        "rule": ("seeded valid time-only durations with hostile magnitudes (single huge fields up to 9.007e24 ns, fields beyond 2^63 ns, mixed fields, both signs; "
                 "directed vectors from DESIGN.md) x wall-clock times {00:00, 23:59:59.999999999, all-distinct, random} x instants {limits, negative "
                 "sub-millisecond, random}; each case evaluates add/subtract/add_time_duration on PlainTime and Instant, refusal of date units, until/since "
                 "for every time largest unit, epoch-millisecond floor law. non-trivial = |total| >= 2^63 ns, or the time wraps midnight, or the instant is "
                 "negative; distinct by (receiver,total) fingerprint. Run in both the overflow-checking and the plain release build"),
        "assumptions": ["refmodel::dur: exact i128 totals, BalanceTimeDuration, IsValidDuration; duration fields above 2^53 are the nearest double of the exact balanced value"],
        "manifest": {
            "technique": "runtime monitoring: exact big-integer arithmetic oracle on observed add/subtract/until/since/epochMilliseconds calls, two builds",
            "text": "Every observed PlainTime/Instant arithmetic result is compared with exact integer arithmetic on the duration's total nanoseconds (mod 24 h for times, range-checked for instants); differences are compared field by field with the exact balance. Workload concentrates on totals beyond 2^63 ns, midnight wraps, the instant limits and negative instants. Holds on the executions generated; not a proof for all durations.",
            "note": "Trusted: refmodel::dur. Durations that the constructor refuses although the model calls them valid are counted inconclusive here (the verdict belongs to C09/C02).",
        },
    },
    "C07": {
        "builds": ["chk"],
        "rule": ("(a) hook sweep, exhaustive for the stated space: round_i128 for inc in 1..=64, {100,125,1000,999999937} x every x in [-3inc,3inc] and "
                 "{1e9,60e9,3600e9,86400e9} x residues {0,1,inc/2-1,floor,ceil,inc/2+1,inc-1} x k in -3..3; round_f64 for inc 1..=12 x every x=n/64 in "
                 "[-3inc,3inc]; all 9 modes. (b) public entry points: PlainTime/PlainDateTime/Instant::round (every unit x every admissible increment "
                 "x 9 modes x offsets {exact, +1, below-half, tie/floor-half, ceil-half, above-half, inc-1, random} + random fill), until/since of "
                 "PlainTime/PlainDateTime/Instant with smallestUnit/increment/mode (x 3 largest-unit choices) and PlainDate with day increments, "
                 "toString of PlainTime/PlainDateTime/Instant/ZonedDateTime with Digit(0..9)/smallestUnit x 9 modes decoded from the printed digits. "
                 "non-trivial = the exact value is not a multiple of the increment; distinct = (op,value,step,mode) fingerprint; ties counted per op"),
        "assumptions": ["refmodel::round (exact integer/rational RoundNumberToIncrement, 60 lines) is the oracle",
                        "halfEven ties of wall-clock rounding accept either parity origin (midnight or enclosing unit) when they differ; counted as halfeven_origin_ambiguous"],
        "manifest": {
            "technique": "runtime monitoring: exact-rational rounding oracle over an exhaustive residue-class sweep (hooks) and directed+random public-API workloads",
            "text": "Every rounded result observed at the public API (round, until/since, toString precision) and at the rounding-kernel hooks is compared with exact RoundNumberToIncrement. The hook sweep enumerates its stated space completely (all residues, both signs, nine modes, integer and float instantiation); the public workloads hit every (unit, increment, mode, position-in-step) cell on every run plus seeded random fill. A clean run means no observed rounding differed; values not generated are not covered.",
            "note": "Trusted: refmodel::round. Negative values use sign-aware modes for every type (the property's plain reading).",
        },
    },
    "C09": {
        "builds": ["chk", "rel"],
        "rule": ("ten-field vectors drawn from {0, +-1, 59, 60, 999, 1000, 2^31+-1, 2^32-2..2^32+1, 2^53-2..2^53+2, per-unit share of the 2^53 s limit +-3, random} incl. mixed signs, "
                 "plus directed vectors (exactly 2^53 s - 1 ns, exactly 2^53 s spread over sub-second fields, 2^32 - 1 calendar units ...): Duration::new / from_partial_duration accept iff "
                 "IsValidDuration; negated/abs/sign fieldwise; add/subtract of calendar-free pairs = exact sum balanced to the larger default largest unit (calendar units refused); "
                 "compare(None) = order of exact totals (+ antisymmetry, reflexivity); round(None) over every (largest, smallest, admissible increment, mode) = exact rounding of the "
                 "total then balance, and round(-d, mirrored) = -round(d); total(None, unit) faithful to the exact rational. non-trivial = a field at/over a limit, or rounding changed "
                 "the total; distinct by case fingerprint"),
        "assumptions": ["refmodel::dur + refmodel::round; total(): the returned double must be one of the two doubles bracketing the exact quotient (faithful rounding); nearest-or-not is only counted",
                        "day smallest unit with increment > 1 is only used when the largest unit is day as well (the specification's later extra rule for that case is not judged)"],
        "manifest": {
            "technique": "runtime monitoring: exact IsValidDuration/total/balance/rounding oracle on observed Duration constructor, add, compare, round and total calls, two builds",
            "text": "Each observed result of the reference-date-free Duration operations is compared with exact integer/rational arithmetic on the ten fields; validity is decided exactly at the 2^32 and 2^53 s boundaries (directed vectors hit both sides on every run). Generated, not enumerated; holds on the executions produced.",
            "note": "Trusted: refmodel::dur, refmodel::round, the exact-division helper (unit-tested against f64 division of safe integers).",
        },
    },
    "C10": {
        "builds": ["chk"],
        "rule": ("complete option matrix, identical in both tiers: {until,since} x {PlainDate, PlainDateTime, PlainTime, PlainYearMonth, Instant, ZonedDateTime(UTC)} x largestUnit {absent, auto, 10 units} "
                 "x smallestUnit {absent, auto, 10 units} x increment {absent,1,2,3,4,5,6,7,8,10,12,15,20,24,25,30,59,60,100,500,999,1000,1001,86400,1e9} x mode {absent, 9 modes} x operands "
                 "{distinct, identical}; round x {PlainTime, PlainDateTime, Instant} x smallest x increment x mode; Duration::round x {time-only, calendar} duration x {no relativeTo, plain date} x "
                 "largest x smallest x increment x mode; Duration::total x unit; toString x {PlainTime, PlainDateTime, Instant, ZonedDateTime, Duration} x digits {auto,0,3,9,10,255} x smallestUnit x mode. "
                 "Every cell is a distinct case; accept/reject judged against the GetDifferenceSettings-style table, and for cells the exact models decide the resolved defaults are read off the value"),
        "assumptions": ["cells whose acceptance hinges on rules outside the three families named by the property (increment > 1 on a date unit with largest != smallest in Duration::round; an increment of 1e9 date units walking out of range) are counted undecided, not judged"],
        "manifest": {
            "technique": "runtime monitoring: exhaustive option-matrix enumeration against a table-driven acceptance model, defaults observed through results",
            "text": "The finite option space is enumerated completely on every run (about 1e6 cells, evidence says exhaustive: true): each cell's Ok/RangeError outcome is compared with a table model of Temporal's unit-group, largest>=smallest and increment rules, with identical operands included so that validation skipped by a fast path is visible; accepted cells that the exact rounding/balance models decide also check the resolved largest unit, mode (trunc for differences, halfExpand for round, negated for since) and increment through the returned value.",
            "note": "Trusted: the acceptance table (written from the specification's GetDifferenceSettings / round / toString option rules) and refmodel::round/dur.",
        },
    },
    "C11": {
        "builds": ["chk"],
        "rule": ("values of all eight types from hostile generators (years -271821, -1, 0, 1, 9999, 10000, 275760 via the C04 date generator; sub-second parts of every length 0-9; offsets with non-zero minutes, "
                 "negative offsets and -00:01; durations with only sub-second / only date / huge fields; 17 calendars) x display options that keep the information (calendarName x offset x timeZoneName x "
                 "fractional digits >= the value's own): text must equal an independent canonical writer byte for byte, parse back to the same value, and print identically again; plus every variant "
                 "of the ten option enums, month codes M01..M13/M01L..M12L, every whole-minute UTC offset, zone and calendar identifiers (mixed case). non-trivial = the value is not the type's zero "
                 "value; distinct by value fingerprint; per-feature counters (extended year, fraction length, negative offset ...) must all be > 0"),
        "assumptions": ["zoned values over fixed offsets and the named zone UTC served by the harness provider (bundled tz data is C15's subject)",
                        "a ZonedDateTime whose wall-clock date is more than 1e8 days from the epoch (instant within 24 h of a limit) is not parsed back: the specification's CheckISODaysRange refuses that text"],
        "manifest": {
            "technique": "runtime monitoring: independent canonical writer + parse-back identity over generated values of every type and every enum variant",
            "text": "Each formatted value is compared byte for byte with a clean-room canonical writer (year width, minimal/exact fraction digits, +-HH:MM offsets, annotation order and critical flags, duration components) and must parse back to an equal value and print identically again; enum, month-code, offset, zone and calendar names are enumerated completely. Values are generated, concentrating on year-format boundaries, fraction lengths, odd offsets and extreme durations.",
            "note": "Trusted: the canonical writer in mon/c11.rs (about 100 lines) and the harness UTC provider.",
        },
    },
    "C12": {
        "builds": ["chk"],
        "rule": ("strings x 11 parsers (PlainDate, PlainDateTime, PlainTime, PlainYearMonth, PlainMonthDay, Instant, ZonedDateTime over offset zones/UTC, Duration, MonthCode, UtcOffset, Calendar): ~190 type-rule "
                 "probes; every single-character deletion/insertion/substitution (29-symbol alphabet) of 8 canonical strings (complete, ~11 000 strings); grammar-directed generated strings in every syntactic "
                 "variant (extended/basic, T/t/space, ./, fractions of 1-9 digits, second 60, offsets +-HH / +-HHMM / +-HH:MM / +-HH:MM:SS(.fff) / Z / z, zone and calendar annotations with and without !, unknown and "
                 "duplicate annotations, signed six-digit years, short year-month / month-day / time forms, ISO 8601 durations), their single and double mutations and arbitrary strings over the alphabet. "
                 "The grammar model is three-valued; undecided strings are counted per reason and not judged. non-trivial = every judged (string, goal) pair; distinct by string fingerprint"),
        "assumptions": ["refmodel::grammar is the oracle (hand-written from the specification's productions; checked against a table of examples in its unit test)",
                        "zoned strings over named zones other than UTC, bare times that also read as year-month/month-day, full dates with a non-ISO calendar for year-month/month-day, UTC offset strings with a seconds part and Calendar::from_str on non date-time strings are undecided",
                        "disagreements on strings whose annotation / offset punctuation is lexically peculiar are keyed by that peculiarity (the lexer is the ixdtf dependency's) independent of the goal"],
        "manifest": {
            "technique": "runtime monitoring: independent grammar recogniser/evaluator as oracle over grammar-directed strings, exhaustive single-character mutations and random strings",
            "text": "Every observed parse outcome (accepted value, or RangeError) of the eleven string parsers is compared with a clean-room recogniser and evaluator of the Temporal ISO 8601 / RFC 9557 grammar including the per-type rules (Z on plain types, required offset/zone, critical and duplicate annotations, fraction length, negative zero year, ISO-only year-month/month-day short forms, date validity, range limits). The accept/reject frontier around valid strings is explored by complete single-character mutation of canonical strings plus random mutation; strings the model cannot decide are counted, not judged.",
            "note": "Trusted: refmodel::grammar. Known lexer deviations of the ixdtf dependency are listed in KNOWN_FINDINGS.txt keyed by lexical feature.",
        },
    },
    "C17": {
        "builds": ["chk", "rel"],
        "rule": ("receivers (C04 hostile dates, random times) x every subset of supplied fields (PlainDate/PlainYearMonth: year, month, monthCode, day = 16 subsets; PlainTime 64 subsets; "
                 "PlainDateTime 16 x 64 sampled) x values {0, 1, max valid, max valid + 1, type max; years incl. both limits +-1 and i32 extremes; month codes incl. M13, M05L, M00, M99; "
                 "agreeing and contradicting month/monthCode} x both overflow modes, for with / from_partial / new_with_overflow / new / try_new, compared with a reference merge; identity "
                 "law x.with(own fields) = x. non-trivial = the expected result differs from the receiver; distinct by case fingerprint"),
        "assumptions": ["ISO calendar only (era fields belong to C16)", "a supplied month or day of 0 is not judged (the property says clamp, the specification rejects it at conversion): counted undecided"],
        "manifest": {
            "technique": "runtime monitoring: reference field-merge oracle over all supplied-field subsets and hostile values, two builds",
            "text": "Every observed with/from_partial/constructor result (value or error kind) for PlainDate, PlainTime, PlainDateTime and PlainYearMonth is compared with a reference merge: supplied field, else the receiver's or the type default, then constrain/reject regulation for the resulting year and month, month/monthCode consistency, required-field TypeErrors and the range limits. All field subsets are covered on every run; values are drawn from boundary sets.",
            "note": "Trusted: the reference merge in mon/c17.rs and refmodel::civil.",
        },
    },
    "C18": {
        "builds": ["chk"],
        "rule": ("canonical form: year-months (thorough: all 6 570 978 year-months of -271821-04..+275760-09; quick: 4e5 sampled incl. the limits and the year-format boundaries) x 8 routes "
                 "(from_str YYYY-MM / YYYY-MM-DD / date-time / own always-text, from_partial with and without a day, with(same fields), PlainDate::to_plain_year_month) compared by ==, compare_iso and "
                 "all four DisplayCalendar texts with the expected canonical text; limit probes one month outside; month-days: all 12 x 31 (month, day) combinations x both overflow modes x 5 string "
                 "forms x dates of 5 years x a field record; arithmetic: add/subtract of year/month durations (whole range, limits, weeks/days refused) and until/since for largest year/month vs "
                 "the C04 model between firsts, plus month rounding with largest = smallest = month. distinct by (year, month) / (month, day) / arithmetic case fingerprint"),
        "assumptions": ["arithmetic from or onto -271821-04 is not judged: the first of that month is not a representable date and the specification's algorithm (via CalendarDateFromFields) throws there while the property names the month as the limit"],
        "manifest": {
            "technique": "runtime monitoring: route-equivalence and canonical-text oracle over all year-months (thorough) and all month-days, whole-month arithmetic model",
            "text": "Every year-month (thorough tier: the complete finite range) and every month-day is built through every public route and must be ==, compare equal and print byte-identical canonical text under all four calendar display options; only the explicit reference argument may differ. Arithmetic results are compared with exact whole-month arithmetic on (year, month), including refusal of week/day units and the two range limits.",
            "note": "Trusted: the canonical text writer in mon/c18.rs, refmodel::date for differences.",
        },
    },
}


def export_zones(ctx):
    """Export every zone of /usr/share/zoneinfo as an explicit transition table (self-verified against Python zoneinfo)."""
    import os, subprocess, sys
    dest = os.path.join(ctx["build"], "zones.tbl")
    if os.path.exists(dest) and os.path.getsize(dest) > 100000:
        return None
    r = subprocess.run([sys.executable, os.path.join(ctx["verif"], "oracle_py", "export_zones.py"), dest], capture_output=True, text=True)
    if r.returncode != 0:
        return (r.stdout + r.stderr)[-800:]
    return None


def export_far_zones(ctx):
    """Footer-rule transitions of years 2400, 2801, 5000 and 9998 (by Python zoneinfo) for the C15 far-future windows."""
    import os, subprocess, sys
    dest = os.path.join(ctx["build"], "zones_far.tbl")
    if os.path.exists(dest) and os.path.getsize(dest) > 10000:
        return None
    r = subprocess.run([sys.executable, os.path.join(ctx["verif"], "oracle_py", "export_zones.py"), "--far", dest], capture_output=True, text=True)
    if r.returncode != 0:
        return (r.stdout + r.stderr)[-800:]
    return None


for _p in ("C11",):
    PROPS[_p]["pre"] = [export_zones]

PROPS["C13"] = {
    "builds": ["chk", "rel"],
    "pre": [export_zones],
    "rule": ("zones: 7 directed tables (1 h DST pairs, 24 h date-line jump, 30 min, 5 h and 12.5 h gaps, LMT seconds offset, gap at local midnight, fixed), seeded synthetic "
             "tables (irregular spacing, back-to-back transitions, changes 1 s..25 h, both directions) and real tables exported from the system tz database (quick: ~84 zones, "
             "thorough: all ~598), served to the library through the harness's TableProvider; instants at each chosen transition +- {0, 1 ns, 1 s, half/whole/over the change, "
             "3 h +- 1 s, 1 day} plus random and range-limit instants; per instant: (A) wall-clock fields, plain date/time/datetime, offset string and offset nanoseconds of the "
             "ZonedDateTime and Instant::to_ixdtf_string(zone) vs brute-force offset lookup; (B) the wall time on either side of the transition x 4 disambiguations through "
             "PlainDateTime/PlainDate::to_zoned_date_time vs the brute-force candidate model; (C) bracketed strings and partial records carrying {no offset, Z, own offset, "
             "minute-rounded offset, other side's offset, unrelated offset} x disambiguation x offset option through ZonedDateTime::from_str/from_partial and "
             "RelativeTo::try_from_str vs the InterpretISODateTimeOffset model; fixed-offset zones round trip. non-trivial = instant within a day of a transition or wall time "
             "in a gap/overlap; distinct by (zone, instant) fingerprint"),
    "assumptions": ["zones.rs reference functions (linear scans over the explicit table) are the oracle; the TableProvider (binary search over the same table) is part of the harness and is itself compared with the reference in every case through the library's results",
                    "a wall time skipped by more than one transition at once is undecided (counted)"],
    "manifest": {
        "technique": "runtime monitoring: brute-force transition-table oracle over observed wall-clock<->instant conversions with a harness-supplied provider, two builds",
        "text": "Every observed conversion (instant to wall-clock fields and offset; wall clock to instant under each disambiguation; strings and partial records with offsets under each offset option) is compared with a brute-force model over explicit transition tables, for directed, synthetic and real zones. The library receives the zones through the harness's own TimeZoneProvider, so the subject is the provider-independent conversion logic; the shipped providers are C15's subject. Holds on the executions generated.",
        "note": "Trusted: zones.rs reference functions, the tz tables exported through Python zoneinfo (self-verified at export), refmodel::civil.",
    },
}

PROPS["C14"] = {
    "builds": ["chk", "rel"],
    "pre": [export_zones],
    "rule": ("zones as for C13 (directed, fixed-offset, seeded synthetic and real tz tables through the harness's TableProvider); receivers at each chosen transition +- {0, 1 ns, 1 s, "
             "half/whole/over the change, 3 h +- 1 s, 1 day} plus random and range-limit instants; per receiver: (A) add and subtract of a seeded duration (date units alone and mixed, "
             "time parts of 0, 1 ns, 22-26 h, 24/48 h, sub-second mixes; both signs; constrain/reject) vs the transcribed AddZonedDateTime over the brute-force zone model; (B) until and "
             "since against a second instant at {+-1 ns, +-3 h, +-22..26 h, +-3 d, ~1 month, ~1 year, near another transition, +-400 d, +-40000 d} for one time and one date largest unit: "
             "exact elapsed time, transcribed DifferenceZonedDateTime, and the stated laws on the implementation's own output (sign-uniform, time part shorter than the local day, "
             "add(until) = other instant); (C) start_of_day and hours_in_day vs a linear scan of the table, with_plain_time vs the disambiguation model; (D) Duration total / round / "
             "compare relative to the zoned receiver vs exact elapsed time through the add model. non-trivial = receiver or result within a day of a transition, pair straddling a "
             "transition, or a local day that is not 24 h long; distinct by fingerprint"),
    "assumptions": ["zones.rs reference functions + refmodel::date are the oracle; AddZonedDateTime/DifferenceZonedDateTime are transcribed from the specification (with the same-date shortcut)",
                    "a local day that is entered before its own midnight, or does not exist, is undecided for start_of_day/hours_in_day (counted)",
                    "hours_in_day is judged as faithful rounding (1 ulp) of the exact quotient"],
    "manifest": {
        "technique": "runtime monitoring: transcribed zoned-arithmetic reference model over brute-force transition tables plus the property's laws evaluated on observed results, two builds",
        "text": "Every observed ZonedDateTime add/subtract/until/since/start_of_day/hours_in_day/with_plain_time result, and Duration total/round/compare relative to a zoned date-time, is compared with a reference model over explicit transition tables (directed, synthetic and real zones), and the inverse / sign / day-length laws are evaluated on the implementation's own until() output. Workloads concentrate within a day of transitions, on pairs that straddle one with reversed time-of-day order, and on days that are not 24 h long. Holds on the executions generated.",
        "note": "Trusted: zones.rs reference functions, refmodel::date/dur, exported tz tables. One listed known finding: the add(until) law for a receiver that is the later occurrence of a repeated time when the date part of the result is zero (behaviour mandated by the specification's algorithm).",
    },
}

PROPS["C15"] = {
    "builds": ["chk", "rel"],
    "pre": [export_zones, export_far_zones],
    "rule": ("every zone name of the system tzdata.zi (quick: a seed-dependent third plus nine fixed zones of distinct classes; thorough: all ~597) in a seed-dependent order against one "
             "long-lived FsTzdbProvider per shard: instants at each chosen transition +- {0, 1 ns, 1 s, half/whole/over the change, 3 h +- 1 s, 1 day}, random instants of years 1..2119, "
             "and, for zones with a DST rule in the footer, every rule transition of the years 2400, 2801, 5000 and 9998 +- {1 ns, 1 s, 1 h, 1 day}; per instant: offset from "
             "get_named_tz_offset_nanoseconds vs the table exported by Python zoneinfo from the same TZif files, the wall-clock reading on either side of the transition through "
             "get_named_tz_epoch_nanoseconds vs the brute-force set of instants, and both answers again from a brand-new provider (history independence); shard 0 also runs "
             "check_identifier on every IANA name, three case/near-miss manglings of each, and junk names. non-trivial = instant within a day of a transition or a skipped/repeated wall "
             "time; distinct by (zone, instant) fingerprint; counters per era: before-first-transition, negative-epoch, table, after-2038, footer-rule, far-future-footer-rule"),
    "assumptions": ["Python zoneinfo over the same /usr/share/zoneinfo files is the independent TZif + POSIX-TZ reader; the exporter re-verifies every exported transition at t-1, t",
                    "'Factory' (in tzdata.zi, not an IANA time zone identifier for Temporal) is not judged"],
    "manifest": {
        "technique": "runtime monitoring: differential oracle (independent TZif reader: Python zoneinfo, exported offline) over observed FsTzdbProvider answers, plus new-provider-vs-long-lived-provider comparison for history independence, two builds",
        "text": "Each answer of the bundled file-system provider (offset at an instant, instants of a wall-clock reading, identifier check) is compared with what an independent reader of the same TZif files says, across table, pre-table, post-2038 and footer-rule eras including rule transitions up to year 9998, and with the answer of a fresh provider instance so that cache effects show. Zone order is seed-dependent; thorough covers every zone of the database.",
        "note": "Trusted: Python zoneinfo, the exporter (self-checking), zones.rs reference functions. Instants before year 1 and after 9999 are outside the property.",
    },
}

PROPS["C16"] = {
    "builds": ["rel"],
    "timeout": 3 * 3600,
    "rule": ("every candidate BCP 47 calendar identifier (21; the 19 the crate accepts are the calendars under test) x ISO days: every day of the ISO years around each era boundary and epoch "
             "(-1..2, 7..9, 77..79, 283..285, 621..623, 1867..1869, 1911..1913, 1925..1927, 1988..1990, 2018..2020, -544..-542, -3762..-3759, -5494..-5491, -2637..-2635, "
             "-2333..-2331), every day of the modern period (quick 1990..2040, thorough 1800..2200) and every 13th/29th day of the surrounding centuries, 40 days at both limits, seeded "
             "random days of the whole range; the astronomical calendars (chinese, dangi, islamic, islamic-umalqura) get the modern centuries, random days of the ISO years 1..3000 (the window an exhaustive "
             "scan of the two Islamic calendars covered) and a handful of far dates (outside 1..3000, one collapsed signature per calendar) because the calendrical library needs milliseconds per far-away date. Per (calendar, day): all fields read through PlainDate::with_calendar; ISO date unchanged (and back through "
             "iso8601); structural invariants; successor relation against the previous ISO day; rebuild through PlainDate::from_partial from year+monthCode+day, year+month+day, "
             "year+month+monthCode+day, era+eraYear+monthCode+day and every alias of the reported era, under reject and constrain; identifiers in upper and mixed case through "
             "from_str/from_utf8 with the canonical identifier reported. non-trivial = month, year or era boundary between consecutive days; distinct by (calendar, day)"),
    "assumptions": ["the ISO date is the oracle: no calendar arithmetic is re-implemented; whether a calendar's year numbering is the conventional one is not judged",
                    "era aliases come from the intl-era-monthcode proposal; an alias the crate does not recognise is counted (undecided), not judged",
                    "release build only: the chk build trips debug assertions inside the calendrical dependency for far-away Chinese/Dangi/Islamic dates (panics are C03's subject)"],
    "manifest": {
        "technique": "runtime monitoring: ISO round-trip and successor-relation oracle over observed calendar fields for every accepted calendar on boundary-dense and random days",
        "text": "For every calendar the crate accepts, the fields observed for an ISO day are checked to describe that day: the ISO date is unchanged by with_calendar, structural bounds hold, the next ISO day is the calendar successor, and PlainDate::from_partial rebuilds the same ISO date from each combination of the reported fields (including every era alias). Days are dense around era boundaries, leap months and year ends. Holds on the executions generated.",
        "note": "Trusted: refmodel::civil. Listed known findings come from the calendrical dependency (observational Islamic calendars reporting day 0, far-away astronomical dates).",
    },
}

PROPS["C08"] = {
    "builds": ["chk", "rel"],
    "rule": ("seeded cases: reference dates (month ends 31st, Feb 29, 28..30th, the C04 hostile-date generator incl. both limits) x durations mixing calendar and time units, both signs "
             "(the shapes the property names: 11 months + 15..30 days, months + days, weeks + days, whole days near month/year lengths, large years; time parts of 0, hours up to 100, "
             "11..48 h with 29..31/59 min, sub-second mixes); per case four (largestUnit >= smallestUnit, increment valid for the pair, one of nine modes) rounding requests, two "
             "total() units (one of all ten, one calendar unit) and one compare() against a second duration. Each result is compared with refmodel::relround (target = date + duration, "
             "DifferenceISODateTime, calendar-unit bracket with exact rational progress, day/time rounding, bubbling, final balance), the negated duration with the mirrored mode as "
             "well; laws on the implementation's own output: sign-uniform, and for anchors up to the 28th without weeks re-measuring anchor -> anchor + result returns the result. "
             "non-trivial = rounding changed the duration (round) or the total is not an integer (total); bubbled/balanced-up cases counted and required > 0"),
    "assumptions": ["refmodel::relround states the specification's DifferencePlainDateTimeWithRounding / TotalRelativeDuration over refmodel::date with exact rationals",
                    "cases where the specification's own bracket assertion fails (leap-day anchors: destination beyond the constrained end) or a bracket end leaves the date range are undecided (counted)",
                    "total() is judged to 2 ulp of the exact rational (clause C08.total_exact separates precision from logic errors)"],
    "manifest": {
        "technique": "runtime monitoring: exact-rational add-and-remeasure reference model plus balance/sign laws over observed Duration round/total/compare calls relative to a plain date, two builds",
        "text": "Every observed Duration::round / total / compare relative to a PlainDate is compared with an exact add-and-remeasure model (calendar-unit brackets with rational progress, carrying of filled units, exact totals) for seeded durations, anchors (month ends, leap days, limits) and option combinations; sign-uniformity and top-heavy balance are also evaluated on the implementation's own results. Holds on the executions generated.",
        "note": "Trusted: refmodel::relround/date/dur/round. PlainDate/PlainDateTime/PlainYearMonth until/since with calendar smallest units share the machinery and are exercised by C04/C05/C18.",
    },
}


# ---------------------------------------------------------------------------------------------------------------
# C03: every workload is a panic workload. The harvest leg runs the other monitors (chk build: overflow checks and
# debug assertions on) at reduced scale and turns every panic / internal-assertion error their call wrappers
# recorded into a C03 violation keyed by panic location.

HARVEST_QUICK = ["C01", "C04", "C05", "C06", "C07", "C08", "C09", "C10", "C11", "C12", "C13", "C14", "C15", "C17", "C18", "C19"]
HARVEST_THOROUGH = HARVEST_QUICK + ["C16"]


def harvest_leg(ctx):
    import json, os, subprocess
    binary = ctx["cargo_build"]("chk")
    props = HARVEST_THOROUGH if ctx["tier"] == "thorough" else HARVEST_QUICK
    scale = "1.0" if ctx["tier"] == "thorough" else "0.2"
    n = ctx["ncpu"]
    reports, problems = [], []
    for pre in (export_zones, export_far_zones):
        pre(ctx)
    import triage
    for p in props:
        jobs = []
        for i in range(n):
            out = os.path.join(ctx["outdir"], f"C03.harvest.{p}.{i}.json")
            cmd = [binary, "run", p, "--tier", "quick", "--seed", str(ctx["seed"]), "--shard", f"{i}/{n}", "--out", out, "--build", "chk", "--scale", scale]
            jobs.append({"shard": i, "nshards": n, "build": "chk", "cmd": cmd, "out": out})
        rs, ps = triage.run_procs(jobs, ctx["verif"], "C03", f"workload of {p}", "quick", ctx["seed"], timeout=3 * 3600, log=ctx["log"], budgets=PROPS.get(p, {}).get("triage_budgets"))
        for q in ps:
            q["build"] = f"harvest:{p}"
        problems += ps
        for r in rs:
            i = r["shard"]
            viol = [v for v in r.get("violations", []) if "/C03.death/" in v["sig"]]
            for b in r.get("broken", []):
                viol.append({"sig": f"C03/C03.broken/call/{b['key']}", "count": b["count"],
                             "witnesses": [{"clause": "C03.broken", "op": "call", "shape": b["key"],
                                            "case": {"found_by": f"workload of {p}", "via_property": p, "via_scale": scale, "occurrences": b["count"]},
                                            "got": b["message"], "expected": "a value or a Type/Range/Syntax error", "case_idx": b["case_idx"]}]})
            reports.append({"evaluations": r["evaluations"], "distinct_nontrivial": 0, "counters": {f"harvest/{p}/cases": r.get("cases", 0)},
                            "samples": [], "violations": viol, "shard": i, "nshards": n, "seed": ctx["seed"], "tier": "quick",
                            "build": f"harvest:{p}", "harness_errors": [], "max_case_ms": r.get("max_case_ms", 0), "notes": r.get("notes", []) if viol and not r.get("broken") else []})
    return reports, problems


def harvest_replay(ctx, r):
    import os, subprocess, json
    w = r["witness"]
    rp = r["replay"]
    p = w["case"].get("via_property")
    binary = ctx["cargo_build"]("chk")
    out = os.path.join(ctx["build"], "out", "replay.json")
    cmd = [binary, "run", p, "--tier", "quick", "--seed", str(rp["seed"]), "--shard", f"{rp['shard']}/{rp['nshards']}", "--only", str(rp["case_idx"]),
           "--build", "chk", "--scale", w["case"].get("via_scale", "1.0"), "--out", out]
    ctx["log"](" ".join(cmd))
    subprocess.run(cmd, cwd=ctx["verif"], stdout=subprocess.DEVNULL, stderr=subprocess.DEVNULL)
    rep = json.load(open(out))
    hits = [b for b in rep.get("broken", []) if b["key"] == w["shape"]]
    print(f"replayed case {rp['case_idx']} of the {p} workload: {len(hits)} matching broken call(s)")
    for b in hits:
        print(f"VIOLATION property=C03 replay={r.get('path', '')}\n  signature: {r['sig']}\n  message: {b['message']}")
    return 1 if hits else 0


PROPS["C03"] = {
    "pre": [export_zones],
    "builds": ["chk"],
    "legs": [harvest_leg],
    "replay": harvest_replay,
    "rule": ("(a) api storm, chk build (overflow checks + debug assertions): seeded scenarios over strings (arbitrary mixes of date/time/annotation/duration fragments, NUL, non-ASCII, "
             "U+2212, very long and repeated inputs -> every from_str / from_utf8 of the crate incl. option enums), PlainDate / PlainDateTime / PlainTime / PlainYearMonth / "
             "PlainMonthDay / Instant / Duration / ZonedDateTime with hostile but finite fields (i32 and u8/u16 extremes, range limits +-1, twelve calendars), every public method "
             "with random (also invalid) unit / mode / increment / precision / overflow / disambiguation options, durations from the C09 hostile generator, relativeTo none / plain / "
             "zoned, zones served by the harness's TableProvider incl. a table of 5000 transitions one second apart; (b) harvest: the workloads of every other monitor (quick: scale "
             "0.2; thorough: full, plus C16) re-run in the chk build; every panic and every ErrorKind::Assert recorded by the call wrappers is a violation keyed by panic location + "
             "message with digits masked. Counted per scenario; non-trivial = a storm case in which at least three calls returned a value (distinct by case seed); a broken call is replayable through (workload, seed, shard, case index)"),
    "assumptions": ["a panic inside a dependency reached through the public API counts (the property is about the public operation); such locations are listed as known findings when the repository cannot repair them",
                    "unbounded loops are caught only by the per-run watchdog (reported inconclusive, never as a violation)"],
    "manifest": {
        "technique": "runtime monitoring: catch_unwind call wrappers over an API storm and over every other monitor's workload in an overflow-checking, debug-asserting build; broken calls keyed by panic location; shard deaths and non-termination decided by isolated replay with a CPU budget",
        "text": "Every call the harness makes into the crate runs under catch_unwind in a build with integer-overflow checks and debug assertions; panics and internal-assertion errors are recorded with their source location. C03 drives a dedicated storm (arbitrary strings into every parser, hostile finite arguments and random option combinations into every public method, pathological provider tables) and additionally harvests the records of all other monitors' workloads. A clean run means none of the calls made broke; calls not made are not covered.",
        "note": "The FFI layer's calls are exercised by C19's workload (harvested here in the chk build); no Rust-side memory-safety tool is used because no unsafe code lies on these paths (DESIGN.md 0.2); the C++ bindings run under clang ASan+UBSan in C19's thorough tier.",
    },
}

PROPS["C19"] = {
    "pre": [export_zones],
    "builds": ["chk", "rel"],
    "rule": ("seeded cases over ten scenarios; FFI layer (temporal_capi called from Rust, values observed through its own accessors): PlainTime, PlainDate (+ the Calendar object's "
             "per-date accessors, date_from_partial / year_month_from_partial / month_day_from_partial / date_add / date_until), PlainDateTime, Duration / TimeDuration / DateDuration / "
             "PartialDuration, Instant (incl. both 64-bit halves of the nanosecond value), PlainYearMonth, PlainMonthDay, Calendar::from_utf8 - every function is called next to the "
             "temporal_rs method it names with the same generated arguments (valid and invalid field values, eight calendars, partial records with random field subsets, every Unit / "
             "RoundingMode / ArithmeticOverflow / DisplayCalendar variant, Precision records, increments incl. 0 and 1e9); compiled-data layer: every ZonedDateTime accessor and method, "
             "from_str, RelativeTo::try_from_str, Duration::round / total / compare with none / plain / zoned relativeTo, Instant::to_ixdtf_string, PlainDateTime::to_zoned_date_time next "
             "to the *_with_provider twin on a separate FsTzdbProvider, ten zones, instants around DST transitions. Equal value or equal error kind is required; the number of distinct "
             "functions paired is recorded (functions_paired_in_this_shard; all scenarios run in every shard)"),
    "assumptions": ["the core method is the oracle (its own correctness is the subject of the other properties)",
                    "Now::* wrappers read the system clock and are not paired; PlainDate::to_zoned_date_time of src/builtins/compiled/date.rs is not compiled into the crate",
                    "the quick tier calls the extern functions' Rust bodies; the generated C++ headers and the C ABI are exercised by the thorough tier's C++ leg (a subset of the functions: constructors, accessors, arithmetic, rounding, formatting of the seven value types)"],
    "manifest": {
        "technique": "runtime monitoring: differential pairing of every wrapper call with the core call it stands for (value through accessors, or error kind), two builds; thorough tier adds sanitizer legs: the C++ bindings over the real C ABI under clang AddressSanitizer + UndefinedBehaviorSanitizer, and a reduced run of the pairing under Miri",
        "text": "Each convenience-API method and each FFI function is executed next to the core method it forwards to, with the same generated receiver, arguments and option variants, and the two outcomes must agree. Accessors are compared on values whose fields differ, so a wrapper wired to a neighbouring field shows. The evidence lists how many distinct functions were paired.",
        "note": "Trusted: the core (verified by the other checks). A pair in which either side panics is counted inconclusive here and reported by C03.",
    },
}

PROPS["C20"] = {
    "builds": ["chk", "rel"],
    "shards": 8,
    "timeout": 3600,
    "rule": ("rounds of 8 worker threads x 600 (thorough 1500) convenience-API calls each against the process-wide TZ_PROVIDER (one process per shard, so the cache starts cold in each), over 40 "
             "zones chosen to collide under truncation, basename or case (America/Indiana/*, America/Argentina/*, US/* vs Canada/*, Brazil/West vs Australia/West) and instants around "
             "transitions: accessors, add, until (also failing: other zone with a date unit, smallest > largest), to_ixdtf_string, Display, from_str, start_of_day, Duration::total with a "
             "zoned relativeTo, Instant::to_ixdtf_string, PlainDateTime::to_zoned_date_time, an unknown zone; a chaos thread holds the provider lock for 20 us..2.5 ms at random moments "
             "and, in every second round, panics while holding it (verif_hooks). Every call's outcome is compared with the same call on a provider owned by the calling thread alone; "
             "five single-threaded calls after each round check that nothing stays broken; a monitor on per-thread step counters reports a stall when no call completes for 90 s while "
             "work remains. Recorded: calls, thread switches in the completion order, distinct 96-call completion-order prefixes (interleavings), injected panics"),
    "assumptions": ["what a call 'returns alone' is the provider-taking twin on a thread-owned FsTzdbProvider (its answers do not depend on history: C15)",
                    "a stall is judged on logical progress counters with a 90 s window (each call takes microseconds), not on a deadline for the whole workload"],
    "manifest": {
        "technique": "runtime monitoring: multi-threaded stress with contention and panic injection through hooks, per-call comparison with a thread-owned provider, logical-progress stall monitor; completion orders recorded; thorough tier re-runs the workload in a ThreadSanitizer build",
        "text": "Threads call the convenience API concurrently over colliding and cold/warm zones while a chaos thread injects lock contention and panics that happen while the shared provider is held. Each call's result is compared with the same operation on a provider the thread owns alone, calls after faults must still succeed, and a progress monitor turns a wedged provider into a reported stall. Evidence records the number of calls, thread switches and distinct completion-order prefixes observed. Holds on the interleavings produced; not an exploration of all schedules.",
        "note": "The code under test contains no unsafe code on this path (a Mutex around a RefCell cache), so a race detector has nothing to flag unless a change introduces unsafe; see DESIGN.md for the ThreadSanitizer leg's status.",
    },
}


def tsan_leg(ctx):
    """C20 thorough: the same multi-threaded workload in a ThreadSanitizer build (nightly, -Zbuild-std)."""
    import json, os, re, subprocess
    if ctx["tier"] != "thorough":
        return [], []
    env = dict(ctx["env"])
    env["RUSTFLAGS"] = "-Zsanitizer=thread"
    env["CARGO_TARGET_DIR"] = os.path.join(ctx["build"], "target-tsan")
    r = subprocess.run(["cargo", "+nightly", "build", "-Zbuild-std", "--target", "x86_64-unknown-linux-gnu", "--release", "--offline", "--quiet"],
                       cwd=os.path.join(ctx["verif"], "harness"), env=env, capture_output=True, text=True)
    if r.returncode != 0:
        return [], [{"shard": -1, "build": "tsan", "kind": "tsan build failed", "stderr": r.stderr[-1500:]}]
    binary = os.path.join(env["CARGO_TARGET_DIR"], "x86_64-unknown-linux-gnu", "release", "tvh")
    reports, problems = [], []
    n = 4
    procs = []
    for i in range(n):
        out = os.path.join(ctx["outdir"], f"C20.tsan.{i}.json")
        if os.path.exists(out):
            os.remove(out)
        e2 = dict(os.environ)
        e2["TSAN_OPTIONS"] = "halt_on_error=0 exitcode=0"
        cmd = [binary, "run", "C20", "--tier", "quick", "--seed", str(ctx["seed"]), "--shard", f"{i}/{n}", "--out", out, "--build", "tsan", "--scale", "0.5"]
        procs.append((i, out, subprocess.Popen(cmd, cwd=ctx["verif"], env=e2, stdout=subprocess.DEVNULL, stderr=subprocess.PIPE)))
    for i, out, pr in procs:
        try:
            _, err = pr.communicate(timeout=3600)
        except subprocess.TimeoutExpired:
            pr.kill()
            problems.append({"shard": i, "build": "tsan", "kind": "watchdog"})
            continue
        err = (err or b"").decode(errors="replace")
        if not os.path.exists(out):
            problems.append({"shard": i, "build": "tsan", "kind": f"exit {pr.returncode}", "stderr": err[-800:]})
            continue
        rep = json.load(open(out))
        rep["build"] = "tsan"
        # one violation per distinct first frame inside the repository or the harness
        blocks = err.split("WARNING: ThreadSanitizer:")[1:]
        seen = {}
        for b in blocks:
            m = re.search(r"(/repo/[^\s:]+:\d+|/verif/harness/[^\s:]+:\d+)", b)
            key = (b.split("\n", 1)[0].strip().split(" (")[0] + " @ " + (m.group(1) if m else "?"))[:160]
            seen.setdefault(key, [0, b[:1500]])[0] += 1
        for key, (cnt, text) in seen.items():
            rep["violations"].append({"sig": f"C20/C20.race/ThreadSanitizer/{key}", "count": cnt,
                                      "witnesses": [{"clause": "C20.race", "op": "ThreadSanitizer", "shape": key, "case": {"shard": i}, "got": text, "expected": "no report", "case_idx": 0}]})
        rep.setdefault("counters", {})["tsan/reports"] = len(blocks)
        reports.append(rep)
    return reports, problems


PROPS["C20"]["legs"] = [tsan_leg]
PROPS["C20"]["rule"] += ("; thorough tier additionally re-runs the workload (4 processes) in a ThreadSanitizer build of the harness and the crate "
                         "(nightly, -Zbuild-std): every report is a violation keyed by kind and first frame in the repository")

PROPS["C02"] = {
    "builds": ["chk", "rel"],
    "rule": ("seeded cases over nine scenarios, each with operands within 0..3 units (ns, us, s, h, day) of a range boundary, exactly on it, and far beyond: instants at +-8.64e21 ns "
             "(try_new, add / subtract of exact time-only durations of every largest unit, round with every valid increment and mode, from_epoch_milliseconds, until / since across the "
             "whole range), dates at both ISO limits (try_new, add / subtract of days, weeks, months, years and huge values, until / since, conversions), date-times at both limits "
             "(construction, add / subtract with day carries, round up across the limit, conversions), year-months at both limits, durations with one field at its limit +-2 and a second "
             "field (construction, negated, abs, add, round), and strings of boundary values with offsets that move the instant across the limit (PlainDate / PlainDateTime / Instant / "
             "ZonedDateTime from_str). Monitor 1: validity invariant on every returned value (fields in range, inside the representable range, duration sign-uniform and within limits). "
             "Monitor 2: success iff the exact result (reference models of C04 / C05 / C06 / C09) is representable, and then exactly that value. Both arithmetic modes (chk, rel)"),
    "assumptions": ["refmodel::date / c05::model_add / refmodel::dur / refmodel::round give the exact result",
                    "arithmetic on the year-month -271821-04, whose first day precedes the first date, is not judged (as in C18)"],
    "manifest": {
        "technique": "runtime monitoring: validity invariant on every returned value plus exact-result boundary oracle on boundary-directed workloads, in the overflow-checking and the release build",
        "text": "Every value a call of the workload returns is checked against the type's invariants and range, and for operands generated within a few units of each range boundary the call must succeed exactly when the exact result (computed by the reference models) is representable, returning that result. Workloads sit on the boundaries of instants, dates, date-times, year-months and duration fields and include strings whose offset moves the value across the limit. Holds on the executions generated.",
        "note": "Trusted: the reference models named above. The other monitors' models also treat out-of-range results as RangeError, so range defects inside their workloads surface there as well.",
    },
}


def capi_cpp_leg(ctx):
    """C19 thorough: the extern "C" ABI through the shipped C++ bindings, built with clang ASan+UBSan, against the Rust core."""
    import os, subprocess, sys
    if ctx["tier"] != "thorough":
        return [], []
    build = ctx["build"]
    tdir = os.path.join(build, "target-capi")
    env = dict(ctx["env"])
    env["CARGO_TARGET_DIR"] = tdir
    problems = []

    def fail(kind, text):
        return [], [{"shard": -1, "build": "capi_cpp", "kind": kind, "stderr": (text or "")[-1500:]}]

    r = subprocess.run(["cargo", "rustc", "--offline", "--release", "-p", "temporal_capi", "--crate-type", "staticlib", "--quiet"], cwd="/repo", env=env, capture_output=True, text=True)
    if r.returncode != 0:
        return fail("staticlib build failed", r.stderr)
    r = subprocess.run(["cargo", "build", "--offline", "--release", "--quiet"], cwd=os.path.join(ctx["verif"], "capi_cpp", "ref"), env=env, capture_output=True, text=True)
    if r.returncode != 0:
        return fail("reference build failed", r.stderr)
    drv = os.path.join(build, "capi_driver")
    r = subprocess.run(["clang++-14", "-std=c++17", "-O1", "-g", "-fsanitize=address,undefined", "-fno-sanitize-recover=all", "-I", "/repo/temporal_capi/bindings/cpp",
                        os.path.join(ctx["verif"], "capi_cpp", "driver.cpp"), os.path.join(tdir, "release", "libtemporal_capi.a"), "-lm", "-lpthread", "-ldl", "-o", drv], capture_output=True, text=True)
    if r.returncode != 0:
        return fail("C++ driver build failed", r.stderr)
    n = 400000
    cases = subprocess.run([sys.executable, os.path.join(ctx["verif"], "capi_cpp", "gen_cases.py"), str(ctx["seed"]), str(n)], capture_output=True, text=True).stdout
    e2 = dict(os.environ)
    e2["ASAN_OPTIONS"] = "detect_leaks=1:abort_on_error=0"
    cpp = subprocess.run([drv], input=cases, capture_output=True, text=True, env=e2)
    ref = subprocess.run([os.path.join(tdir, "release", "capi_ref")], input=cases, capture_output=True, text=True)
    viol = []
    if cpp.returncode != 0:
        first = next((l for l in cpp.stderr.splitlines() if "ERROR: AddressSanitizer" in l or "runtime error" in l or "LeakSanitizer" in l), cpp.stderr[-300:])
        key = first.split(" on address")[0][:140]
        viol.append({"sig": f"C19/C19.ffi_memory/clang-sanitizers/{key}", "count": 1, "witnesses": [{"clause": "C19.ffi_memory", "op": "clang-sanitizers", "shape": key,
                     "case": {"processed_lines": len(cpp.stdout.splitlines())}, "got": cpp.stderr[-1500:], "expected": "no sanitizer report", "case_idx": 0}]})
    cl, rl, il = cpp.stdout.splitlines(), ref.stdout.splitlines(), cases.splitlines()
    diffs = {}
    for i, (a, b) in enumerate(zip(cl, rl)):
        if a != b:
            fa, fb = a.split(" "), b.split(" ")
            field = next(((x.split("=")[0] if "=" in x else f"field{j}") for j, (x, y) in enumerate(zip(fa, fb)) if x != y), "length")
            key = f"{fa[0]}.{field}"
            d = diffs.setdefault(key, [0, None])
            d[0] += 1
            if d[1] is None:
                d[1] = {"clause": "C19.ffi_abi", "op": key, "shape": "different-through-the-C++-bindings", "case": {"input": il[i]}, "got": a[:600], "expected": b[:600], "case_idx": i}
    for key, (cnt, w) in diffs.items():
        viol.append({"sig": f"C19/C19.ffi_abi/{key}/different-through-the-C++-bindings", "count": cnt, "witnesses": [w]})
    if cpp.returncode == 0 and len(cl) != len(rl):
        problems.append({"shard": -1, "build": "capi_cpp", "kind": f"line count differs: {len(cl)} vs {len(rl)}"})
    rep = {"evaluations": len(cl), "distinct_nontrivial": len(set(cl)), "counters": {"capi_cpp/cases": len(cl), "capi_cpp/lines_compared": min(len(cl), len(rl))},
           "samples": [{"cpp_binding_case": il[0], "output": cl[0] if cl else ""}], "violations": viol, "shard": 0, "nshards": 1, "seed": ctx["seed"], "tier": ctx["tier"], "build": "capi_cpp", "harness_errors": []}
    return [rep], problems


def miri_leg(ctx):
    """C19 thorough: a reduced run of the same FFI / wrapper pairing under Miri (nightly's undefined-behaviour interpreter). The unsafe code reached is the
    diplomat-generated FFI glue of temporal_capi (raw-pointer slices, Box round trips, DiplomatWrite buffers) and the crate's NonZero::new_unchecked calls."""
    import json, os, re, subprocess
    if ctx["tier"] != "thorough":
        return [], []
    env = dict(ctx["env"])
    env["CARGO_TARGET_DIR"] = os.path.join(ctx["build"], "target-miri")
    env["MIRIFLAGS"] = "-Zmiri-disable-isolation"
    n = ctx["ncpu"]
    harness = os.path.join(ctx["verif"], "harness")

    def cmd(i):
        out = os.path.join(ctx["outdir"], f"C19.miri.{i}.json")
        if os.path.exists(out):
            os.remove(out)
        return out, ["cargo", "+nightly", "miri", "run", "--offline", "--quiet", "--bin", "tvh", "--", "run", "C19", "--tier", "quick", "--seed", str(ctx["seed"]),
                     "--shard", f"{i}/{n}", "--scale", "0.003", "--out", out, "--build", "miri"]

    reports, problems = [], []

    def finish(i, out, rc, err):
        err = "\n".join(l for l in err.splitlines() if not l.startswith("ICU4X data error"))
        ub = re.search(r"error: (Undefined Behavior|memory leaked|deadlock|the evaluated program leaked memory)[^\n]*", err)
        if ub:
            frame = re.search(r"-->\s+(/repo/[^\s:]+:\d+|[^\s]*temporal_capi[^\s:]*:\d+|[^\s]*diplomat[^\s:]*:\d+)", err)
            shape = (ub.group(0)[:120] + " @ " + (frame.group(1) if frame else "?"))
            reports.append({"evaluations": 0, "distinct_nontrivial": 0, "counters": {"miri/reports": 1}, "samples": [], "shard": i, "nshards": n, "seed": ctx["seed"], "tier": "quick", "build": "miri",
                            "harness_errors": [], "violations": [{"sig": f"C19/C19.ffi_memory/Miri/{re.sub(r'[0-9]+', 'N', shape)}", "count": 1,
                                                                   "witnesses": [{"clause": "C19.ffi_memory", "op": "Miri", "shape": shape, "case": {"shard": i, "nshards": n, "scale": "0.003"},
                                                                                  "got": err[-1800:], "expected": "no report", "case_idx": 0}]}]})
        elif rc != 0 or not os.path.exists(out):
            problems.append({"shard": i, "build": "miri", "kind": f"exit {rc}", "stderr": err[-1200:]})
        else:
            r = json.load(open(out))
            r["build"] = "miri"
            r.setdefault("counters", {})["miri/cases"] = r.get("cases", 0)
            reports.append(r)

    # the first shard also builds; the others start once the build is there
    out0, c0 = cmd(0)
    p0 = subprocess.run(c0, cwd=harness, env=env, capture_output=True, text=True, timeout=3600)
    finish(0, out0, p0.returncode, p0.stderr)
    if problems and "could not compile" in problems[-1].get("stderr", ""):
        return reports, problems
    procs = []
    for i in range(1, n):
        out, c = cmd(i)
        procs.append((i, out, subprocess.Popen(c, cwd=harness, env=env, stdout=subprocess.DEVNULL, stderr=subprocess.PIPE, text=True)))
    for i, out, pr in procs:
        try:
            _, err = pr.communicate(timeout=3600)
        except subprocess.TimeoutExpired:
            pr.kill()
            problems.append({"shard": i, "build": "miri", "kind": "watchdog"})
            continue
        finish(i, out, pr.returncode, err or "")
    return reports, problems


PROPS["C19"]["legs"] = [capi_cpp_leg, miri_leg]
PROPS["C19"]["rule"] += ("; thorough tier additionally drives 400 000 generated cases (PlainDate, PlainTime, PlainDateTime, Duration, Instant, PlainYearMonth / PlainMonthDay; constructors, "
                         "accessors, add / subtract / until, round, to_ixdtf_string) through the shipped C++ bindings and the extern \"C\" ABI in a clang AddressSanitizer + "
                         "UndefinedBehaviorSanitizer build (leak detection on) and compares every output line with the same case through the Rust core")


NOT_CLAIMED = {}


def setup(ctx):
    """Exports the zone tables (self-verifying against Python zoneinfo) and runs the reference models' own unit tests."""
    import os, subprocess
    for pre in (export_zones, export_far_zones):
        err = pre(ctx)
        if err:
            ctx["log"](f"zone export failed: {err}")
            return 3
    env = dict(ctx["env"])
    r = subprocess.run(["cargo", "test", "--offline", "--quiet", "--profile", "chk"], cwd=os.path.join(ctx["verif"], "harness"), env=env,
                       stdout=subprocess.PIPE, stderr=subprocess.STDOUT, text=True)
    tail = "\n".join(l for l in r.stdout.splitlines() if l.startswith("test result") or "FAILED" in l or "panicked" in l)
    ctx["log"](f"reference-model self tests: {tail or r.stdout[-400:]}")
    return 0 if r.returncode == 0 else 3

# ---- additions of the second and third seeding rounds (see DESIGN.md 0.6): appended to the texts above
_TRIAGE = ("; a shard that dies by a signal or spends 1200 CPU seconds inside one case is not just reported: the case is replayed alone, twice, with a CPU budget "
           "(driver/triage.py), and a reproduced death / non-termination is a violation ({clause}), anything else inconclusive")
for _p in PROPS:
    PROPS[_p]["rule"] += _TRIAGE.format(clause="C03.death" if _p == "C03" else f"{_p}.no_result")
PROPS["C02"]["rule"] += ("; conversions of boundary dates: PlainDateTime::from(PlainDate), PlainDate::to_zoned_date_time with a time of day and at the start of the day in UTC and offset zones "
                         "(exact expectation); instants within a second of either limit, with sub-second digits, through named zones whose offset is constant there "
                         "(PlainDateTime::to_zoned_date_time, ZonedDateTime::from_str through the bundled zone data, exact expectation; a wall-clock date beyond +-1e8 days is not judged); "
                         "time parts worth k * 2^31 days added to ordinary receivers (a wrapped 32-bit day count lands back near the receiver)")
PROPS["C03"]["rule"] += ("; storm scenario day-jump: every table zone and every real zone (through the library's own provider) with a jump of 20 h or more, receivers within 3 days of it, "
                         "day-sized durations: total / round / compare relative to the receiver, until / since, add / subtract, hours_in_day, start_of_day, with_plain_time; "
                         "relativeTo and second operands of the other zoned scenarios are drawn near transitions half of the time")
PROPS["C05"]["rule"] += "; time parts worth k * 2^31 days (hours or seconds field), the carry of which does not fit in 32 bits"
PROPS["C07"]["rule"] += ("; PlainDate and PlainYearMonth until / since with smallest unit week / month / year, increments 1..25, all modes, month-end and leap-day receivers, against the "
                         "exact-rational add-and-remeasure model (refmodel::relround); Duration::as_temporal_string with Digit(0..9) / smallestUnit x 9 modes on positive and negative, "
                         "balanced and unbalanced time-only durations, decoded from the printed text")
PROPS["C11"]["rule"] += ("; ZonedDateTime in named zones with rules through the bundled zone data (quick: 16 zones incl. sub-minute and half-hour offsets, thorough: every zone), instants at "
                         "transitions +- {1 ns, half a step, a step, 30 s, ...} x {auto, 0/3/6 digits, smallestUnit second / minute} x 9 modes: the text must be the canonical text of the "
                         "ROUNDED instant (offset taken at the rounded instant), equal to the rounded instant's own text, and parse back to what the text denotes "
                         "(counter named/rounds_across_a_transition must be > 0)")
PROPS["C13"]["rule"] += ("; every real zone is driven a second time through the library's own file-system provider reading the same TZif files (instants up to the tables' horizon 2120, "
                         "signatures tagged tzdb-provider), and the probes include sub-second wall times next to transitions")
PROPS["C14"]["rule"] += "; every real zone is driven a second time through the library's own file-system provider (receivers and results up to the tables' horizon 2120, signatures tagged tzdb-provider)"
PROPS["C15"]["rule"] += ("; junk names (incl. readable non-IANA files of the zoneinfo directory: posix/..., right/..., posixrules, localtime) are checked again after an offset and a local-time query "
                         "for the same name on the same provider (C15.history); zones with an offset of 14 h or more or a jump of most of a day are visited on every quick run")
PROPS["C18"]["rule"] += ("; rounded since = minus the difference rounded with the mirrored mode; Calendar::month_day_from_partial for all 12 x 31 days x five years (leap, common, 1900, -4, 1972) "
                         "x both overflow modes (a record without a year is not judged)")
PROPS["C19"]["rule"] += ("; ZonedDateTime receivers also within 1.5 days of the transitions of every zone of the database, and on every day whose midnight is skipped by a gap that starts before it "
                         "(directed list from the exported tables; the oracle stays the core method), and within two days of either end of the instant range")
for _p, _t in {
    "C02": " Conversions of boundary dates into date-times and zones, sub-second instants at the limits through named zones and time parts whose day count needs more than 32 bits are part of the workload.",
    "C03": " The storm includes zones that skip or repeat a whole day (table and real ones) with day-sized durations and differences. A shard that dies or stops making progress is triaged: a death or non-termination reproduced twice in isolation is a violation with the replay command.",
    "C05": " Time parts whose carry into days does not fit in 32 bits are part of the workload.",
    "C07": " Calendar-unit until/since of dates and year-months with increments, and precision rounding of negative durations in toString, are judged too (exact-rational model).",
    "C11": " ZonedDateTime in named zones is formatted with every precision and mode at instants around transitions; the text must be that of the rounded instant and parse back to what it denotes.",
    "C13": " Real zones are additionally driven through the library's own file-system provider.",
    "C14": " Real zones are additionally driven through the library's own file-system provider.",
    "C15": " Identifier answers are re-checked after queries for non-IANA file names on the same provider.",
    "C18": " Rounded since() and month-days from field records in leap and common years are judged.",
    "C19": " Receivers cover the neighbourhood of every zone's transitions, including days whose midnight is skipped from before it, and the two ends of the range. The thorough tier adds a reduced run under Miri (undefined behaviour / leaks in the FFI glue).",
}.items():
    PROPS[_p]["manifest"]["text"] += _t

# C16's thorough tier has cases that legitimately take minutes (one case = one astronomical calendar scanned over 3000 ISO years: 5 min measured):
# four times the default budgets there
PROPS["C16"]["triage_budgets"] = (4800, 3600)
PROPS["C19"]["rule"] += ("; thorough tier also runs 16 reduced shards of the same pairing (about 350 cases, all ten scenarios) under Miri: an Undefined Behavior / leak report is a "
                         "C19.ffi_memory violation keyed by the report's first line and first frame in the repository, any other Miri failure is inconclusive")
PROPS["C17"]["rule"] += ("; identity clause in twelve calendars (gregory, japanese, buddhist, roc, coptic, ethiopic, ethioaa, hebrew, indian, persian, islamic-civil, iso8601): each own field "
                         "(day, year, monthCode, month, era + eraYear, monthCode + day) applied through PlainDate::with / PlainDateTime::with must return the receiver")
PROPS["C17"]["manifest"]["text"] += " The identity clause (a value's own fields applied to itself) is also evaluated for receivers in eleven non-ISO calendars."
PROPS["C10"]["rule"] += "; the increment constructors themselves (RoundingIncrement::try_new for 0, 1, 10^9 - 1, 10^9, 10^9 + 1, u32::MAX; try_from(f64) incl. fractions, 10^9 + 0.5, negatives, infinities, NaN) are judged first: valid exactly when 1 <= truncate(v) <= 10^9"
PROPS["C17"]["rule"] += "; PlainYearMonth::from_partial over every subset of year / month / monthCode / day (missing year or month is a TypeError before any value is looked at)"
PROPS["C20"]["rule"] += ("; the operation mix includes calls that fail after the provider has been taken (add / subtract leaving the range) and zones given in other spellings of their name "
                         "(lower / upper / mixed case through the public enum variant), the latter judged against a brand-new provider")
