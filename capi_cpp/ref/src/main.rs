//! Reference side of the C++ FFI leg: the same cases as capi_cpp/driver.cpp, through the Rust core API.
use std::io::{BufRead, Write};
use std::str::FromStr;
use temporal_rs::options::*;
use temporal_rs::parsers::Precision;
use temporal_rs::{Calendar, Duration, Instant, PlainDate, PlainDateTime, PlainMonthDay, PlainTime, PlainYearMonth, TemporalError};

fn kind(e: &TemporalError) -> String {
    format!("{}", e.kind()).replace("Error", "").replace("RangeError", "Range")
}
fn k(e: &TemporalError) -> &'static str {
    use temporal_rs::error::ErrorKind::*;
    match e.kind() {
        Generic => "Generic",
        Type => "Type",
        Range => "Range",
        Syntax => "Syntax",
        Assert => "Assert",
    }
}
const UNITS: [Unit; 11] = [Unit::Auto, Unit::Nanosecond, Unit::Microsecond, Unit::Millisecond, Unit::Second, Unit::Minute, Unit::Hour, Unit::Day, Unit::Week, Unit::Month, Unit::Year];
const MODES: [RoundingMode; 9] = [RoundingMode::Ceil, RoundingMode::Floor, RoundingMode::Expand, RoundingMode::Trunc, RoundingMode::HalfCeil, RoundingMode::HalfFloor, RoundingMode::HalfExpand, RoundingMode::HalfTrunc, RoundingMode::HalfEven];
const DCS: [DisplayCalendar; 4] = [DisplayCalendar::Auto, DisplayCalendar::Always, DisplayCalendar::Never, DisplayCalendar::Critical];
fn ov(i: i64) -> ArithmeticOverflow {
    if i % 2 == 0 { ArithmeticOverflow::Constrain } else { ArithmeticOverflow::Reject }
}
fn f(x: f64) -> temporal_rs::primitive::FiniteF64 {
    temporal_rs::primitive::FiniteF64::try_from(x).unwrap()
}
fn dur(v: &[f64]) -> Result<Duration, TemporalError> {
    Duration::new(f(v[0]), f(v[1]), f(v[2]), f(v[3]), f(v[4]), f(v[5]), f(v[6]), f(v[7]), f(v[8]), f(v[9]))
}
fn dur_str(d: &Duration) -> String {
    let v = [d.years(), d.months(), d.weeks(), d.days(), d.hours(), d.minutes(), d.seconds(), d.milliseconds(), d.microseconds(), d.nanoseconds()];
    v.iter().map(|x| format!("{:016x}", x.as_inner().to_bits())).collect::<Vec<_>>().join(",")
}
fn date_str(d: &PlainDate) -> String {
    format!("{}-{}-{}[{}]", d.iso_year(), d.iso_month(), d.iso_day(), d.calendar().identifier())
}
fn optnum<T: Into<i64>>(v: Option<T>) -> String {
    v.map(|x| x.into().to_string()).unwrap_or_else(|| "none".into())
}
fn time_str(t: &PlainTime) -> String {
    format!("{}:{}:{}.{}.{}.{}", t.hour(), t.minute(), t.second(), t.millisecond(), t.microsecond(), t.nanosecond())
}
fn dt_str(v: &PlainDateTime) -> String {
    format!("{}-{}-{}T{}:{}:{}.{}.{}.{}", v.iso_year(), v.iso_month(), v.iso_day(), v.hour(), v.minute(), v.second(), v.millisecond(), v.microsecond(), v.nanosecond())
}
fn split(ns: i128) -> (i64, u64) {
    ((ns >> 64) as i64, ns as u64)
}

fn main() {
    let _ = kind;
    let stdin = std::io::stdin();
    let out = std::io::stdout();
    let mut out = out.lock();
    for line in stdin.lock().lines() {
        let line = line.unwrap();
        let p: Vec<&str> = line.split_whitespace().collect();
        if p.is_empty() {
            continue;
        }
        let n = |i: usize| -> i64 { p[i].parse::<i64>().unwrap() };
        let fl = |i: usize| -> f64 { p[i].parse::<f64>().unwrap() };
        let mut o = String::from(p[0]);
        match p[0] {
            "PD" => {
                let (y, m, d, cal, ovi, dc) = (n(1) as i32, n(2) as u8, n(3) as u8, p[4], n(5), n(6));
                let fv: Vec<f64> = (7..17).map(fl).collect();
                let (y2, m2, d2, lu, u) = (n(17) as i32, n(18) as u8, n(19) as u8, n(20), n(21));
                let Ok(calendar) = Calendar::from_utf8(cal.as_bytes()) else {
                    writeln!(out, "{o} calendar-error").unwrap();
                    continue;
                };
                match PlainDate::new_with_overflow(y, m, d, calendar.clone(), ov(ovi)) {
                    Err(e) => o += &format!(" Err({})", k(&e)),
                    Ok(date) => {
                        o += &format!(" {} y={} m={} mc={} d={} dow={} doy={} dim={} diy={} miy={} leap={} era={} ey={} str={}", date_str(&date), date.year(), date.month(), date.month_code().as_str(), date.day(), date.day_of_week(), date.day_of_year(), date.days_in_month(), date.days_in_year(), date.months_in_year(), date.in_leap_year() as u8, date.era().map(|e| e.as_str().to_string()).unwrap_or_default(), optnum(date.era_year()), date.to_ixdtf_string(DCS[(dc % 4) as usize]));
                        match dur(&fv) {
                            Ok(du) => {
                                match date.add(&du, Some(ov(ovi))) {
                                    Ok(a) => o += &format!(" add={}", date_str(&a)),
                                    Err(e) => o += &format!(" add=Err({})", k(&e)),
                                }
                                match date.subtract(&du, None) {
                                    Ok(a) => o += &format!(" sub={}", date_str(&a)),
                                    Err(e) => o += &format!(" sub=Err({})", k(&e)),
                                }
                            }
                            Err(e) => o += &format!(" dur=Err({})", k(&e)),
                        }
                        if let Ok(other) = PlainDate::new(y2, m2, d2, calendar.clone()) {
                            let mut st = DifferenceSettings::default();
                            st.largest_unit = Some(UNITS[(lu % 11) as usize]);
                            st.rounding_mode = Some(MODES[(u % 9) as usize]);
                            match date.until(&other, st) {
                                Ok(x) => o += &format!(" until={}", dur_str(&x)),
                                Err(e) => o += &format!(" until=Err({})", k(&e)),
                            }
                        }
                        match date.to_plain_year_month() {
                            Ok(v) => o += &format!(" ym={}-{}", v.iso_year(), v.iso_month()),
                            Err(_) => o += " ym=Err",
                        }
                        match date.to_plain_month_day() {
                            Ok(v) => o += &format!(" md={}-{}", v.iso_month(), v.iso_day()),
                            Err(_) => o += " md=Err",
                        }
                    }
                }
            }
            "PT" => {
                let (h, mi, s, ms, us, ns, u, inc, mo, dig) = (n(1) as u8, n(2) as u8, n(3) as u8, n(4) as u16, n(5) as u16, n(6) as u16, n(7), fl(8), n(9), n(10));
                match PlainTime::try_new(h, mi, s, ms, us, ns) {
                    Err(e) => o += &format!(" Err({})", k(&e)),
                    Ok(t) => {
                        o += &format!(" {}", time_str(&t));
                        match t.round(UNITS[(u % 11) as usize], if inc < 0.0 { None } else { Some(inc) }, Some(MODES[(mo % 9) as usize])) {
                            Ok(v) => o += &format!(" round={}", time_str(&v)),
                            Err(e) => o += &format!(" round=Err({})", k(&e)),
                        }
                        let so = ToStringRoundingOptions { precision: if dig < 0 { Precision::Auto } else { Precision::Digit(dig as u8) }, smallest_unit: None, rounding_mode: Some(MODES[(mo % 9) as usize]) };
                        match t.to_ixdtf_string(so) {
                            Ok(v) => o += &format!(" str={v}"),
                            Err(e) => o += &format!(" str=Err({})", k(&e)),
                        }
                    }
                }
            }
            "DU" => {
                let fv: Vec<f64> = (1..11).map(fl).collect();
                let gv: Vec<f64> = (11..21).map(fl).collect();
                match dur(&fv) {
                    Err(e) => o += &format!(" Err({})", k(&e)),
                    Ok(d) => {
                        o += &format!(" {} sign={} zero={} neg={} abs={} twr={}", dur_str(&d), d.sign() as i8, d.is_zero() as u8, dur_str(&d.negated()), dur_str(&d.abs()), d.is_time_within_range() as u8);
                        if let Ok(other) = dur(&gv) {
                            match d.add(&other) {
                                Ok(x) => o += &format!(" add={}", dur_str(&x)),
                                Err(e) => o += &format!(" add=Err({})", k(&e)),
                            }
                            match d.subtract(&other) {
                                Ok(x) => o += &format!(" sub={}", dur_str(&x)),
                                Err(e) => o += &format!(" sub=Err({})", k(&e)),
                            }
                        }
                    }
                }
            }
            "IN" => {
                let high: i64 = p[1].parse().unwrap();
                let low: u64 = p[2].parse().unwrap();
                let (su, mo, inc) = (n(3), n(4), n(5) as u32);
                let fv: Vec<f64> = (6..16).map(fl).collect();
                let ns = ((high as i128) << 64) | low as i128;
                match Instant::try_new(ns) {
                    Err(e) => o += &format!(" Err({})", k(&e)),
                    Ok(i) => {
                        let (h, l) = split(i.epoch_nanoseconds().as_i128());
                        o += &format!(" ms={} high={h} low={l}", i.epoch_milliseconds());
                        let mut ro = RoundingOptions::default();
                        ro.smallest_unit = Some(UNITS[(su % 11) as usize]);
                        ro.rounding_mode = Some(MODES[(mo % 9) as usize]);
                        let r = RoundingIncrement::try_new(inc).and_then(|inc| {
                            ro.increment = Some(inc);
                            i.round(ro)
                        });
                        match r {
                            Ok(v) => {
                                let (h, l) = split(v.epoch_nanoseconds().as_i128());
                                o += &format!(" round={h}:{l}");
                            }
                            Err(e) => o += &format!(" round=Err({})", k(&e)),
                        }
                        if let Ok(du) = dur(&fv) {
                            match i.add(du) {
                                Ok(v) => {
                                    let (h, l) = split(v.epoch_nanoseconds().as_i128());
                                    o += &format!(" add={h}:{l}");
                                }
                                Err(e) => o += &format!(" add=Err({})", k(&e)),
                            }
                        }
                    }
                }
            }
            "DT" => {
                let (y, m, d, h, mi, s, ms, us, ns) = (n(1) as i32, n(2) as u8, n(3) as u8, n(4) as u8, n(5) as u8, n(6) as u8, n(7) as u16, n(8) as u16, n(9) as u16);
                let (cal, dc, dig, su, mo, inc) = (p[10], n(11), n(12), n(13), n(14), n(15) as u32);
                let Ok(calendar) = Calendar::from_utf8(cal.as_bytes()) else {
                    writeln!(out, "{o} calendar-error").unwrap();
                    continue;
                };
                match PlainDateTime::try_new(y, m, d, h, mi, s, ms, us, ns, calendar) {
                    Err(e) => o += &format!(" Err({})", k(&e)),
                    Ok(dt) => {
                        o += &format!(" {} y={} m={} mc={} d={} doy={} era={} ey={}", dt_str(&dt), dt.year(), dt.month(), dt.month_code().as_str(), dt.day(), dt.day_of_year(), dt.era().map(|e| e.as_str().to_string()).unwrap_or_default(), optnum(dt.era_year()));
                        let so = ToStringRoundingOptions { precision: if dig < 0 { Precision::Auto } else { Precision::Digit(dig as u8) }, smallest_unit: None, rounding_mode: Some(MODES[(mo % 9) as usize]) };
                        match dt.to_ixdtf_string(so, DCS[(dc % 4) as usize]) {
                            Ok(v) => o += &format!(" str={v}"),
                            Err(e) => o += &format!(" str=Err({})", k(&e)),
                        }
                        let mut ro = RoundingOptions::default();
                        ro.smallest_unit = Some(UNITS[(su % 11) as usize]);
                        ro.rounding_mode = Some(MODES[(mo % 9) as usize]);
                        let r = RoundingIncrement::try_new(inc).and_then(|inc| {
                            ro.increment = Some(inc);
                            dt.round(ro)
                        });
                        match r {
                            Ok(v) => o += &format!(" round={}", dt_str(&v)),
                            Err(e) => o += &format!(" round=Err({})", k(&e)),
                        }
                    }
                }
            }
            "YM" => {
                let (y, m, cal, ovi) = (n(1) as i32, n(2) as u8, p[3], n(4));
                let Ok(calendar) = Calendar::from_utf8(cal.as_bytes()) else {
                    writeln!(out, "{o} calendar-error").unwrap();
                    continue;
                };
                match PlainYearMonth::new_with_overflow(y, m, None, calendar.clone(), ov(ovi)) {
                    Err(e) => o += &format!(" Err({})", k(&e)),
                    Ok(v) => {
                        o += &format!(" {}-{} y={} m={} mc={} dim={} diy={} miy={} leap={} pad={}", v.iso_year(), v.iso_month(), v.year(), v.month(), v.month_code().as_str(), v.days_in_month(), v.days_in_year(), v.months_in_year(), v.in_leap_year() as u8, v.padded_iso_year_string());
                        let day = ((y % 31 + 31) % 31 + 1) as u8;
                        match PlainMonthDay::new_with_overflow(m, day, calendar, ov(ovi), None) {
                            Ok(w) => o += &format!(" md={}-{}-{} mc={}", w.iso_year(), w.iso_month(), w.iso_day(), w.month_code().as_str()),
                            Err(e) => o += &format!(" md=Err({})", k(&e)),
                        }
                    }
                }
            }
            _ => {}
        }
        writeln!(out, "{o}").unwrap();
    }
    let _ = Calendar::from_str("iso8601");
}
