#!/usr/bin/env python3
"""Seeded case generator for the C++ FFI leg: one case per line, read by both driver.cpp and capi_cpp/ref."""
import random, sys

CALS = ["iso8601", "iso8601", "gregory", "japanese", "hebrew", "islamic-civil", "ethioaa", "buddhist", "persian", "roc"]


def dur(r, calendar_ok=True):
    v = [0] * 10
    sign = r.choice([1, -1])
    k = r.randrange(6)
    if k == 0:
        pass
    elif k == 1:
        v[3] = r.randrange(0, 400)
    elif k == 2 and calendar_ok:
        v[0], v[1], v[2], v[3] = r.randrange(0, 5), r.randrange(0, 30), r.randrange(0, 9), r.randrange(0, 40)
    elif k == 3:
        v[4], v[5], v[6] = r.randrange(0, 100), r.randrange(0, 200), r.randrange(0, 5000)
    elif k == 4:
        v[r.randrange(4, 10)] = r.choice([2**53 - 1, 2**53, 9007199254740991000, 10**25])
    else:
        v[7], v[8], v[9] = r.randrange(0, 3000), r.randrange(0, 3000), r.randrange(0, 3000)
    if r.random() < 0.05:
        v[r.randrange(10)] *= -1  # mixed signs: invalid
    return " ".join(str(float(sign * x)) for x in v)


def main():
    seed, n = int(sys.argv[1]), int(sys.argv[2])
    r = random.Random(seed)
    out = []
    for _ in range(n):
        t = r.choice(["PD", "PD", "PT", "DU", "IN", "DT", "DT", "YM"])
        y = r.choice([r.randrange(-3000, 4000), r.randrange(-271821, 275761), 275760, -271821, 0, 2024])
        m, d = r.choice([r.randrange(1, 13), 0, 13, 255]) if r.random() < 0.1 else r.randrange(1, 13), r.choice([r.randrange(1, 29), 29, 30, 31, 32, 0])
        cal = r.choice(CALS)
        if t == "PD":
            out.append(f"PD {y} {m} {d} {cal} {r.randrange(2)} {r.randrange(4)} {dur(r)} {r.randrange(-3000, 4000)} {r.randrange(1, 13)} {r.randrange(1, 29)} {r.randrange(11)} {r.randrange(9)}")
        elif t == "PT":
            hostile = r.random() < 0.15
            h, mi, s = r.randrange(24), r.randrange(60), r.randrange(60)
            ms, us, ns = r.randrange(1000), r.randrange(1000), r.randrange(1000)
            if hostile:
                k = r.randrange(6)
                h, mi, s, ms, us, ns = [(24, 60, 60, 1000, 1000, 65535)[i] if i == k else x for i, x in enumerate((h, mi, s, ms, us, ns))]
            inc = r.choice([-1, 1, 2, 5, 10, 15, 30, 7, 0, 1.5])
            out.append(f"PT {h} {mi} {s} {ms} {us} {ns} {r.randrange(11)} {inc} {r.randrange(9)} {r.choice([-1, 0, 1, 3, 6, 9, 10])}")
        elif t == "DU":
            out.append(f"DU {dur(r)} {dur(r)}")
        elif t == "IN":
            ns = r.choice([r.randrange(-(10**18), 10**18), r.randrange(-8640 * 10**18, 8640 * 10**18 + 1), 8640 * 10**18, -8640 * 10**18, 8640 * 10**18 + 1, -5, 0, -(2**64), 2**64])
            high, low = ns >> 64, ns & (2**64 - 1)
            out.append(f"IN {high} {low} {r.randrange(11)} {r.randrange(9)} {r.choice([1, 2, 5, 10, 15, 30, 60, 7, 0])} {dur(r, False)}")
        elif t == "DT":
            h, mi, s = r.randrange(24), r.randrange(60), r.randrange(60)
            ms, us, ns = r.randrange(1000), r.randrange(1000), r.randrange(1000)
            out.append(f"DT {y} {m if 1 <= m <= 12 else 6} {min(max(d, 1), 28)} {h} {mi} {s} {ms} {us} {ns} {cal} {r.randrange(4)} {r.choice([-1, 0, 3, 9, 11])} {r.randrange(11)} {r.randrange(9)} {r.choice([1, 2, 5, 10, 12, 30, 7])}")
        else:
            out.append(f"YM {y} {m} {cal} {r.randrange(2)}")
    sys.stdout.write("\n".join(out) + "\n")


if __name__ == "__main__":
    main()
