// C19 / C03 FFI leg: exercises the extern "C" ABI of temporal_capi through the shipped C++ bindings.
// Reads one case per line from stdin and prints one canonical result line per case; the same cases go through
// the Rust core in capi_cpp/ref and the two outputs are compared line by line by the driver (driver/legs.py).
// Built with clang++ -fsanitize=address,undefined -fno-sanitize-recover=all: any memory error aborts the run.
#include <temporal_rs/Calendar.hpp>
#include <temporal_rs/Duration.hpp>
#include <temporal_rs/Instant.hpp>
#include <temporal_rs/PlainDate.hpp>
#include <temporal_rs/PlainDateTime.hpp>
#include <temporal_rs/PlainMonthDay.hpp>
#include <temporal_rs/PlainTime.hpp>
#include <temporal_rs/PlainYearMonth.hpp>

#include <cinttypes>
#include <cstdio>
#include <cstring>
#include <iostream>
#include <sstream>
#include <string>

using namespace temporal_rs;

static const char* kind(const TemporalError& e) {
  switch (e.kind) {
    case ErrorKind::Generic: return "Generic";
    case ErrorKind::Type: return "Type";
    case ErrorKind::Range: return "Range";
    case ErrorKind::Syntax: return "Syntax";
    default: return "Assert";
  }
}
static Unit unit_of(int i) {
  static const Unit u[] = {Unit::Auto, Unit::Nanosecond, Unit::Microsecond, Unit::Millisecond, Unit::Second, Unit::Minute, Unit::Hour, Unit::Day, Unit::Week, Unit::Month, Unit::Year};
  return u[i % 11];
}
static RoundingMode mode_of(int i) {
  static const RoundingMode m[] = {RoundingMode::Ceil, RoundingMode::Floor, RoundingMode::Expand, RoundingMode::Trunc, RoundingMode::HalfCeil, RoundingMode::HalfFloor, RoundingMode::HalfExpand, RoundingMode::HalfTrunc, RoundingMode::HalfEven};
  return m[i % 9];
}
static ArithmeticOverflow ov_of(int i) { return i % 2 == 0 ? ArithmeticOverflow::Constrain : ArithmeticOverflow::Reject; }
static DisplayCalendar dc_of(int i) {
  static const DisplayCalendar d[] = {DisplayCalendar::Auto, DisplayCalendar::Always, DisplayCalendar::Never, DisplayCalendar::Critical};
  return d[i % 4];
}
static std::string dur_str(const Duration& d) {
  // bit patterns, so that both sides print the same text for every double
  double v[10] = {d.years(), d.months(), d.weeks(), d.days(), d.hours(), d.minutes(), d.seconds(), d.milliseconds(), d.microseconds(), d.nanoseconds()};
  std::string o;
  char b[32];
  for (int i = 0; i < 10; i++) {
    uint64_t bits;
    memcpy(&bits, &v[i], 8);
    snprintf(b, sizeof b, "%s%016" PRIx64, i ? "," : "", bits);
    o += b;
  }
  return o;
}
static std::string date_str(const PlainDate& d) {
  std::ostringstream o;
  o << d.iso_year() << "-" << (int)d.iso_month() << "-" << (int)d.iso_day() << "[" << d.calendar().identifier() << "]";
  return o.str();
}
template <class T> static std::string optnum(std::optional<T> v) { return v.has_value() ? std::to_string((long long)*v) : std::string("none"); }

int main() {
  std::string line;
  while (std::getline(std::cin, line)) {
    std::istringstream in(line);
    std::string tag;
    in >> tag;
    std::ostringstream out;
    out << tag;
    if (tag == "PD") {
      int y, m, d, ov, dc, u, lu;
      std::string cal;
      double f[10];
      int y2, m2, d2;
      in >> y >> m >> d >> cal >> ov >> dc;
      for (auto& x : f) in >> x;
      in >> y2 >> m2 >> d2 >> lu >> u;
      auto c = Calendar::from_utf8(cal);
      if (!c.is_ok()) { out << " calendar-error"; std::cout << out.str() << "\n"; continue; }
      auto calendar = std::move(c).ok().value();
      auto r = PlainDate::create_with_overflow(y, (uint8_t)m, (uint8_t)d, *calendar, ov_of(ov));
      if (!r.is_ok()) { out << " Err(" << kind(std::move(r).err().value()) << ")"; std::cout << out.str() << "\n"; continue; }
      auto date = std::move(r).ok().value();
      out << " " << date_str(*date) << " y=" << date->year() << " m=" << (int)date->month() << " mc=" << date->month_code() << " d=" << (int)date->day() << " dow=" << date->day_of_week() << " doy=" << date->day_of_year()
          << " dim=" << date->days_in_month() << " diy=" << date->days_in_year() << " miy=" << date->months_in_year() << " leap=" << date->in_leap_year() << " era=" << date->era() << " ey=" << optnum(date->era_year())
          << " str=" << date->to_ixdtf_string(dc_of(dc));
      auto du = Duration::create(f[0], f[1], f[2], f[3], f[4], f[5], f[6], f[7], f[8], f[9]);
      if (du.is_ok()) {
        auto dur = std::move(du).ok().value();
        auto a = date->add(*dur, std::optional<ArithmeticOverflow>(ov_of(ov)));
        if (a.is_ok()) out << " add=" << date_str(*std::move(a).ok().value()); else out << " add=Err(" << kind(std::move(a).err().value()) << ")";
        auto s = date->subtract(*dur, std::nullopt);
        if (s.is_ok()) out << " sub=" << date_str(*std::move(s).ok().value()); else out << " sub=Err(" << kind(std::move(s).err().value()) << ")";
      } else {
        out << " dur=Err(" << kind(std::move(du).err().value()) << ")";
      }
      auto o2 = PlainDate::create(y2, (uint8_t)m2, (uint8_t)d2, *calendar);
      if (o2.is_ok()) {
        auto other = std::move(o2).ok().value();
        DifferenceSettings st;
        st.largest_unit = unit_of(lu);
        st.smallest_unit = std::nullopt;
        st.rounding_mode = mode_of(u);
        st.increment = std::nullopt;
        auto un = date->until(*other, st);
        if (un.is_ok()) out << " until=" << dur_str(*std::move(un).ok().value()); else out << " until=Err(" << kind(std::move(un).err().value()) << ")";
      }
      auto ym = date->to_plain_year_month();
      if (ym.is_ok()) { auto v = std::move(ym).ok().value(); out << " ym=" << v->iso_year() << "-" << (int)v->iso_month(); } else out << " ym=Err";
      auto md = date->to_plain_month_day();
      if (md.is_ok()) { auto v = std::move(md).ok().value(); out << " md=" << (int)v->iso_month() << "-" << (int)v->iso_day(); } else out << " md=Err";
    } else if (tag == "PT") {
      int h, mi, s, ms, us, ns, u, mo, dig;
      double inc;
      in >> h >> mi >> s >> ms >> us >> ns >> u >> inc >> mo >> dig;
      auto r = PlainTime::try_create((uint8_t)h, (uint8_t)mi, (uint8_t)s, (uint16_t)ms, (uint16_t)us, (uint16_t)ns);
      if (!r.is_ok()) { out << " Err(" << kind(std::move(r).err().value()) << ")"; std::cout << out.str() << "\n"; continue; }
      auto t = std::move(r).ok().value();
      out << " " << (int)t->hour() << ":" << (int)t->minute() << ":" << (int)t->second() << "." << t->millisecond() << "." << t->microsecond() << "." << t->nanosecond();
      auto ro = t->round(unit_of(u), inc < 0 ? std::nullopt : std::optional<double>(inc), std::optional<RoundingMode>(mode_of(mo)));
      if (ro.is_ok()) { auto v = std::move(ro).ok().value(); out << " round=" << (int)v->hour() << ":" << (int)v->minute() << ":" << (int)v->second() << "." << v->millisecond() << "." << v->microsecond() << "." << v->nanosecond(); }
      else out << " round=Err(" << kind(std::move(ro).err().value()) << ")";
      ToStringRoundingOptions so;
      so.precision.is_minute = false;
      so.precision.precision = dig < 0 ? std::nullopt : std::optional<uint8_t>((uint8_t)dig);
      so.smallest_unit = std::nullopt;
      so.rounding_mode = mode_of(mo);
      auto st = t->to_ixdtf_string(so);
      if (st.is_ok()) out << " str=" << std::move(st).ok().value(); else out << " str=Err(" << kind(std::move(st).err().value()) << ")";
    } else if (tag == "DU") {
      double f[10], g[10];
      for (auto& x : f) in >> x;
      for (auto& x : g) in >> x;
      auto r = Duration::create(f[0], f[1], f[2], f[3], f[4], f[5], f[6], f[7], f[8], f[9]);
      if (!r.is_ok()) { out << " Err(" << kind(std::move(r).err().value()) << ")"; std::cout << out.str() << "\n"; continue; }
      auto d = std::move(r).ok().value();
      out << " " << dur_str(*d) << " sign=" << (int)d->sign().AsFFI() << " zero=" << d->is_zero() << " neg=" << dur_str(*d->negated()) << " abs=" << dur_str(*d->abs()) << " twr=" << d->is_time_within_range();
      auto o2 = Duration::create(g[0], g[1], g[2], g[3], g[4], g[5], g[6], g[7], g[8], g[9]);
      if (o2.is_ok()) {
        auto other = std::move(o2).ok().value();
        auto a = d->add(*other);
        if (a.is_ok()) out << " add=" << dur_str(*std::move(a).ok().value()); else out << " add=Err(" << kind(std::move(a).err().value()) << ")";
        auto s = d->subtract(*other);
        if (s.is_ok()) out << " sub=" << dur_str(*std::move(s).ok().value()); else out << " sub=Err(" << kind(std::move(s).err().value()) << ")";
      }
    } else if (tag == "IN") {
      long long high;
      unsigned long long low;
      int su, mo;
      unsigned inc;
      double f[10];
      in >> high >> low >> su >> mo >> inc;
      for (auto& x : f) in >> x;
      I128Nanoseconds n;
      n.high = (int64_t)high;
      n.low = (uint64_t)low;
      auto r = Instant::try_new(n);
      if (!r.is_ok()) { out << " Err(" << kind(std::move(r).err().value()) << ")"; std::cout << out.str() << "\n"; continue; }
      auto i = std::move(r).ok().value();
      auto back = i->epoch_nanoseconds();
      out << " ms=" << i->epoch_milliseconds() << " high=" << back.high << " low=" << back.low;
      RoundingOptions ro;
      ro.largest_unit = std::nullopt;
      ro.smallest_unit = unit_of(su);
      ro.rounding_mode = mode_of(mo);
      ro.increment = inc;
      auto rr = i->round(ro);
      if (rr.is_ok()) { auto v = std::move(rr).ok().value(); auto b = v->epoch_nanoseconds(); out << " round=" << b.high << ":" << b.low; } else out << " round=Err(" << kind(std::move(rr).err().value()) << ")";
      auto du = Duration::create(f[0], f[1], f[2], f[3], f[4], f[5], f[6], f[7], f[8], f[9]);
      if (du.is_ok()) {
        auto dur = std::move(du).ok().value();
        auto a = i->add(*dur);
        if (a.is_ok()) { auto b = std::move(a).ok().value()->epoch_nanoseconds(); out << " add=" << b.high << ":" << b.low; } else out << " add=Err(" << kind(std::move(a).err().value()) << ")";
      }
    } else if (tag == "DT") {
      int y, m, d, h, mi, s, ms, us, ns, dc, dig, su, mo;
      unsigned inc;
      std::string cal;
      in >> y >> m >> d >> h >> mi >> s >> ms >> us >> ns >> cal >> dc >> dig >> su >> mo >> inc;
      auto c = Calendar::from_utf8(cal);
      if (!c.is_ok()) { out << " calendar-error"; std::cout << out.str() << "\n"; continue; }
      auto calendar = std::move(c).ok().value();
      auto r = PlainDateTime::try_create(y, (uint8_t)m, (uint8_t)d, (uint8_t)h, (uint8_t)mi, (uint8_t)s, (uint16_t)ms, (uint16_t)us, (uint16_t)ns, *calendar);
      if (!r.is_ok()) { out << " Err(" << kind(std::move(r).err().value()) << ")"; std::cout << out.str() << "\n"; continue; }
      auto dt = std::move(r).ok().value();
      out << " " << dt->iso_year() << "-" << (int)dt->iso_month() << "-" << (int)dt->iso_day() << "T" << (int)dt->hour() << ":" << (int)dt->minute() << ":" << (int)dt->second() << "." << dt->millisecond() << "." << dt->microsecond() << "." << dt->nanosecond()
          << " y=" << dt->year() << " m=" << (int)dt->month() << " mc=" << dt->month_code() << " d=" << (int)dt->day() << " doy=" << dt->day_of_year() << " era=" << dt->era() << " ey=" << optnum(dt->era_year());
      ToStringRoundingOptions so;
      so.precision.is_minute = false;
      so.precision.precision = dig < 0 ? std::nullopt : std::optional<uint8_t>((uint8_t)dig);
      so.smallest_unit = std::nullopt;
      so.rounding_mode = mode_of(mo);
      auto st = dt->to_ixdtf_string(so, dc_of(dc));
      if (st.is_ok()) out << " str=" << std::move(st).ok().value(); else out << " str=Err(" << kind(std::move(st).err().value()) << ")";
      RoundingOptions ro;
      ro.largest_unit = std::nullopt;
      ro.smallest_unit = unit_of(su);
      ro.rounding_mode = mode_of(mo);
      ro.increment = inc;
      auto rr = dt->round(ro);
      if (rr.is_ok()) { auto v = std::move(rr).ok().value(); out << " round=" << v->iso_year() << "-" << (int)v->iso_month() << "-" << (int)v->iso_day() << "T" << (int)v->hour() << ":" << (int)v->minute() << ":" << (int)v->second() << "." << v->millisecond() << "." << v->microsecond() << "." << v->nanosecond(); }
      else out << " round=Err(" << kind(std::move(rr).err().value()) << ")";
    } else if (tag == "YM") {
      int y, m, ov;
      std::string cal;
      in >> y >> m >> cal >> ov;
      auto c = Calendar::from_utf8(cal);
      if (!c.is_ok()) { out << " calendar-error"; std::cout << out.str() << "\n"; continue; }
      auto calendar = std::move(c).ok().value();
      auto r = PlainYearMonth::create_with_overflow(y, (uint8_t)m, std::nullopt, *calendar, ov_of(ov));
      if (!r.is_ok()) { out << " Err(" << kind(std::move(r).err().value()) << ")"; std::cout << out.str() << "\n"; continue; }
      auto v = std::move(r).ok().value();
      out << " " << v->iso_year() << "-" << (int)v->iso_month() << " y=" << v->year() << " m=" << (int)v->month() << " mc=" << v->month_code() << " dim=" << v->days_in_month() << " diy=" << v->days_in_year() << " miy=" << v->months_in_year() << " leap=" << v->in_leap_year() << " pad=" << v->padded_iso_year_string();
      auto md = PlainMonthDay::create_with_overflow((uint8_t)m, (uint8_t)((y % 31 + 31) % 31 + 1), *calendar, ov_of(ov), std::nullopt);
      if (md.is_ok()) { auto w = std::move(md).ok().value(); out << " md=" << w->iso_year() << "-" << (int)w->iso_month() << "-" << (int)w->iso_day() << " mc=" << w->month_code(); } else out << " md=Err(" << kind(std::move(md).err().value()) << ")";
    }
    std::cout << out.str() << "\n";
  }
  return 0;
}
